//! Triage repro for `Ka-estimate-decides-uniqueness`.
//!
//! Goes in `tests/triage_ka.rs` (integration test, public API only).
//!
//! For Parquet tables `ColumnStatistics::ndv_est` is
//! `min(row_count - null_count, max - min + 1)`: an UPPER BOUND on the
//! distinct count. `GroupKeyReduction::is_unique_key` and
//! `EagerAggregation::try_rewrite_left_count` read `ndv_est >= row_count` as
//! "this column is a unique key". A null-free column {1, 1, 5} (3 rows, range
//! 5 => ndv_est 3) or {1, 1, 3} (3 rows, range 3 => ndv_est 3, "dense") passes
//! that test although the value 1 occurs twice, and rewrites that are only
//! valid for unique keys change the answer.
//!
//! Every test runs the same SQL over (1) Parquet files written here (footer
//! statistics => the rules fire) and (2) the same batches registered in
//! memory (no column statistics => the rules decline) and demands equality.

use arrow::array::{Array, Int64Array, RecordBatch};
use arrow::datatypes::{DataType, Field, Schema};
use parquet::arrow::ArrowWriter;
use query_engine::ExecutionContext;
use std::sync::Arc;

fn batch(names: [&str; 2], rows: &[(i64, i64)]) -> RecordBatch {
    let schema = Arc::new(Schema::new(vec![
        Field::new(names[0], DataType::Int64, false),
        Field::new(names[1], DataType::Int64, false),
    ]));
    RecordBatch::try_new(
        schema,
        vec![
            Arc::new(Int64Array::from_iter_values(rows.iter().map(|r| r.0))),
            Arc::new(Int64Array::from_iter_values(rows.iter().map(|r| r.1))),
        ],
    )
    .unwrap()
}

/// Register every (name, batch) both as a Parquet file and in memory.
fn contexts(
    tables: &[(&str, RecordBatch)],
) -> (tempfile::TempDir, ExecutionContext, ExecutionContext) {
    let dir = tempfile::tempdir().unwrap();
    let mut pq = ExecutionContext::new();
    let mut mem = ExecutionContext::new();
    for (name, b) in tables {
        let path = dir.path().join(format!("{name}.parquet"));
        let f = std::fs::File::create(&path).unwrap();
        let mut w = ArrowWriter::try_new(f, b.schema(), None).unwrap();
        w.write(b).unwrap();
        w.close().unwrap();
        pq.register_parquet(*name, &path).unwrap();
        mem.register_table(*name, b.schema(), vec![b.clone()]);
    }
    (dir, pq, mem)
}

async fn rows(ctx: &ExecutionContext, sql: &str, sort: bool) -> Vec<Vec<i64>> {
    let res = ctx.sql(sql).await.unwrap();
    let mut out = Vec::new();
    for b in &res.batches {
        for r in 0..b.num_rows() {
            out.push(
                (0..b.num_columns())
                    .map(|c| {
                        let a = arrow::compute::cast(b.column(c), &DataType::Int64).unwrap();
                        a.as_any().downcast_ref::<Int64Array>().unwrap().value(r)
                    })
                    .collect(),
            );
        }
    }
    if sort {
        out.sort();
    }
    out
}

/// Site (a), smallest shape: one table, GROUP BY k, d. k = {1, 1, 5} is
/// null-free with ndv_est = min(3, 5) = 3 >= row_count, so `is_unique_key`
/// says "unique", d is declared functionally dependent on k, and the
/// aggregate is collapsed to GROUP BY k with ANY_VALUE(d).
#[tokio::test]
async fn ka_a_group_key_reduction_single_table() {
    let t = batch(["k", "d"], &[(1, 10), (1, 20), (5, 30)]);
    let (_dir, pq, mem) = contexts(&[("t", t)]);
    let sql = "SELECT k, d, COUNT(*) AS c FROM t GROUP BY k, d";
    let expected = rows(&mem, sql, true).await;
    assert_eq!(
        expected,
        vec![vec![1, 10, 1], vec![1, 20, 1], vec![5, 30, 1]]
    );
    assert_eq!(rows(&pq, sql, true).await, expected);
}

/// Site (a), the documented shape: fact JOIN dim GROUP BY fact key + dim
/// column. dim.dk = {1, 1, 5} is taken for a unique key, so dtag is "FD" on
/// fk through the edge fk = dk and the two dim rows of key 1 are merged.
#[tokio::test]
async fn ka_a_group_key_reduction_fact_dim_join() {
    let dim = batch(["dk", "dtag"], &[(1, 100), (1, 200), (5, 300)]);
    let fact = batch(["fk", "amt"], &[(1, 10), (5, 20), (5, 1)]);
    let (_dir, pq, mem) = contexts(&[("dim", dim), ("fact", fact)]);
    let sql = "SELECT fk, dtag, SUM(amt) AS s FROM fact JOIN dim ON fk = dk GROUP BY fk, dtag";
    let expected = rows(&mem, sql, true).await;
    assert_eq!(
        expected,
        vec![vec![1, 100, 10], vec![1, 200, 10], vec![5, 300, 21]]
    );
    assert_eq!(rows(&pq, sql, true).await, expected);
}

/// Site (b): the "dense" test in `prune_row_preserving`. cust.ck = {1, 1, 3}
/// has row_count 3, range 3, ndv_est 3: "unique AND dense", and ords.ok lies
/// inside [1, 3], so the top-k branch drops the join to cust as
/// row-preserving. It is not: key 1 matches twice and key 2 not at all. The
/// duplicate cust rows carry the SAME ctag, so the (a)-style reduction to
/// GROUP BY ck is harmless for this data - the wrong answer comes from the
/// join pruning alone.
#[tokio::test]
async fn ka_b_defer_decorations_prunes_non_row_preserving_join() {
    let cust = batch(["ck", "ctag"], &[(1, 7), (1, 7), (3, 9)]);
    let ords = batch(["ok", "total"], &[(1, 10), (2, 100), (3, 5)]);
    let (_dir, pq, mem) = contexts(&[("cust", cust), ("ords", ords)]);
    let sql = "SELECT ck, ctag, SUM(total) AS rev FROM cust JOIN ords ON ck = ok \
               GROUP BY ck, ctag ORDER BY rev DESC LIMIT 2";
    let expected = rows(&mem, sql, false).await;
    assert_eq!(expected, vec![vec![1, 7, 20], vec![3, 9, 5]]);
    assert_eq!(rows(&pq, sql, false).await, expected);
}

/// Site (c): EagerAggregation LEFT-join count pushdown. lt.lk = {1, 1, 5}
/// passes `ndv_est >= row_count`, the outer aggregate is REMOVED ("each L row
/// yields exactly one group"), and key 1 comes back as two rows.
#[tokio::test]
async fn ka_c_eager_left_count() {
    let lt = batch(["lk", "lv"], &[(1, 0), (1, 0), (5, 0)]);
    let rt = batch(["rk", "rx"], &[(1, 1), (1, 2), (1, 3), (5, 4), (9, 5)]);
    let (_dir, pq, mem) = contexts(&[("lt", lt), ("rt", rt)]);
    let sql = "SELECT lk, COUNT(rx) AS c FROM lt LEFT JOIN rt ON lk = rk GROUP BY lk";
    let expected = rows(&mem, sql, true).await;
    assert_eq!(expected, vec![vec![1, 6], vec![5, 1]]);
    assert_eq!(rows(&pq, sql, true).await, expected);
}
