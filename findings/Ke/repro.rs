//! Triage Ke-nan-row-group-pruning: Parquet min/max statistics exclude NaN, but
//! the engine's comparison kernels use the total order in which NaN is the
//! greatest value (NaN > v is TRUE, NaN <= v is FALSE). Pruning a row group
//! for `f > v` because `max <= v`, or dropping the filter for `f <= v` because
//! `max <= v`, is therefore wrong when the row group holds NaN rows.
//! Goes in `tests/triage_ke_nan_pruning.rs`.
//!
//! The reference is the same data in an in-memory table (no statistics).

use arrow::array::{ArrayRef, Float64Array, Int64Array};
use arrow::datatypes::{DataType, Field, Schema};
use arrow::record_batch::RecordBatch;
use parquet::arrow::ArrowWriter;
use parquet::file::reader::{FileReader, SerializedFileReader};
use parquet::file::statistics::Statistics;
use query_engine::ExecutionContext;
use std::sync::Arc;

fn data() -> RecordBatch {
    let schema = Arc::new(Schema::new(vec![
        Field::new("id", DataType::Int64, false),
        Field::new("f", DataType::Float64, false),
    ]));
    // 3 finite rows (max 100.0) and 2 NaN rows, no NULLs.
    let f = vec![1.0, 50.0, f64::NAN, 100.0, f64::NAN];
    RecordBatch::try_new(
        schema,
        vec![
            Arc::new(Int64Array::from(vec![1, 2, 3, 4, 5])) as ArrayRef,
            Arc::new(Float64Array::from(f)) as ArrayRef,
        ],
    )
    .unwrap()
}

/// (parquet-backed ctx, memory-backed ctx, tempdir guard)
fn contexts() -> (ExecutionContext, ExecutionContext, tempfile::TempDir) {
    let b = data();
    let dir = tempfile::tempdir().unwrap();
    let path = dir.path().join("nan.parquet");
    let file = std::fs::File::create(&path).unwrap();
    let mut w = ArrowWriter::try_new(file, b.schema(), None).unwrap();
    w.write(&b).unwrap();
    w.close().unwrap();

    // What the footer says: min/max skip the NaN rows.
    let r = SerializedFileReader::new(std::fs::File::open(&path).unwrap()).unwrap();
    let md = r.metadata();
    assert_eq!(md.num_row_groups(), 1);
    match md.row_group(0).column(1).statistics() {
        Some(Statistics::Double(s)) => {
            eprintln!(
                "footer stats for f: min={:?} max={:?} null_count={:?}",
                s.min_opt(),
                s.max_opt(),
                s.null_count_opt()
            );
            assert_eq!(s.min_opt(), Some(&1.0));
            assert_eq!(s.max_opt(), Some(&100.0), "writer excludes NaN from max");
        }
        other => panic!("expected Double statistics, got {other:?}"),
    }

    let mut pq = ExecutionContext::new();
    pq.register_parquet("t", &path).unwrap();
    let mut mem = ExecutionContext::new();
    mem.register_table("t", b.schema(), vec![b]);
    (pq, mem, dir)
}

async fn ids(ctx: &ExecutionContext, sql: &str) -> Vec<i64> {
    let res = ctx.sql(sql).await.unwrap_or_else(|e| panic!("{sql}: {e}"));
    let mut out = vec![];
    for b in &res.batches {
        let c = b.column(0).as_any().downcast_ref::<Int64Array>().unwrap();
        out.extend((0..c.len()).map(|i| c.value(i)));
    }
    out.sort();
    out
}

/// `expected` is what the engine's own (interpreter) comparison semantics give
/// for this data: NaN is the greatest value. The parquet-backed table must
/// return it. The in-memory table is the control; it is only asserted under
/// `QE_COMPILE=0`, because on the unmodified tree the compiled-predicate path
/// has its own NaN defect (triage item F2) that confounds `f > v` in memory.
async fn check(sql: &str, expected: Vec<i64>) {
    let (pq, mem, _guard) = contexts();
    if std::env::var("QE_COMPILE").as_deref() == Ok("0") {
        assert_eq!(ids(&mem, sql).await, expected, "in-memory control: {sql}");
    }
    assert_eq!(ids(&pq, sql).await, expected, "parquet: {sql}");
}

fn footer() -> (parquet::file::metadata::ParquetMetaData, tempfile::TempDir) {
    let b = data();
    let dir = tempfile::tempdir().unwrap();
    let path = dir.path().join("nan.parquet");
    let mut w = ArrowWriter::try_new(std::fs::File::create(&path).unwrap(), b.schema(), None).unwrap();
    w.write(&b).unwrap();
    w.close().unwrap();
    let r = SerializedFileReader::new(std::fs::File::open(&path).unwrap()).unwrap();
    (r.metadata().clone(), dir)
}

/// The pruning functions themselves, independent of any predicate evaluator:
/// the row group holds two rows (NaN) for which `f > 100.0` is TRUE and
/// `f <= 100.0` is FALSE under the engine's comparison kernels.
#[test]
fn pruning_functions_direct() {
    use query_engine::planner::{BinaryOp, Column, Expr, ScalarValue};
    use query_engine::storage::row_group_pruning::{prune_row_groups, row_group_definitely_matches};
    let (md, _g) = footer();
    let schema = data().schema();
    let pred = |op| Expr::BinaryExpr {
        left: Box::new(Expr::Column(Column::new("f"))),
        op,
        right: Box::new(Expr::Literal(ScalarValue::Float64(100.0.into()))),
    };
    let kept = prune_row_groups(&md, &schema, Some(&pred(BinaryOp::Gt)));
    let all_match = row_group_definitely_matches(&pred(BinaryOp::LtEq), md.row_group(0), &schema);
    assert_eq!(
        (kept, all_match),
        (vec![0], false),
        "(row groups kept for f > 100.0, 'every row matches f <= 100.0'): the group holds NaN rows"
    );
}

/// `eval_range_f64`: Gt prunes when max <= v.
#[tokio::test]
async fn gt_above_max_keeps_nan_rows() {
    check("SELECT id FROM t WHERE f > 100.0", vec![3, 5]).await;
}

#[tokio::test]
async fn gte_above_max_keeps_nan_rows() {
    check("SELECT id FROM t WHERE f >= 100.5", vec![3, 5]).await;
}

/// `definite_comparison`: LtEq "every row matches" when max <= v -> filter dropped.
#[tokio::test]
async fn lte_max_drops_nan_rows() {
    check("SELECT id FROM t WHERE f <= 100.0", vec![1, 2, 4]).await;
    check("SELECT id FROM t WHERE f <= 100", vec![1, 2, 4]).await;
}

#[tokio::test]
async fn lt_above_max_drops_nan_rows() {
    check("SELECT id FROM t WHERE f < 1000.0", vec![1, 2, 4]).await;
}

/// `NOT (f <= v)` is pruned when `f <= v` "definitely matches".
#[tokio::test]
async fn not_lte_keeps_nan_rows() {
    check("SELECT id FROM t WHERE NOT (f <= 100.0)", vec![3, 5]).await;
}

/// The aggregate-over-scan path (morsel scan drops the row filter for a
/// "fully matching" row group). Fails in default mode AND with QE_COMPILE=0.
#[tokio::test]
async fn count_star_shapes() {
    check("SELECT count(*) FROM t WHERE f <= 100.0", vec![3]).await;
    check("SELECT count(*) FROM t WHERE f > 100.0", vec![2]).await;
}
