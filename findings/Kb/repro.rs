//! Triage repro for `Kb-set-ops-null-and-all`.
//! Place at `tests/triage_kb_set_ops.rs`; run with
//! `cargo test --offline --test triage_kb_set_ops`.
//!
//! INTERSECT / EXCEPT are lowered to Semi / Anti hash joins on plain column
//! equality. SQL set operations treat NULLs as "not distinct" and the ALL
//! forms are multiset operations (min / difference of multiplicities).

use arrow::array::{Array, ArrayRef, Int64Array};
use arrow::datatypes::{DataType, Field, Schema};
use arrow::record_batch::RecordBatch;
use query_engine::ExecutionContext;
use std::sync::Arc;

fn table(ctx: &mut ExecutionContext, name: &str, vals: Vec<Option<i64>>) {
    let schema = Arc::new(Schema::new(vec![Field::new("x", DataType::Int64, true)]));
    let batch = RecordBatch::try_new(
        schema.clone(),
        vec![Arc::new(Int64Array::from(vals)) as ArrayRef],
    )
    .unwrap();
    ctx.register_table(name, schema, vec![batch]);
}

/// First column of the result as sorted `Option<i64>` (NULLs first).
async fn col0(ctx: &ExecutionContext, sql: &str) -> Vec<Option<i64>> {
    let res = ctx
        .sql(sql)
        .await
        .unwrap_or_else(|e| panic!("query failed: {e}\nSQL: {sql}"));
    let mut out = Vec::new();
    for b in &res.batches {
        let c = arrow::compute::cast(b.column(0), &DataType::Int64).unwrap();
        let c = c.as_any().downcast_ref::<Int64Array>().unwrap();
        for i in 0..c.len() {
            out.push(if c.is_null(i) { None } else { Some(c.value(i)) });
        }
    }
    out.sort();
    out
}

#[tokio::test]
async fn intersect_of_null_literals_keeps_one_null_row() {
    let ctx = ExecutionContext::new();
    let got = col0(&ctx, "SELECT NULL INTERSECT SELECT NULL").await;
    assert_eq!(got, vec![None], "NULL INTERSECT NULL must yield one NULL row");
}

/// Same as above with a typed NULL, so that the untyped-NULL column (which the
/// Distinct above the semi join cannot group: "Group by type not supported:
/// Null") is not what makes the query fail.
#[tokio::test]
async fn intersect_of_typed_null_literals_keeps_one_null_row() {
    let ctx = ExecutionContext::new();
    let got = col0(
        &ctx,
        "SELECT CAST(NULL AS BIGINT) AS x INTERSECT SELECT CAST(NULL AS BIGINT) AS x",
    )
    .await;
    assert_eq!(got, vec![None], "NULL INTERSECT NULL must yield one NULL row");
}

#[tokio::test]
async fn intersect_treats_null_as_not_distinct() {
    let mut ctx = ExecutionContext::new();
    table(&mut ctx, "a", vec![Some(1), None, Some(2)]);
    table(&mut ctx, "b", vec![None, Some(2), Some(3)]);
    let got = col0(&ctx, "SELECT x FROM a INTERSECT SELECT x FROM b").await;
    assert_eq!(got, vec![None, Some(2)]);
}

#[tokio::test]
async fn except_removes_null_present_on_both_sides() {
    let mut ctx = ExecutionContext::new();
    table(&mut ctx, "a", vec![Some(1), None, Some(2)]);
    table(&mut ctx, "b", vec![None, Some(2), Some(3)]);
    let got = col0(&ctx, "SELECT x FROM a EXCEPT SELECT x FROM b").await;
    assert_eq!(got, vec![Some(1)], "NULL is in both inputs, EXCEPT must drop it");
}

#[tokio::test]
async fn intersect_all_uses_min_multiplicity() {
    let mut ctx = ExecutionContext::new();
    table(&mut ctx, "a", vec![Some(1), Some(1), Some(1)]);
    table(&mut ctx, "b", vec![Some(1), Some(1)]);
    let got = col0(&ctx, "SELECT x FROM a INTERSECT ALL SELECT x FROM b").await;
    assert_eq!(got, vec![Some(1), Some(1)], "min(3, 2) = 2 copies");
}

#[tokio::test]
async fn except_all_uses_multiplicity_difference() {
    let mut ctx = ExecutionContext::new();
    table(&mut ctx, "a", vec![Some(1), Some(1), Some(1)]);
    table(&mut ctx, "b", vec![Some(1), Some(1)]);
    let got = col0(&ctx, "SELECT x FROM a EXCEPT ALL SELECT x FROM b").await;
    assert_eq!(got, vec![Some(1)], "3 - 2 = 1 copy");
}
