//! Triage repro for Kg-duplicate-file-names. Place at tests/triage_kg_duplicate_file_names.rs
//!
//! `enumerate_parquet` documents: "`files` may be in any order; the result is
//! canonically ordered", and every node recomputes its own share from its own
//! enumeration, guarded only by `SplitSet::digest()`. The canonical key is the
//! file NAME, so two files with the same name in different directories
//! (`a/part-0.parquet`, `b/part-0.parquet` — the normal shape of a Hive-style
//! partitioned table, and of Iceberg tables whose manifests list such files)
//! tie; the (stable) sorts then leave them in ARGUMENT order, and when the
//! two footers have equal row counts / byte sizes the digest is identical for
//! both orders, so the interlock cannot see the disagreement.

use arrow::array::{Int64Array, RecordBatch};
use arrow::datatypes::{DataType, Field, Schema, SchemaRef};
use parquet::arrow::ArrowWriter;
use query_engine::distributed::{assign_lpt, enumerate_parquet, ShardedParquetTable, SplitSet};
use query_engine::physical::operators::TableProvider;
use std::fs::File;
use std::path::{Path, PathBuf};
use std::sync::Arc;

fn schema() -> SchemaRef {
    Arc::new(Schema::new(vec![Field::new("v", DataType::Int64, false)]))
}

/// One row group of `n` rows, every value = `value`.
fn write_parquet(path: &Path, value: i64, n: usize) {
    std::fs::create_dir_all(path.parent().unwrap()).unwrap();
    let batch =
        RecordBatch::try_new(schema(), vec![Arc::new(Int64Array::from(vec![value; n]))]).unwrap();
    let mut w = ArrowWriter::try_new(File::create(path).unwrap(), schema(), None).unwrap();
    w.write(&batch).unwrap();
    w.close().unwrap();
}

/// `root/a/part-0.parquet` (1000 x 1) and `root/b/part-0.parquet` (1000 x 1_000_000):
/// same name, same shape, different contents.
fn layout(root: &Path) -> (PathBuf, PathBuf) {
    let p1 = root.join("a").join("part-0.parquet");
    let p2 = root.join("b").join("part-0.parquet");
    write_parquet(&p1, 1, 1000);
    write_parquet(&p2, 1_000_000, 1000);
    (p1, p2)
}

fn shape(set: &SplitSet) -> Vec<(PathBuf, usize, i64, i64)> {
    set.splits
        .iter()
        .map(|s| (s.path.clone(), s.row_group, s.row_offset, s.num_rows))
        .collect()
}

fn sum_of(batches: &[RecordBatch]) -> i64 {
    batches
        .iter()
        .map(|b| {
            b.column(0)
                .as_any()
                .downcast_ref::<Int64Array>()
                .unwrap()
                .iter()
                .map(|v| v.unwrap())
                .sum::<i64>()
        })
        .sum()
}

/// The documented contract: argument order does not matter.
#[test]
fn enumeration_of_same_named_files_does_not_depend_on_argument_order() {
    let dir = tempfile::tempdir().unwrap();
    let (p1, p2) = layout(dir.path());

    // nodes = 1 => each file is exactly one split, which isolates the ordering
    // question from the split-cutting arithmetic.
    let fwd = enumerate_parquet("t", &[p1.clone(), p2.clone()], 1).unwrap();
    let rev = enumerate_parquet("t", &[p2.clone(), p1.clone()], 1).unwrap();
    assert_eq!(fwd.len(), 2);
    assert_eq!(rev.len(), 2);

    assert_eq!(
        shape(&fwd),
        shape(&rev),
        "same files, different argument order: the canonical enumeration must be identical \
         (digests: fwd={:#x} rev={:#x})",
        fwd.digest(),
        rev.digest()
    );
    assert_eq!(fwd.digest(), rev.digest());
}

/// What the tie costs: two nodes whose file lists are ordered differently pass
/// the digest interlock and then each reads "its" share — together they read
/// one file twice and the other never.
#[test]
fn two_nodes_listing_same_named_files_in_different_orders_still_cover_every_row_once() {
    let dir = tempfile::tempdir().unwrap();
    let (p1, p2) = layout(dir.path());
    let truth: i64 = 1000 * 1 + 1000 * 1_000_000;

    // Node 0 lists [p1, p2]; node 1 lists [p2, p1]. Both compute everything
    // locally, exactly as `execute_fragment` does.
    let node0 = enumerate_parquet("t", &[p1.clone(), p2.clone()], 2).unwrap();
    let node1 = enumerate_parquet("t", &[p2.clone(), p1.clone()], 2).unwrap();

    if node0.digest() != node1.digest() {
        // Also acceptable: the interlock notices and the query is refused.
        return;
    }

    let mut total = 0i64;
    let mut rows = 0usize;
    for (shard_index, set) in [(0usize, &node0), (1usize, &node1)] {
        let assignment = assign_lpt(set, 2);
        let owned: Vec<_> = assignment.per_node[shard_index]
            .iter()
            .map(|&i| set.splits[i].clone())
            .collect();
        let shard = ShardedParquetTable::new(schema(), owned, None);
        let batches = shard.scan(None).unwrap();
        rows += batches.iter().map(|b| b.num_rows()).sum::<usize>();
        total += sum_of(&batches);
    }
    assert_eq!(rows, 2000);
    assert_eq!(
        total, truth,
        "digests agreed ({:#x}) yet the two shards together did not read each file exactly once",
        node0.digest()
    );
}

/// Guard for any repair: the identity must stay mount-point independent, and
/// must stay the plain file name when names are already unique.
#[test]
fn identity_is_mount_point_independent_and_unchanged_for_unique_names() {
    let m1 = tempfile::tempdir().unwrap();
    let m2 = tempfile::tempdir().unwrap();
    let (a1, b1) = layout(&m1.path().join("data").join("tbl"));
    let (a2, b2) = layout(&m2.path().join("mnt").join("deep").join("er").join("tbl"));
    let s1 = enumerate_parquet("t", &[a1, b1], 3).unwrap();
    let s2 = enumerate_parquet("t", &[b2, a2], 3).unwrap();
    assert_eq!(s1.digest(), s2.digest());

    let u = tempfile::tempdir().unwrap();
    let x = u.path().join("p").join("x.parquet");
    let y = u.path().join("q").join("y.parquet");
    write_parquet(&x, 1, 10);
    write_parquet(&y, 2, 10);
    let s = enumerate_parquet("t", &[y, x], 1).unwrap();
    let names: Vec<&str> = s.splits.iter().map(|s| s.file.as_str()).collect();
    assert_eq!(names, vec!["x.parquet", "y.parquet"]);
}
