//! Triage repro for `Kh-dangling-custkey`.
//! Place at `tests/triage_kh_custkey.rs`; run with
//! `cargo test --offline --test triage_kh_custkey`.
//!
//! Property: every foreign key in the generated TPC-H data refers to an
//! existing row. `generate_orders` draws `o_custkey` from
//! `1..=1.5 * customer_count`, so ~1/3 of the orders point at customers that
//! do not exist. (The real TPC-H spec, clause 4.2.3, draws O_CUSTKEY from
//! `[1 .. SF*150000]` and merely skips keys divisible by 3 - a third of the
//! customers have no orders, but no order is dangling.)

use arrow::array::{Array, Int64Array};
use query_engine::tpch::TpchGenerator;
use query_engine::ExecutionContext;
use std::collections::HashSet;

fn int_col(ctx: &ExecutionContext, table: &str, col: &str) -> Vec<i64> {
    let provider = ctx.table_provider(table).expect("table registered");
    let idx = provider.schema().index_of(col).unwrap();
    let mut out = Vec::new();
    for b in provider.scan(None).unwrap() {
        let a = b.column(idx).as_any().downcast_ref::<Int64Array>().unwrap();
        assert_eq!(a.null_count(), 0);
        out.extend(a.values().iter().copied());
    }
    out
}

#[test]
fn every_o_custkey_refers_to_an_existing_customer() {
    let mut ctx = ExecutionContext::new();
    TpchGenerator::new(0.001).generate_all(&mut ctx);

    let customers: HashSet<i64> = int_col(&ctx, "customer", "c_custkey").into_iter().collect();
    let o_custkey = int_col(&ctx, "orders", "o_custkey");
    let dangling = o_custkey.iter().filter(|k| !customers.contains(k)).count();

    assert_eq!(
        dangling,
        0,
        "{dangling} of {} orders reference a customer that does not exist \
         ({} customers, max o_custkey = {:?})",
        o_custkey.len(),
        customers.len(),
        o_custkey.iter().max()
    );
}

/// Same observation through the SQL engine itself.
#[tokio::test]
async fn sql_anti_join_finds_no_dangling_orders() {
    let mut ctx = ExecutionContext::new();
    TpchGenerator::new(0.001).generate_all(&mut ctx);
    let res = ctx
        .sql(
            "SELECT count(*) FROM orders \
             WHERE NOT EXISTS (SELECT 1 FROM customer WHERE c_custkey = o_custkey)",
        )
        .await
        .unwrap();
    let n = res.batches[0]
        .column(0)
        .as_any()
        .downcast_ref::<Int64Array>()
        .unwrap()
        .value(0);
    assert_eq!(n, 0, "{n} orders have no matching customer row");
}
