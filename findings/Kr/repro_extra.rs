//! Triage Kn-null-group-keys-split, ADDITIONAL findings on the morsel
//! aggregation core (src/physical/morsel_agg.rs `AggregationState`), which is
//! NOT the compare_row defect: there a NULL-keyed group is LOST, not split.
//!
//!  * `group_by_multi_column_*`: a group whose key is NULL in EVERY grouping
//!    column is dropped when a later key forces a perfect-hash rehash
//!    (fixed by fix_extra_all_null_composite_key.diff);
//!  * `group_by_without_aggregates_parquet`: with no aggregate at all the
//!    all-NULL-key slot is indistinguishable from a free slot (NOT fixed).
//!
//! Goes in `tests/triage_kn_extra.rs`. Run with
//! `cargo test --offline --test triage_kn_extra`.

use arrow::array::*;
use arrow::datatypes::{DataType, Field, Schema};
use arrow::record_batch::RecordBatch;
use query_engine::{ExecutionContext, QueryResult};
use std::sync::Arc;

fn cell(col: &ArrayRef, row: usize) -> String {
    if col.is_null(row) {
        return "NULL".to_string();
    }
    match col.data_type() {
        DataType::Int64 => col
            .as_any()
            .downcast_ref::<Int64Array>()
            .unwrap()
            .value(row)
            .to_string(),
        DataType::Utf8 => col
            .as_any()
            .downcast_ref::<StringArray>()
            .unwrap()
            .value(row)
            .to_string(),
        DataType::Float64 => format!(
            "{:.3}",
            col.as_any()
                .downcast_ref::<Float64Array>()
                .unwrap()
                .value(row)
        ),
        other => panic!("unhandled type {other:?}"),
    }
}

fn rows_sorted(result: &QueryResult) -> Vec<Vec<String>> {
    let mut rows = Vec::new();
    for batch in &result.batches {
        for row in 0..batch.num_rows() {
            rows.push(batch.columns().iter().map(|c| cell(c, row)).collect());
        }
    }
    rows.sort();
    rows
}

fn s(v: &[&[&str]]) -> Vec<Vec<String>> {
    let mut out: Vec<Vec<String>> = v
        .iter()
        .map(|r| r.iter().map(|x| x.to_string()).collect())
        .collect();
    out.sort();
    out
}

/// t(k BIGINT, s VARCHAR, v BIGINT):
///  k = {1, NULL, NULL, 2, NULL}, s = {a, NULL, NULL, b, x}, v = {10,20,30,40,50}
fn small_batch() -> RecordBatch {
    let schema = Arc::new(Schema::new(vec![
        Field::new("k", DataType::Int64, true),
        Field::new("s", DataType::Utf8, true),
        Field::new("v", DataType::Int64, false),
    ]));
    RecordBatch::try_new(
        schema,
        vec![
            Arc::new(Int64Array::from(vec![Some(1), None, None, Some(2), None])),
            Arc::new(StringArray::from(vec![
                Some("a"),
                None,
                None,
                Some("b"),
                Some("x"),
            ])),
            Arc::new(Int64Array::from(vec![10, 20, 30, 40, 50])),
        ],
    )
    .unwrap()
}

fn small_ctx() -> ExecutionContext {
    let mut ctx = ExecutionContext::new();
    ctx.register_batch("t", small_batch());
    ctx.register_batch("u", small_batch());
    ctx
}

#[tokio::test]
async fn group_by_multi_column_null_component_in_memory() {
    let r = small_ctx()
        .sql("SELECT k, s, COUNT(*) AS c FROM t GROUP BY k, s")
        .await
        .unwrap();
    assert_eq!(
        rows_sorted(&r),
        s(&[
            &["1", "a", "1"],
            &["2", "b", "1"],
            &["NULL", "NULL", "2"],
            &["NULL", "x", "1"]
        ])
    );
}

#[tokio::test]
async fn group_by_multi_column_parquet() {
    let dir = tempfile::tempdir().unwrap();
    let path = dir.path().join("t.parquet");
    let batch = small_batch();
    let file = std::fs::File::create(&path).unwrap();
    let mut w = parquet::arrow::ArrowWriter::try_new(file, batch.schema(), None).unwrap();
    w.write(&batch).unwrap();
    w.close().unwrap();
    let mut ctx = ExecutionContext::new();
    ctx.register_parquet("t", path.to_str().unwrap()).unwrap();
    let r = ctx
        .sql("SELECT k, s, COUNT(*) AS c FROM t GROUP BY k, s")
        .await
        .unwrap();
    assert_eq!(
        rows_sorted(&r),
        s(&[
            &["1", "a", "1"],
            &["2", "b", "1"],
            &["NULL", "NULL", "2"],
            &["NULL", "x", "1"]
        ])
    );
}

#[tokio::test]
async fn group_by_without_aggregates_parquet() {
    let dir = tempfile::tempdir().unwrap();
    let path = dir.path().join("t.parquet");
    let batch = small_batch();
    let file = std::fs::File::create(&path).unwrap();
    let mut w = parquet::arrow::ArrowWriter::try_new(file, batch.schema(), None).unwrap();
    w.write(&batch).unwrap();
    w.close().unwrap();
    let mut ctx = ExecutionContext::new();
    ctx.register_parquet("t", path.to_str().unwrap()).unwrap();
    let r = ctx.sql("SELECT k FROM t GROUP BY k").await.unwrap();
    assert_eq!(rows_sorted(&r), s(&[&["1"], &["2"], &["NULL"]]));
}
