// qe-facts: rustc_private driver that dumps type-resolved HIR/MIR facts for the
// query_engine crates as JSON lines.  Run as RUSTC_WORKSPACE_WRAPPER; argv[1] is
// the real rustc path and is dropped.  Output: $QE_FACTS_OUT/<crate>-<type>-<pid>.jsonl
// (one write per process).  If QE_FACTS_OUT is unset the driver behaves as plain rustc.
#![feature(rustc_private)]
#![feature(box_patterns)]
#![allow(clippy::all)]

extern crate rustc_abi;
extern crate rustc_ast;
extern crate rustc_driver;
extern crate rustc_hir;
extern crate rustc_interface;
extern crate rustc_middle;
extern crate rustc_span;

use rustc_driver::Compilation;
use rustc_hir as hir;
use rustc_hir::def::{DefKind, Res};
use rustc_hir::def_id::{DefId, LocalDefId};
use rustc_hir::intravisit::{self, Visitor};
use rustc_interface::interface::Compiler;
use rustc_middle::mir::{self, Operand, Place, ProjectionElem, Rvalue, StatementKind, TerminatorKind};
use rustc_middle::ty::print::with_no_trimmed_paths;
use rustc_middle::ty::{self, Instance, Ty, TyCtxt, TypingEnv};
use rustc_span::Span;
use std::fmt::Write as _;

fn js(s: &str) -> String {
    let mut o = String::with_capacity(s.len() + 2);
    o.push('"');
    for c in s.chars() {
        match c {
            '"' => o.push_str("\\\""),
            '\\' => o.push_str("\\\\"),
            '\n' => o.push_str("\\n"),
            '\r' => o.push_str("\\r"),
            '\t' => o.push_str("\\t"),
            c if (c as u32) < 0x20 => {
                let _ = write!(o, "\\u{:04x}", c as u32);
            }
            c => o.push(c),
        }
    }
    o.push('"');
    o
}

fn trunc(mut s: String, n: usize) -> String {
    if s.len() > n {
        let mut i = n;
        while !s.is_char_boundary(i) {
            i -= 1;
        }
        s.truncate(i);
        s.push('…');
    }
    s
}

struct Cx<'tcx> {
    tcx: TyCtxt<'tcx>,
    out: String,
}

impl<'tcx> Cx<'tcx> {
    fn path(&self, did: DefId) -> String {
        with_no_trimmed_paths!(self.tcx.def_path_str(did))
    }
    fn tys(&self, t: Ty<'tcx>) -> String {
        trunc(with_no_trimmed_paths!(t.to_string()), 240)
    }
    fn span4(&self, sp: Span) -> String {
        let sp = if sp.from_expansion() { sp.source_callsite() } else { sp };
        let sm = self.tcx.sess.source_map();
        let lo = sm.lookup_char_pos(sp.lo());
        let hi = sm.lookup_char_pos(sp.hi());
        format!("[{},{},{},{}]", lo.line, lo.col.0, hi.line, hi.col.0)
    }
    fn file_line(&self, sp: Span) -> (String, usize) {
        let sp = if sp.from_expansion() { sp.source_callsite() } else { sp };
        let sm = self.tcx.sess.source_map();
        let lo = sm.lookup_char_pos(sp.lo());
        let name = format!("{}", lo.file.name.prefer_local_unconditionally());
        (name, lo.line)
    }

    // ---------------------------------------------------------------- MIR
    fn place(&self, body: &mir::Body<'tcx>, p: &Place<'tcx>) -> String {
        let mut s = format!("{}", p.local.as_usize());
        for (base, elem) in p.iter_projections() {
            s.push('|');
            match elem {
                ProjectionElem::Deref => s.push('*'),
                ProjectionElem::Field(f, _) => {
                    let bt = base.ty(body, self.tcx);
                    match bt.ty.kind() {
                        ty::Adt(adt, _) => {
                            let vidx = bt.variant_index.unwrap_or(rustc_abi::FIRST_VARIANT);
                            let v = adt.variant(vidx);
                            let fname = v.fields[f].name.to_string();
                            let _ = write!(s, "f:{}:{}", fname, self.path(adt.did()));
                        }
                        ty::Closure(..) | ty::Coroutine(..) | ty::CoroutineClosure(..) => {
                            let _ = write!(s, "f:{}:{{closure}}", f.as_usize());
                        }
                        _ => {
                            let _ = write!(s, "f:{}:()", f.as_usize());
                        }
                    }
                }
                ProjectionElem::Downcast(name, vidx) => {
                    let bt = base.ty(body, self.tcx);
                    let n = match bt.ty.kind() {
                        ty::Adt(adt, _) if adt.is_enum() => adt.variant(vidx).name.to_string(),
                        _ => name.map(|n| n.to_string()).unwrap_or_else(|| format!("{}", vidx.as_usize())),
                    };
                    let _ = write!(s, "v:{}", n);
                }
                ProjectionElem::Index(l) => {
                    let _ = write!(s, "[{}]", l.as_usize());
                }
                ProjectionElem::ConstantIndex { offset, from_end, .. } => {
                    let _ = write!(s, "[k{}{}]", if from_end { "-" } else { "" }, offset);
                }
                ProjectionElem::Subslice { .. } => s.push_str("[..]"),
                ProjectionElem::OpaqueCast(_) => s.push_str("oc"),
                ProjectionElem::UnwrapUnsafeBinder(_) => s.push_str("ub"),
            }
        }
        s
    }

    fn konst(&self, owner: LocalDefId, c: &mir::ConstOperand<'tcx>) -> String {
        let ty = c.const_.ty();
        match ty.kind() {
            ty::FnDef(did, args) => {
                let (rp, self_ty) = self.resolve(owner, *did, args);
                return format!(
                    "{{\"fn\":{},\"res\":{},\"self\":{}}}",
                    js(&self.path(*did)),
                    js(&rp),
                    js(&self_ty)
                );
            }
            _ => {}
        }
        let static_did = match c.const_ {
            mir::Const::Val(mir::ConstValue::Scalar(rustc_middle::mir::interpret::Scalar::Ptr(ptr, _)), _) => {
                match self.tcx.try_get_global_alloc(ptr.provenance.alloc_id()) {
                    Some(rustc_middle::mir::interpret::GlobalAlloc::Static(d)) => Some(d),
                    _ => None,
                }
            }
            _ => None,
        };
        if let Some(sdid) = static_did {
            return format!("{{\"static\":{},\"ty\":{}}}", js(&self.path(sdid)), js(&self.tys(ty)));
        }
        let tenv = TypingEnv::post_analysis(self.tcx, owner);
        let tys = self.tys(ty);
        if ty.is_integral() || ty.is_bool() || ty.is_char() {
            if let Some(si) = c.const_.try_eval_scalar_int(self.tcx, tenv) {
                if ty.is_bool() {
                    return format!("{{\"v\":{},\"ty\":\"bool\"}}", if si.to_bits_unchecked() != 0 { "true" } else { "false" });
                }
                if ty.is_char() {
                    let ch = char::from_u32(si.to_bits_unchecked() as u32).unwrap_or('\u{fffd}');
                    return format!("{{\"v\":{},\"ty\":\"char\"}}", js(&ch.to_string()));
                }
                let size = si.size();
                let v: i128 = if ty.is_signed() { si.to_int(size) } else { si.to_uint(size) as i128 };
                // JSON numbers: keep as string when outside i64 to be safe
                if v >= i64::MIN as i128 && v <= i64::MAX as i128 {
                    return format!("{{\"v\":{},\"ty\":{}}}", v, js(&tys));
                }
                return format!("{{\"v\":{},\"ty\":{}}}", js(&v.to_string()), js(&tys));
            }
        }
        // everything else: pretty form (strings print as "const \"abc\"")
        let pretty = trunc(with_no_trimmed_paths!(format!("{}", c.const_)), 200);
        format!("{{\"p\":{},\"ty\":{}}}", js(&pretty), js(&tys))
    }

    fn resolve(&self, owner: LocalDefId, did: DefId, args: ty::GenericArgsRef<'tcx>) -> (String, String) {
        let tcx = self.tcx;
        let mut self_ty = String::new();
        if let Some(assoc) = tcx.opt_associated_item(did) {
            let container = assoc.container_id(tcx);
            if matches!(tcx.def_kind(container), DefKind::Trait) {
                if let Some(t) = args.types().next() {
                    self_ty = self.tys(t);
                }
            } else if matches!(tcx.def_kind(container), DefKind::Impl { .. }) {
                let t = tcx.type_of(container).instantiate_identity().skip_norm_wip();
                self_ty = self.tys(t);
            }
        }
        let tenv = TypingEnv::post_analysis(tcx, owner);
        let has_params = args.iter().any(|a| {
            use rustc_middle::ty::TypeVisitableExt;
            a.has_param() || a.has_infer() || a.has_aliases()
        });
        let _ = has_params;
        let rp = match std::panic::catch_unwind(std::panic::AssertUnwindSafe(|| Instance::try_resolve(tcx, tenv, did, args))) {
            Ok(Ok(Some(inst))) => self.path(inst.def_id()),
            _ => String::new(),
        };
        (rp, self_ty)
    }

    fn operand(&self, owner: LocalDefId, body: &mir::Body<'tcx>, o: &Operand<'tcx>) -> String {
        match o {
            Operand::Copy(p) => js(&format!("c:{}", self.place(body, p))),
            Operand::Move(p) => js(&format!("m:{}", self.place(body, p))),
            Operand::Constant(c) => self.konst(owner, c),
            #[allow(unreachable_patterns)]
            _ => js("?"),
        }
    }

    fn rvalue(&self, owner: LocalDefId, body: &mir::Body<'tcx>, rv: &Rvalue<'tcx>) -> String {
        match rv {
            Rvalue::Use(o, ..) => format!("[\"use\",{}]", self.operand(owner, body, o)),
            Rvalue::Repeat(o, _) => format!("[\"repeat\",{}]", self.operand(owner, body, o)),
            Rvalue::Ref(_, bk, p) => {
                let m = match bk {
                    mir::BorrowKind::Mut { .. } => "mut",
                    mir::BorrowKind::Shared => "shr",
                    _ => "fake",
                };
                format!("[\"ref\",\"{}\",{}]", m, js(&self.place(body, p)))
            }
            Rvalue::RawPtr(k, p) => format!("[\"raw\",{},{}]", js(&format!("{:?}", k)), js(&self.place(body, p))),
            Rvalue::Cast(kind, o, t) => {
                let from = o.ty(body, self.tcx);
                format!(
                    "[\"cast\",{},{},{},{}]",
                    js(&trunc(format!("{:?}", kind), 60)),
                    self.operand(owner, body, o),
                    js(&self.tys(from)),
                    js(&self.tys(*t))
                )
            }
            Rvalue::BinaryOp(op, box (a, b)) => {
                let at = a.ty(body, self.tcx);
                format!(
                    "[\"bin\",{},{},{},{}]",
                    js(&format!("{:?}", op)),
                    self.operand(owner, body, a),
                    self.operand(owner, body, b),
                    js(&self.tys(at))
                )
            }
            Rvalue::UnaryOp(op, a) => {
                format!("[\"un\",{},{}]", js(&format!("{:?}", op)), self.operand(owner, body, a))
            }
            Rvalue::Discriminant(p) => {
                let t = p.ty(body, self.tcx).ty;
                let (adt, vars) = match t.kind() {
                    ty::Adt(a, _) if a.is_enum() => {
                        let vs: Vec<String> = a
                            .discriminants(self.tcx)
                            .map(|(vi, d)| format!("[{},{}]", js(&d.val.to_string()), js(&a.variant(vi).name.to_string())))
                            .collect();
                        (self.path(a.did()), vs.join(","))
                    }
                    ty::Adt(a, _) => (self.path(a.did()), String::new()),
                    _ => (self.tys(t), String::new()),
                };
                format!("[\"discr\",{},{},[{}]]", js(&self.place(body, p)), js(&adt), vars)
            }
            Rvalue::Aggregate(box kind, ops) => {
                let opl: Vec<String> = ops.iter().map(|o| self.operand(owner, body, o)).collect();
                let (kname, names): (String, Vec<String>) = match kind {
                    mir::AggregateKind::Adt(did, vidx, _, _, active) => {
                        let adt = self.tcx.adt_def(*did);
                        let v = adt.variant(*vidx);
                        let kn = if adt.is_enum() {
                            format!("adt:{}::{}", self.path(*did), v.name)
                        } else {
                            format!("adt:{}", self.path(*did))
                        };
                        let names = if let Some(a) = active {
                            vec![v.fields[*a].name.to_string()]
                        } else {
                            v.fields.iter().map(|f| f.name.to_string()).collect()
                        };
                        (kn, names)
                    }
                    mir::AggregateKind::Closure(did, _) => (format!("closure:{}", self.path(*did)), vec![]),
                    mir::AggregateKind::Coroutine(did, _) => (format!("closure:{}", self.path(*did)), vec![]),
                    mir::AggregateKind::CoroutineClosure(did, _) => (format!("closure:{}", self.path(*did)), vec![]),
                    mir::AggregateKind::Tuple => ("tuple".to_string(), vec![]),
                    mir::AggregateKind::Array(_) => ("array".to_string(), vec![]),
                    mir::AggregateKind::RawPtr(..) => ("rawptr".to_string(), vec![]),
                };
                let nl: Vec<String> = names.iter().map(|n| js(n)).collect();
                format!("[\"agg\",{},[{}],[{}]]", js(&kname), opl.join(","), nl.join(","))
            }
            Rvalue::CopyForDeref(p) => format!("[\"use\",{}]", js(&format!("c:{}", self.place(body, p)))),
            other => format!("[\"other\",{}]", js(&trunc(format!("{:?}", other), 80))),
        }
    }

    fn mir_body(&mut self, owner: LocalDefId, body: &mir::Body<'tcx>, crate_tag: &str) {
        let tcx = self.tcx;
        let did = owner.to_def_id();
        let dk = tcx.def_kind(did);
        let (file, line) = self.file_line(body.span);
        let path = self.path(did);
        let kind = match dk {
            DefKind::Fn => "fn",
            DefKind::AssocFn => "method",
            DefKind::Closure => {
                if tcx.is_coroutine(did) {
                    "coroutine"
                } else {
                    "closure"
                }
            }
            DefKind::Const { .. } | DefKind::AssocConst { .. } => "const",
            DefKind::Static { .. } => "static",
            DefKind::AnonConst | DefKind::InlineConst => "anonconst",
            _ => "other",
        };
        let parent = if matches!(dk, DefKind::Closure | DefKind::InlineConst | DefKind::AnonConst) {
            let p = tcx.typeck_root_def_id(did);
            self.path(p)
        } else {
            String::new()
        };
        // immediate lexical parent for closures
        let lex_parent = if matches!(dk, DefKind::Closure) { self.path(tcx.parent(did)) } else { String::new() };
        let (mut impl_trait, mut self_ty) = (String::new(), String::new());
        let root = tcx.typeck_root_def_id(did);
        if let Some(assoc) = tcx.opt_associated_item(root) {
            let container = assoc.container_id(tcx);
            if let DefKind::Impl { of_trait } = tcx.def_kind(container) {
                let t = tcx.type_of(container).instantiate_identity().skip_norm_wip();
                self_ty = match t.kind() {
                    ty::Adt(a, _) => self.path(a.did()),
                    _ => self.tys(t),
                };
                if of_trait {
                    let tr = tcx.impl_trait_ref(container).instantiate_identity().skip_norm_wip();
                    impl_trait = self.path(tr.def_id);
                }
            } else if matches!(tcx.def_kind(container), DefKind::Trait) {
                impl_trait = format!("trait-default:{}", self.path(container));
            }
        }
        let vis = if matches!(dk, DefKind::Fn | DefKind::AssocFn) {
            let v = tcx.visibility(did);
            if v.is_public() {
                "pub".to_string()
            } else {
                match v {
                    ty::Visibility::Restricted(m) => format!("in:{}", self.path(m)),
                    _ => "pub".to_string(),
                }
            }
        } else {
            String::new()
        };
        let fnname = match dk {
            DefKind::Fn | DefKind::AssocFn => tcx.item_name(did).to_string(),
            _ => String::new(),
        };

        let mut o = String::new();
        let _ = write!(
            o,
            "{{\"k\":\"body\",\"crate\":{},\"path\":{},\"name\":{},\"kind\":\"{}\",\"file\":{},\"line\":{},\"span\":{},\"root\":{},\"lexparent\":{},\"impl_trait\":{},\"self_ty\":{},\"vis\":{},\"nargs\":{},",
            js(crate_tag),
            js(&path),
            js(&fnname),
            kind,
            js(&file),
            line,
            self.span4(body.span),
            js(&parent),
            js(&lex_parent),
            js(&impl_trait),
            js(&self_ty),
            js(&vis),
            body.arg_count
        );
        // locals
        let mut names: Vec<Option<String>> = vec![None; body.local_decls.len()];
        let mut vdi = Vec::new();
        for v in &body.var_debug_info {
            if let mir::VarDebugInfoContents::Place(p) = &v.value {
                if p.projection.is_empty() {
                    names[p.local.as_usize()] = Some(v.name.to_string());
                } else {
                    vdi.push(format!("[{},{}]", js(&v.name.to_string()), js(&self.place(body, p))));
                }
            }
        }
        o.push_str("\"locals\":[");
        for (i, ld) in body.local_decls.iter().enumerate() {
            if i > 0 {
                o.push(',');
            }
            let n = match &names[i] {
                Some(n) => js(n),
                None => "null".to_string(),
            };
            let _ = write!(o, "[{},{}]", js(&self.tys(ld.ty)), n);
        }
        let _ = write!(o, "],\"vdi\":[{}],\"blocks\":[", vdi.join(","));
        for (bi, bb) in body.basic_blocks.iter().enumerate() {
            if bi > 0 {
                o.push(',');
            }
            o.push_str("{\"s\":[");
            let mut first = true;
            for st in &bb.statements {
                let s = match &st.kind {
                    StatementKind::Assign(box (p, rv)) => {
                        format!("[{},{},{}]", js(&self.place(body, p)), self.rvalue(owner, body, rv), self.file_line(st.source_info.span).1)
                    }
                    StatementKind::SetDiscriminant { place, variant_index } => {
                        format!("[{},[\"setdiscr\",{}],0]", js(&self.place(body, place)), variant_index.as_usize())
                    }
                    _ => continue,
                };
                if !first {
                    o.push(',');
                }
                first = false;
                o.push_str(&s);
            }
            o.push_str("],\"c\":");
            o.push_str(if bb.is_cleanup { "1" } else { "0" });
            o.push_str(",\"t\":");
            let term = bb.terminator();
            let t = match &term.kind {
                TerminatorKind::Goto { target } => format!("[\"goto\",{}]", target.as_usize()),
                TerminatorKind::SwitchInt { discr, targets } => {
                    let mut tl = Vec::new();
                    for (v, t) in targets.iter() {
                        // v is u128; print as i64 when it fits else string
                        if v <= i64::MAX as u128 {
                            tl.push(format!("[{},{}]", v, t.as_usize()));
                        } else {
                            tl.push(format!("[{},{}]", js(&v.to_string()), t.as_usize()));
                        }
                    }
                    let dty = discr.ty(body, tcx);
                    format!(
                        "[\"switch\",{},[{}],{},{}]",
                        self.operand(owner, body, discr),
                        tl.join(","),
                        targets.otherwise().as_usize(),
                        js(&self.tys(dty))
                    )
                }
                TerminatorKind::Return => "[\"ret\"]".to_string(),
                TerminatorKind::Unreachable => "[\"unreachable\"]".to_string(),
                TerminatorKind::UnwindResume | TerminatorKind::UnwindTerminate(_) => "[\"resume\"]".to_string(),
                TerminatorKind::Drop { place, target, .. } => {
                    format!("[\"drop\",{},{}]", js(&self.place(body, place)), target.as_usize())
                }
                TerminatorKind::Call { func, args, destination, target, fn_span, .. } => {
                    let f = match func {
                        Operand::Constant(c) => self.konst(owner, c),
                        Operand::Copy(p) | Operand::Move(p) => {
                            let t = p.ty(body, tcx).ty;
                            format!("{{\"ptr\":{},\"ty\":{}}}", js(&self.place(body, p)), js(&self.tys(t)))
                        }
                        #[allow(unreachable_patterns)]
                        _ => "{\"ptr\":\"?\"}".to_string(),
                    };
                    let al: Vec<String> = args.iter().map(|a| self.operand(owner, body, &a.node)).collect();
                    let aty: Vec<String> = args.iter().map(|a| js(&trunc(self.tys(a.node.ty(body, tcx)), 120))).collect();
                    let tgt = match target {
                        Some(t) => format!("{}", t.as_usize()),
                        None => "null".to_string(),
                    };
                    format!(
                        "[\"call\",{},[{}],{},{},{},{},[{}]]",
                        f,
                        al.join(","),
                        js(&self.place(body, destination)),
                        tgt,
                        self.span4(term.source_info.span),
                        self.span4(*fn_span),
                        aty.join(",")
                    )
                }
                TerminatorKind::Assert { cond, expected, target, msg, .. } => {
                    let mk = trunc(format!("{:?}", msg), 40);
                    let mk = mk.split('(').next().unwrap_or("").trim().to_string();
                    format!(
                        "[\"assert\",{},{},{},{}]",
                        self.operand(owner, body, cond),
                        if *expected { "true" } else { "false" },
                        target.as_usize(),
                        js(&mk)
                    )
                }
                TerminatorKind::Yield { value, resume, .. } => {
                    format!("[\"yield\",{},{}]", self.operand(owner, body, value), resume.as_usize())
                }
                TerminatorKind::FalseEdge { real_target, .. } => format!("[\"goto\",{}]", real_target.as_usize()),
                TerminatorKind::FalseUnwind { real_target, .. } => format!("[\"goto\",{}]", real_target.as_usize()),
                TerminatorKind::CoroutineDrop => "[\"resume\"]".to_string(),
                TerminatorKind::TailCall { .. } => "[\"ret\"]".to_string(),
                TerminatorKind::InlineAsm { .. } => "[\"unreachable\"]".to_string(),
            };
            o.push_str(&t);
            let _ = write!(o, ",\"l\":{}}}", self.file_line(term.source_info.span).1);
        }
        o.push_str("],");
        // HIR part
        let mut hv = HirV { cx: self, typeck: tcx.typeck(owner), matches: Vec::new(), lits: Vec::new(), ctx: Vec::new(), owner };
        if let Some(hbody) = tcx.hir_maybe_body_owned_by(owner) {
            hv.visit_expr(hbody.value);
        }
        let (m, l) = (hv.matches, hv.lits);
        let _ = write!(o, "\"matches\":[{}],\"lits\":[{}]}}\n", m.join(","), l.join(","));
        self.out.push_str(&o);
    }
}

// -------------------------------------------------------------------- HIR visitor
struct HirV<'a, 'tcx> {
    cx: &'a Cx<'tcx>,
    typeck: &'tcx ty::TypeckResults<'tcx>,
    matches: Vec<String>,
    lits: Vec<String>,
    ctx: Vec<String>, // role of the expression being visited next
    owner: LocalDefId,
}

impl<'a, 'tcx> HirV<'a, 'tcx> {
    fn res_path(&self, qpath: &hir::QPath<'tcx>, id: hir::HirId) -> String {
        match self.typeck.qpath_res(qpath, id) {
            Res::Def(kind, did) => {
                // constructor -> variant/struct
                let did = match kind {
                    DefKind::Ctor(..) => self.cx.tcx.parent(did),
                    _ => did,
                };
                self.cx.path(did)
            }
            Res::Local(_) => "$local".to_string(),
            Res::SelfCtor(_) | Res::SelfTyAlias { .. } | Res::SelfTyParam { .. } => "Self".to_string(),
            _ => "?".to_string(),
        }
    }

    fn pat_str(&self, p: &hir::Pat<'tcx>) -> String {
        use hir::PatKind::*;
        match &p.kind {
            Wild => "_".to_string(),
            Binding(_, _, ident, sub) => match sub {
                Some(s) => format!("${}@{}", ident.name, self.pat_str(s)),
                None => format!("${}", ident.name),
            },
            Struct(qp, fields, _) => {
                let fs: Vec<String> = fields.iter().map(|f| format!("{}:{}", f.ident.name, self.pat_str(f.pat))).collect();
                format!("{}{{{}}}", self.res_path(qp, p.hir_id), fs.join(","))
            }
            TupleStruct(qp, pats, _) => {
                let fs: Vec<String> = pats.iter().map(|f| self.pat_str(f)).collect();
                format!("{}({})", self.res_path(qp, p.hir_id), fs.join(","))
            }
            Or(pats) => {
                let fs: Vec<String> = pats.iter().map(|f| self.pat_str(f)).collect();
                fs.join(" | ")
            }
            Tuple(pats, _) => {
                let fs: Vec<String> = pats.iter().map(|f| self.pat_str(f)).collect();
                format!("({})", fs.join(","))
            }
            Box(s) | Deref(s) | Ref(s, ..) => self.pat_str(s),
            Expr(e) => match &e.kind {
                hir::PatExprKind::Lit { lit, negated } => {
                    format!("#{}{}", if *negated { "-" } else { "" }, lit_str(&lit.node))
                }
                hir::PatExprKind::Path(qp) => self.res_path(qp, e.hir_id),
                #[allow(unreachable_patterns)]
                _ => "#?".to_string(),
            },
            Range(..) => "#range".to_string(),
            Slice(a, m, b) => {
                let mut fs: Vec<String> = a.iter().map(|f| self.pat_str(f)).collect();
                if m.is_some() {
                    fs.push("..".to_string());
                }
                fs.extend(b.iter().map(|f| self.pat_str(f)));
                format!("[{}]", fs.join(","))
            }
            _ => "?".to_string(),
        }
    }

    fn peel<'h>(&self, mut e: &'h hir::Expr<'tcx>) -> &'h hir::Expr<'tcx> {
        loop {
            match &e.kind {
                hir::ExprKind::Block(b, _) => {
                    if b.stmts.is_empty() {
                        if let Some(t) = b.expr {
                            e = t;
                            continue;
                        }
                    } else if let Some(t) = b.expr {
                        // keep tail for class purposes
                        e = t;
                        continue;
                    }
                    return e;
                }
                hir::ExprKind::DropTemps(i) => {
                    e = i;
                }
                _ => return e,
            }
        }
    }

    fn class(&self, e: &hir::Expr<'tcx>, depth: usize) -> String {
        let e = self.peel(e);
        if depth > 3 {
            return "other".to_string();
        }
        match &e.kind {
            hir::ExprKind::Ret(Some(v)) => format!("ret:{}", self.class(v, depth + 1)),
            hir::ExprKind::Ret(None) => "ret:()".to_string(),
            hir::ExprKind::Continue(_) => "continue".to_string(),
            hir::ExprKind::Break(..) => "break".to_string(),
            hir::ExprKind::Lit(l) => format!("lit:{}", lit_str(&l.node)),
            hir::ExprKind::Path(qp) => {
                let r = self.res_path(qp, e.hir_id);
                if r.ends_with("::None") {
                    return "None".to_string();
                }
                format!("path:{}", r)
            }
            hir::ExprKind::Call(f, args) => {
                if let hir::ExprKind::Path(qp) = &f.kind {
                    let r = self.res_path(qp, f.hir_id);
                    if r.ends_with("Result::Err") || r.ends_with("::Err") {
                        return "Err".to_string();
                    }
                    if r.ends_with("Result::Ok") || r.ends_with("Option::Some") || r.ends_with("::Ok") || r.ends_with("::Some") {
                        let inner = args.get(0).map(|a| self.class(a, depth + 1)).unwrap_or_default();
                        let w = if r.ends_with("Ok") { "Ok" } else { "Some" };
                        return format!("{}({})", w, inner);
                    }
                    if r.contains("panicking::") || r.contains("rt::begin_panic") || r.contains("unreachable_display") {
                        return "panic".to_string();
                    }
                    return format!("call:{}", r);
                }
                "other".to_string()
            }
            hir::ExprKind::MethodCall(seg, ..) => {
                let d = self.typeck.type_dependent_def_id(e.hir_id).map(|d| self.cx.path(d)).unwrap_or_default();
                format!("mcall:{}:{}", seg.ident.name, d)
            }
            hir::ExprKind::Struct(qp, ..) => format!("struct:{}", self.res_path(qp, e.hir_id)),
            hir::ExprKind::Tup(es) if es.is_empty() => "()".to_string(),
            hir::ExprKind::Block(b, _) if b.expr.is_none() => {
                // block ending in a statement: look at last stmt for diverging exprs
                if let Some(last) = b.stmts.last() {
                    if let hir::StmtKind::Semi(x) | hir::StmtKind::Expr(x) = last.kind {
                        let c = self.class(x, depth + 1);
                        if c.starts_with("ret:") || c == "continue" || c == "break" || c == "panic" {
                            return c;
                        }
                    }
                }
                "()".to_string()
            }
            hir::ExprKind::Match(..) => "match".to_string(),
            hir::ExprKind::If(..) => "if".to_string(),
            _ => {
                let t = self.typeck.expr_ty(e);
                if t.is_never() {
                    "panic".to_string()
                } else {
                    "other".to_string()
                }
            }
        }
    }

    fn push_lit(&mut self, l: &rustc_ast::LitKind, sp: Span, role: &str) {
        let v = lit_str(l);
        self.lits.push(format!("[{},{},{}]", js(&trunc(v, 200)), js(role), self.cx.span4(sp)));
    }
}

fn lit_str(l: &rustc_ast::LitKind) -> String {
    use rustc_ast::LitKind::*;
    match l {
        Str(s, _) => format!("s:{}", s),
        ByteStr(b, _) => format!("bs:{}", String::from_utf8_lossy(b.as_byte_str())),
        CStr(b, _) => format!("cs:{}", String::from_utf8_lossy(b.as_byte_str())),
        Byte(b) => format!("b:{}", b),
        Char(c) => format!("c:{}", c),
        Int(i, _) => format!("i:{}", i.get()),
        Float(s, _) => format!("f:{}", s),
        Bool(b) => format!("t:{}", b),
        Err(_) => "err".to_string(),
    }
}

impl<'a, 'tcx> Visitor<'tcx> for HirV<'a, 'tcx> {
    fn visit_expr(&mut self, e: &'tcx hir::Expr<'tcx>) {
        match &e.kind {
            hir::ExprKind::Closure(_) => {
                // closures are separate body owners; do not descend (their own body will be visited)
                return;
            }
            hir::ExprKind::Match(scrut, arms, src) => {
                let st = self.typeck.expr_ty_adjusted(scrut);
                let st = st.peel_refs();
                let sname = match st.kind() {
                    ty::Adt(a, _) => self.cx.path(a.did()),
                    _ => self.cx.tys(st),
                };
                let srcs = match src {
                    hir::MatchSource::Normal => "match",
                    hir::MatchSource::Postfix => "match",
                    hir::MatchSource::ForLoopDesugar => "for",
                    hir::MatchSource::TryDesugar(_) => "try",
                    hir::MatchSource::AwaitDesugar => "await",
                    hir::MatchSource::FormatArgs => "fmt",
                };
                if srcs == "match" {
                    let mut al = Vec::new();
                    for arm in arms.iter() {
                        let ps = self.pat_str(arm.pat);
                        al.push(format!(
                            "{{\"pat\":{},\"guard\":{},\"span\":{},\"cls\":{}}}",
                            js(&trunc(ps, 400)),
                            if arm.guard.is_some() { "true" } else { "false" },
                            self.cx.span4(arm.body.span),
                            js(&trunc(self.class(arm.body, 0), 200))
                        ));
                    }
                    self.matches.push(format!(
                        "{{\"kind\":\"match\",\"scrut\":{},\"span\":{},\"sspan\":{},\"arms\":[{}]}}",
                        js(&sname),
                        self.cx.span4(e.span),
                        self.cx.span4(scrut.span),
                        al.join(",")
                    ));
                }
            }
            hir::ExprKind::If(cond, then, els) => {
                // record `if let` shapes
                if let hir::ExprKind::Let(l) = &cond.kind {
                    let st = self.typeck.expr_ty_adjusted(l.init).peel_refs();
                    let sname = match st.kind() {
                        ty::Adt(a, _) => self.cx.path(a.did()),
                        _ => self.cx.tys(st),
                    };
                    let ps = self.pat_str(l.pat);
                    let ec = match els {
                        Some(x) => format!("{{\"span\":{},\"cls\":{}}}", self.cx.span4(x.span), js(&trunc(self.class(x, 0), 200))),
                        None => "null".to_string(),
                    };
                    self.matches.push(format!(
                        "{{\"kind\":\"iflet\",\"scrut\":{},\"span\":{},\"sspan\":{},\"arms\":[{{\"pat\":{},\"guard\":false,\"span\":{},\"cls\":{}}}],\"else\":{}}}",
                        js(&sname),
                        self.cx.span4(e.span),
                        self.cx.span4(l.init.span),
                        js(&trunc(ps, 400)),
                        self.cx.span4(then.span),
                        js(&trunc(self.class(then, 0), 200)),
                        ec
                    ));
                }
            }
            hir::ExprKind::Lit(l) => {
                let role = self.ctx.last().cloned().unwrap_or_default();
                self.push_lit(&l.node, e.span, &role);
            }
            _ => {}
        }
        // roles for children
        match &e.kind {
            hir::ExprKind::Call(f, args) => {
                let callee = if let hir::ExprKind::Path(qp) = &f.kind { self.res_path(qp, f.hir_id) } else { String::new() };
                self.visit_expr(f);
                for (i, a) in args.iter().enumerate() {
                    self.ctx.push(format!("arg:{}:{}", i, callee));
                    self.visit_expr(a);
                    self.ctx.pop();
                }
                return;
            }
            hir::ExprKind::MethodCall(seg, recv, args, _) => {
                let callee = self.typeck.type_dependent_def_id(e.hir_id).map(|d| self.cx.path(d)).unwrap_or_else(|| seg.ident.name.to_string());
                self.ctx.push(format!("arg:0:{}", callee));
                self.visit_expr(recv);
                self.ctx.pop();
                for (i, a) in args.iter().enumerate() {
                    self.ctx.push(format!("arg:{}:{}", i + 1, callee));
                    self.visit_expr(a);
                    self.ctx.pop();
                }
                return;
            }
            hir::ExprKind::Binary(op, a, b) => {
                let r = format!("bin:{}", op.node.as_str());
                self.ctx.push(r.clone());
                self.visit_expr(a);
                self.visit_expr(b);
                self.ctx.pop();
                return;
            }
            hir::ExprKind::Unary(..) | hir::ExprKind::Cast(..) | hir::ExprKind::AddrOf(..) | hir::ExprKind::DropTemps(..) => {
                // transparent for role purposes
                intravisit::walk_expr(self, e);
                return;
            }
            _ => {}
        }
        self.ctx.push(String::new());
        intravisit::walk_expr(self, e);
        self.ctx.pop();
    }

    fn visit_pat(&mut self, p: &'tcx hir::Pat<'tcx>) {
        if let hir::PatKind::Expr(pe) = &p.kind {
            if let hir::PatExprKind::Lit { lit, .. } = &pe.kind {
                self.push_lit(&lit.node, pe.span, "pat");
            }
        }
        intravisit::walk_pat(self, p);
    }
}

// -------------------------------------------------------------------- item facts
fn item_facts<'tcx>(cx: &mut Cx<'tcx>, crate_tag: &str) {
    let tcx = cx.tcx;
    let items = tcx.hir_crate_items(());
    for ld in items.definitions() {
        let did = ld.to_def_id();
        match tcx.def_kind(did) {
            DefKind::Struct | DefKind::Enum => {
                let adt = tcx.adt_def(did);
                let mut vs = Vec::new();
                for v in adt.variants() {
                    let mut fs = Vec::new();
                    for f in &v.fields {
                        let ft = tcx.type_of(f.did).instantiate_identity().skip_norm_wip();
                        let vis = if f.vis.is_public() { "pub" } else { "priv" };
                        fs.push(format!("[{},{},\"{}\"]", js(&f.name.to_string()), js(&cx.tys(ft)), vis));
                    }
                    vs.push(format!("{{\"name\":{},\"fields\":[{}]}}", js(&v.name.to_string()), fs.join(",")));
                }
                let (file, line) = cx.file_line(tcx.def_span(did));
                let vis = if tcx.visibility(did).is_public() { "pub" } else { "restricted" };
                let _ = write!(
                    cx.out,
                    "{{\"k\":\"adt\",\"crate\":{},\"path\":{},\"enum\":{},\"vis\":\"{}\",\"file\":{},\"line\":{},\"variants\":[{}]}}\n",
                    js(crate_tag),
                    js(&cx.path(did)),
                    if adt.is_enum() { "true" } else { "false" },
                    vis,
                    js(&file),
                    line,
                    vs.join(",")
                );
            }
            DefKind::Impl { of_trait } => {
                let t = tcx.type_of(did).instantiate_identity().skip_norm_wip();
                let self_ty = match t.kind() {
                    ty::Adt(a, _) => cx.path(a.did()),
                    _ => cx.tys(t),
                };
                let tr = if of_trait {
                    let tr = tcx.impl_trait_ref(did).instantiate_identity().skip_norm_wip();
                    cx.path(tr.def_id)
                } else {
                    String::new()
                };
                let mut ms = Vec::new();
                for ai in tcx.associated_items(did).in_definition_order() {
                    if matches!(ai.kind, ty::AssocKind::Fn { .. }) {
                        ms.push(format!("[{},{}]", js(&ai.name().to_string()), js(&cx.path(ai.def_id))));
                    }
                }
                let (file, line) = cx.file_line(tcx.def_span(did));
                let _ = write!(
                    cx.out,
                    "{{\"k\":\"impl\",\"crate\":{},\"trait\":{},\"self_ty\":{},\"file\":{},\"line\":{},\"methods\":[{}]}}\n",
                    js(crate_tag),
                    js(&tr),
                    js(&self_ty),
                    js(&file),
                    line,
                    ms.join(",")
                );
            }
            _ => {}
        }
    }
}

struct Cb {
    out_dir: Option<String>,
}

impl rustc_driver::Callbacks for Cb {
    fn after_expansion<'tcx>(&mut self, _c: &Compiler, tcx: TyCtxt<'tcx>) -> Compilation {
        let Some(dir) = self.out_dir.clone() else { return Compilation::Continue };
        let cname = tcx.crate_name(rustc_hir::def_id::LOCAL_CRATE).to_string();
        if cname != "query_engine" && std::env::var("QE_FACTS_ANY").is_err() {
            return Compilation::Continue;
        }
        let ctype = if tcx.crate_types().iter().any(|t| matches!(t, rustc_session_crate_type::Executable)) { "bin" } else { "lib" };
        let mut cx = Cx { tcx, out: String::new() };
        let nonce = std::env::var("QE_FACTS_NONCE").unwrap_or_default();
        let _ = write!(cx.out, "{{\"k\":\"meta\",\"crate\":\"{}\",\"name\":{},\"nonce\":{}}}\n", ctype, js(&cname), js(&nonce));
        item_facts(&mut cx, ctype);
        let owners: Vec<LocalDefId> = tcx.hir_body_owners().collect();
        // Pass 1: clone every built MIR body before any query that could steal it
        // (const evaluation, opaque-type reveal -> borrowck).
        let mut bodies: Vec<(LocalDefId, mir::Body<'tcx>)> = Vec::new();
        let mut stolen = 0usize;
        for pass in 0..2 {
            for &o in &owners {
                let dk = tcx.def_kind(o.to_def_id());
                if matches!(dk, DefKind::AnonConst | DefKind::InlineConst) {
                    continue;
                }
                let fnlike = matches!(dk, DefKind::Fn | DefKind::AssocFn | DefKind::Closure);
                if (pass == 0) != fnlike {
                    continue;
                }
                let steal = tcx.mir_built(o);
                if steal.is_stolen() {
                    stolen += 1;
                    let _ = write!(cx.out, "{{\"k\":\"stolen\",\"path\":{}}}\n", js(&cx.path(o.to_def_id())));
                    continue;
                }
                let b = steal.borrow().clone();
                bodies.push((o, b));
            }
        }
        let _ = stolen;
        for (o, b) in &bodies {
            cx.mir_body(*o, b, ctype);
        }
        let file = format!("{}/{}-{}-{}.jsonl", dir, cname, ctype, std::process::id());
        std::fs::write(&file, cx.out.as_bytes()).expect("qe-facts: cannot write fact file");
        Compilation::Continue
    }
}

use rustc_session::config::CrateType as rustc_session_crate_type;
extern crate rustc_session;

fn main() {
    let mut args: Vec<String> = std::env::args().collect();
    // RUSTC_WORKSPACE_WRAPPER: argv[1] is the path of the real rustc
    if args.len() > 1 && (args[1].ends_with("rustc") || args[1].contains("/rustc")) {
        args.remove(1);
    }
    let out_dir = std::env::var("QE_FACTS_OUT").ok();
    let mut cb = Cb { out_dir };
    rustc_driver::run_compiler(&args, &mut cb);
}
