"""C37 Vector encodings round-trip and SIMD kernels match Arrow — the helper half (validity clauses)."""
from qe import *
import k9
import guards

CLAIMS = ("R1 every arrow_ffi::codec helper that reads value(i) of an input array consults that array's validity in the same function, and a helper that returns an array builds it with a validity (from Option values / a null buffer), because the equivalent Arrow kernels yield NULL where an input is NULL; "
          "R2 filter_simd keeps a selected NULL slot as NULL (Arrow's filter does): it must not drop rows on `is_null`; "
          "R3 binary helpers refuse inputs of different lengths before the element loop; "
          "R4 (encode half) every function of arrow_ffi::array that reads value(i)/values() of an input array - the encoding deciders (is_constant, the RLE/dictionary estimators) and the scalar extractors - consults that array's validity in the same function: the value buffer under a NULL slot is arbitrary, so a decider that reads it alone picks the Constant encoding for a NULL-bearing array and decode() returns an array without the NULLs.")
NOT_DECIDED = "encode/decode round-trip equality of arrow_ffi::array for the values themselves (R4 decides only the validity clause of the deciders); numeric agreement of sums."

C = "arrow_ffi::codec"
VALID = ("is_null", "is_valid", "nulls", "null_count", "logical_nulls", "is_nullable")


def param_of(g, op):
    """which parameter (1-based) an operand derives from"""
    out = set()
    def src(k, x):
        if k == "place":
            l = place_local(x)
            if 1 <= l <= g.raw["nargs"]:
                out.add(l)
        return None
    derives_from(g, [op], src)
    return out


def _captured_params(F, g, c):
    """parameters of g that the receiver of call c (inside a closure of g) derives from, through the closure's captures"""
    cf = c.fn
    caps = set()
    def src(k, x):
        if k == "place" and x.startswith("1|"):
            parts = x.split("|")
            for p_ in parts[1:]:
                if p_.startswith("f:"):
                    caps.add(int(p_.split(":")[1]))
                    break
        return None
    derives_from(cf, [c.args[0]], src)
    out = set()
    # walk up to g through the chain of closure aggregates
    path = cf.path
    cur_caps = caps
    while path != g.path and "::{closure" in path:
        parent = F.fn(path.rsplit("::{closure", 1)[0])
        nxt = set()
        for i, j, dst, rv, line in parent.stmts():
            if rv[0] == "agg" and rv[1] == "closure:" + path:
                for n in cur_caps:
                    if n < len(rv[2]):
                        if parent is g or parent.path == g.path:
                            out |= param_of(parent, rv[2][n])
                        else:
                            def src2(k, x, acc=nxt):
                                if k == "place" and x.startswith("1|"):
                                    for p_ in x.split("|")[1:]:
                                        if p_.startswith("f:"):
                                            acc.add(int(p_.split(":")[1]))
                                            break
                                return None
                            derives_from(parent, [rv[2][n]], src2)
        path = parent.path
        cur_caps = nxt
    return out


def _len_refusal(F, g, blocks):
    """True when every block in `blocks` is controlled by a `len(a) != len(b)` refusal in g, directly or through a
    `?`-propagated helper of this module that contains that refusal"""
    if not blocks:
        return False
    import kerr
    def direct(fn, bb):
        gs = guards.guards_of(fn, bb)
        return any(cd.startswith("Ne(") and cd.count("len(") == 2 and v is False for sb, cd, v in gs)
    helpers = []
    for c in g.calls():
        if c.name in F.bodies and c.name.startswith(C + "::") and g.local_ty(place_local(c.dest)).startswith("std::result::Result<"):
            h = F.fn(c.name)
            oks = ok_value_blocks(h)
            if oks and all(direct(h, r) for r in oks) and "try" in result_consumers(g, c):
                helpers.append(c)
    for bb in blocks:
        if direct(g, bb):
            continue
        if any(g.dominates(h.bb, bb) and h.bb != bb for h in helpers):
            continue
        return False
    return True


def run(F, R):
    R.rule("C37.R1", "K2/K4", "value(i) readers consult validity; array results carry validity")
    R.rule("C37.R2", "K4", "filter keeps selected NULL slots")
    R.rule("C37.R3", "K3", "length refusal before element loops")
    helpers = [g for g in F.in_file("src/arrow_ffi/codec.rs") if F.bodies[g.path]["kind"] == "fn" and F.bodies[g.path]["name"] not in ("detect_cpu_features",)]
    R.floor("C37.R1", "codec helper functions", len(helpers), 10)
    for g in sorted(helpers, key=lambda x: x.path):
        name = F.bodies[g.path]["name"]
        vals = [c for c in F.fam_calls(g.path) if c.name.rsplit("::", 1)[-1] == "value" and "Array" in c.self_ty]
        if not vals:
            continue
        read_params = set()
        for c in vals:
            read_params |= param_of(g, c.args[0]) if c.fn is g else _captured_params(F, g, c)
        valid_params = set()
        for c in F.fam_calls(g.path):
            if c.name.rsplit("::", 1)[-1] in VALID:
                valid_params |= param_of(c.fn, c.args[0]) if c.fn is g else _captured_params(F, g, c)
            elif c.fn is g and c.name in F.bodies and c.name.startswith(C + "::"):
                # a helper of this module that consults the validity of its own parameter(s) (e.g. a null-buffer union)
                h = F.fn(c.name)
                hv = set()
                for hc in F.fam_calls(h.path):
                    if hc.fn is h and hc.name.rsplit("::", 1)[-1] in VALID:
                        hv |= param_of(h, hc.args[0])
                for i, a in enumerate(c.args):
                    if (i + 1) in hv:
                        valid_params |= param_of(g, a)
        # delegation: a helper that only post-processes another helper's output (compare_ne over compare_eq) inherits it
        miss = sorted(read_params - valid_params)
        rt = g.local_ty(0)
        returns_array = "Array" in rt or "ArrayRef" in rt or "dyn arrow" in rt
        builds_valid = True
        if returns_array:
            froms = [c for c in g.calls() if c.name.rsplit("::", 1)[-1] == "from" and c.argtys and c.argtys[0].startswith("std::vec::Vec<")]
            builds_valid = bool(froms) and all(c.argtys[0].startswith("std::vec::Vec<std::option::Option<") for c in froms) or any(c.name.rsplit("::", 1)[-1] in ("new", "try_new", "finish", "with_nulls") and "NullBuffer" in " ".join(c.argtys) for c in g.calls())
            # an array collected from an iterator whose items are Option<_> carries validity
            for c in g.calls():
                if c.name.rsplit("::", 1)[-1] in ("collect", "from_iter") and "Array" in g.local_ty(place_local(c.dest)):
                    o = origin(g, c.args[0])
                    if o[0] == "call" and o[1].name.rsplit("::", 1)[-1] == "map" and len(o[1].args) == 2:
                        co = origin(g, o[1].args[1])
                        if co[0] == "rv" and co[1][0] == "agg" and co[1][1].startswith("closure:") and F.fn(co[1][1][8:]).local_ty(0).startswith("std::option::Option<"):
                            builds_valid = True
        if name == "filter_simd":
            continue
        ok = not miss and (builds_valid or not returns_array)
        what = []
        if miss:
            what.append(f"reads value(i) of parameter(s) {miss} without consulting their validity")
        if returns_array and not builds_valid:
            what.append("builds its result from plain values (no validity): NULL inputs come out as ordinary values where Arrow's kernel yields NULL")
        R.check(ok, "C37.R1", f"{name}:validity", "; ".join(what), g.loc(), dict(value_reads=len(vals), params_read=sorted(read_params), params_validity=sorted(valid_params), result_type=rt[:60]))
    # ---- R4: the encode half (arrow_ffi::array)
    R.rule("C37.R4", "K2", "encoding deciders / scalar extractors that read the value buffer consult validity")
    readers = 0
    for g in sorted(F.in_file("src/arrow_ffi/array.rs"), key=lambda x: x.path):
        if F.bodies[g.path]["kind"] != "fn":
            continue
        vals = [c for c in F.fam_calls(g.path) if c.name.rsplit("::", 1)[-1] in ("value", "values") and "Array" in c.self_ty]
        if not vals:
            continue
        readers += 1
        rp, vp = set(), set()
        for c in vals:
            rp |= param_of(g, c.args[0]) if c.fn is g else _captured_params(F, g, c)
        for c in F.fam_calls(g.path):
            if c.name.rsplit("::", 1)[-1] in VALID:
                vp |= param_of(c.fn, c.args[0]) if c.fn is g else _captured_params(F, g, c)
        miss = sorted(rp - vp)
        name = F.bodies[g.path]["name"]
        R.check(not miss, "C37.R4", f"{name}:validity", f"reads value(i)/values() of parameter(s) {miss} without consulting their validity: the buffer under a NULL slot is arbitrary, so the encoding decision (and the array decode() rebuilds from it) ignores NULLs", g.loc(), dict(value_reads=len(vals), params_read=sorted(rp), params_validity=sorted(vp)))
    R.floor("C37.R4", "functions of arrow_ffi::array reading value buffers", readers, 3)
    # ---- R2
    fs = F.fn(C + "::filter_simd")
    pushes = [c for c in fs.calls() if c.name.endswith("Vec::<T, A>::push")]
    R.floor("C37.R2", "pushes in filter_simd", len(pushes), 3)
    drops = 0
    for c in pushes:
        gs = guards.guards_of(fs, c.bb, require_err=False)
        optional = c.argtys and "Option<" in c.argtys[-1]
        if any("is_null(" in cd for sb, cd, v in gs) and not optional:
            drops += 1
    R.check(drops == 0, "C37.R2", "filter_simd:keeps-selected-nulls", f"{drops} arm(s) of filter_simd skip a SELECTED row when it is NULL (push guarded by !is_null into a Vec of plain values): Arrow's filter keeps it as NULL, so the output is shorter and misaligned", fs.loc(), dict(pushes=len(pushes)))
    # ---- R3
    for name in ("compare_simd", "add_simd", "multiply_simd", "filter_simd"):
        g = F.fn(C + "::" + name)
        lens = [c for c in g.calls() if c.name.rsplit("::", 1)[-1] == "len"]
        work = [c.bb for c in g.calls() if c.name.startswith(C + "::compare_") or c.name.rsplit("::", 1)[-1] == "value"]
        # element reads inside closures (`.then(|| arr.value(i))`, `.map(|i| ..)`): the block that builds the closure
        for i, j, dst, rv, line in g.stmts():
            if rv[0] == "agg" and rv[1].startswith("closure:") and any(c.name.rsplit("::", 1)[-1] == "value" for c in F.fam_calls(rv[1][8:])):
                work.append(i)
        okl = _len_refusal(F, g, sorted(set(work)))
        R.check(okl, "C37.R3", f"{name}:length-refusal", "inputs of different lengths are not refused before the element loop (the shorter one is indexed out of range or silently truncated)", g.loc(), dict(len_calls=len(lens)))
