"""C37 Vector encodings round-trip and SIMD kernels match Arrow — the helper half (validity clauses)."""
from qe import *
import k9
import guards

CLAIMS = ("R1 every arrow_ffi::codec helper that reads value(i) of an input array consults that array's validity in the same function, and a helper that returns an array builds it with a validity (from Option values / a null buffer), because the equivalent Arrow kernels yield NULL where an input is NULL; "
          "R2 filter_simd keeps a selected NULL slot as NULL (Arrow's filter does): it must not drop rows on `is_null`; "
          "R3 binary helpers refuse inputs of different lengths before the element loop.")
NOT_DECIDED = "encode/decode round-trip equality of arrow_ffi::array (values); numeric agreement of sums."

C = "arrow_ffi::codec"
VALID = ("is_null", "is_valid", "nulls", "null_count", "logical_nulls", "is_nullable")


def param_of(g, op):
    """which parameter (1-based) an operand derives from"""
    out = set()
    def src(k, x):
        if k == "place":
            l = place_local(x)
            if 1 <= l <= g.raw["nargs"]:
                out.add(l)
        return None
    derives_from(g, [op], src)
    return out


def run(F, R):
    R.rule("C37.R1", "K2/K4", "value(i) readers consult validity; array results carry validity")
    R.rule("C37.R2", "K4", "filter keeps selected NULL slots")
    R.rule("C37.R3", "K3", "length refusal before element loops")
    helpers = [g for g in F.in_file("src/arrow_ffi/codec.rs") if F.bodies[g.path]["kind"] == "fn" and F.bodies[g.path]["name"] not in ("detect_cpu_features",)]
    R.floor("C37.R1", "codec helper functions", len(helpers), 10)
    for g in sorted(helpers, key=lambda x: x.path):
        name = F.bodies[g.path]["name"]
        vals = [c for c in g.calls() if c.name.rsplit("::", 1)[-1] == "value" and "Array" in c.self_ty]
        if not vals:
            continue
        read_params = set()
        for c in vals:
            read_params |= param_of(g, c.args[0])
        valid_params = set()
        for c in g.calls():
            if c.name.rsplit("::", 1)[-1] in VALID:
                valid_params |= param_of(g, c.args[0])
        # delegation: a helper that only post-processes another helper's output (compare_ne over compare_eq) inherits it
        miss = sorted(read_params - valid_params)
        rt = g.local_ty(0)
        returns_array = "Array" in rt or "ArrayRef" in rt or "dyn arrow" in rt
        builds_valid = True
        if returns_array:
            froms = [c for c in g.calls() if c.name.rsplit("::", 1)[-1] == "from" and c.argtys and c.argtys[0].startswith("std::vec::Vec<")]
            builds_valid = bool(froms) and all(c.argtys[0].startswith("std::vec::Vec<std::option::Option<") for c in froms) or any(c.name.rsplit("::", 1)[-1] in ("new", "try_new", "finish", "with_nulls") and "NullBuffer" in " ".join(c.argtys) for c in g.calls())
        if name == "filter_simd":
            continue
        ok = not miss and (builds_valid or not returns_array)
        what = []
        if miss:
            what.append(f"reads value(i) of parameter(s) {miss} without consulting their validity")
        if returns_array and not builds_valid:
            what.append("builds its result from plain values (no validity): NULL inputs come out as ordinary values where Arrow's kernel yields NULL")
        R.check(ok, "C37.R1", f"{name}:validity", "; ".join(what), g.loc(), dict(value_reads=len(vals), params_read=sorted(read_params), params_validity=sorted(valid_params), result_type=rt[:60]))
    # ---- R2
    fs = F.fn(C + "::filter_simd")
    pushes = [c for c in fs.calls() if c.name.endswith("Vec::<T, A>::push")]
    R.floor("C37.R2", "pushes in filter_simd", len(pushes), 3)
    drops = 0
    for c in pushes:
        gs = guards.guards_of(fs, c.bb, require_err=False)
        optional = c.argtys and "Option<" in c.argtys[-1]
        if any("is_null(" in cd for sb, cd, v in gs) and not optional:
            drops += 1
    R.check(drops == 0, "C37.R2", "filter_simd:keeps-selected-nulls", f"{drops} arm(s) of filter_simd skip a SELECTED row when it is NULL (push guarded by !is_null into a Vec of plain values): Arrow's filter keeps it as NULL, so the output is shorter and misaligned", fs.loc(), dict(pushes=len(pushes)))
    # ---- R3
    for name in ("compare_simd", "add_simd", "multiply_simd", "filter_simd"):
        g = F.fn(C + "::" + name)
        lens = [c for c in g.calls() if c.name.rsplit("::", 1)[-1] == "len"]
        work = [c for c in g.calls() if c.name.startswith(C + "::compare_") or c.name.rsplit("::", 1)[-1] == "value"]
        okl = False
        if work:
            gs = guards.guards_of(g, work[0].bb)
            okl = any(cd.startswith("Ne(") and cd.count("len(") == 2 and v is False for sb, cd, v in gs)
        R.check(okl, "C37.R3", f"{name}:length-refusal", "inputs of different lengths are not refused before the element loop (the shorter one is indexed out of range or silently truncated)", g.loc(), dict(len_calls=len(lens)))
