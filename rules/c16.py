"""C16 Peer HTTP responses are framed or rejected — structural clauses."""
from qe import *
import k9
import guards

CLAIMS = ("R1 the function that builds an HttpResponse from raw bytes compares the body length with a number parsed from the content-length header and refuses (Err) on the short side; "
          "R2 the socket is reached only through request_inner, which is called only from request inside tokio::time::timeout, so every await of the exchange is under the caller's timeout; "
          "R3 in parse_response no slice index or unwrap/expect takes an operand derived from parsed content (only from the position of the header terminator and constants); "
          "R4 in the whole client no number parsed out of the peer's bytes sizes an allocation or an index (Vec::reserve/with_capacity/resize, vec![x; n], slicing) unless it first passes through min/clamp with a constant: a declared length is compared, never trusted.")
NOT_DECIDED = "hang-freedom beyond 'every await is under the timeout'; behaviour of the peer."

H = "distributed::http_client"
RESP = H + "::HttpResponse"


def closure_fams(F, fn, call):
    out = []
    for a in call.args:
        o = origin(fn, a)
        if o[0] == "rv" and o[1][0] == "agg" and o[1][1].startswith("closure:"):
            out += F.family(o[1][1][8:])
    return out


def run(F, R):
    R.rule("C16.R1", "K2/K5", "HttpResponse builder: a comparison of len(body) with a value parsed from the `content-length` header, with an Err edge")
    R.rule("C16.R2", "K1", "TcpStream::connect only in request_inner; request_inner only from request, wrapped by tokio::time::timeout")
    R.rule("C16.R3", "K5 panic surface", "index/unwrap operands in parse_response derive only from the terminator position and constants")
    # a derived Clone copies an already framed response; every other constructor must frame
    builders = [g for g in F.fns_building("adt:" + RESP) if F.bodies[g.path]["impl_trait"] != "std::clone::Clone"]
    R.floor("C16.R1", "functions building HttpResponse", len(builders), 1)
    for f in builders:
        fam = F.family(F.bodies[f.path].get("root") or f.path)
        lits = [l[0] for g in fam for l in g.raw["lits"]]
        has_lit = any(l.lower() == "s:content-length" for l in lits)
        okret = [i for i, j, dst, rv, line in f.stmts() if dst == "0" and rv[0] == "agg" and rv[1] == "adt:std::result::Result::Ok"]
        found = False
        detail = []
        for sb in range(f.n):
            si = f.switch_info(sb)
            if not si or si[0] != "bool" or si[1] is None:
                continue
            o = origin(f, "c:" + si[1])
            if o[0] != "rv" or o[1][0] != "bin" or o[1][1] not in ("Lt", "Gt", "Le", "Ge", "Ne", "Eq"):
                continue
            a, b = o[1][2], o[1][3]
            def is_len(op):
                w = derives_from(f, [op], lambda k, x: x if (k == "call" and x.name.rsplit("::", 1)[-1] == "len") else None, through_calls=False)
                return w
            def is_parsed(op):
                def src(k, x):
                    if k == "call":
                        if x.name.rsplit("::", 1)[-1] == "parse":
                            return x
                        for g in closure_fams(F, f, x):
                            if any(c.name.rsplit("::", 1)[-1] == "parse" for c in g.calls()):
                                return x
                    return None
                return derives_from(f, [op], src)
            la, lb = is_len(a), is_len(b)
            pa, pb = is_parsed(a), is_parsed(b)
            if (la and pb) or (lb and pa):
                lencall = la or lb
                body_ok = "body" in (f.local_name(place_local(op_place(lencall.args[0]) or "0")) or "") or bool(derives_from(f, [lencall.args[0]], lambda k, x: (k == "place" and f.local_name(place_local(x)) == "body") or None))
                edges = list(si[2].items())
                refusal = [v for v, t in edges if guards.refusal_edge(f, t, okret)]
                detail.append(dict(block=sb, op=o[1][1], refusal_edges=[str(v) for v in refusal], body=body_ok))
                if refusal and body_ok and len(refusal) < len(edges):
                    found = True
        R.check(found and has_lit, "C16.R1", f"{f.path}:content-length-checked",
                "Content-Length is never consulted: a body cut short is returned as complete" if not detail else "the body-length comparison has no refusing edge or does not use the content-length header",
                f.loc(), dict(literal_present=has_lit, comparisons=detail))

    # ---- R2
    conn = F.callers_matching(lambda n: n.endswith("TcpStream::connect"))
    conn = [c for c in conn if c.fn.file == "src/distributed/http_client.rs"]
    R.floor("C16.R2", "TcpStream::connect sites in http_client", len(conn), 1)
    for c in conn:
        R.check(c.fn.path.startswith(H + "::request_inner"), "C16.R2", f"connect-in:{c.fn.path}", "socket opened outside request_inner (not under the timeout)", c.fn.loc(c.bb), nontrivial=False)
    ri = F.callers_of(H + "::request_inner")
    R.floor("C16.R2", "callers of request_inner", len(ri), 1)
    for c in ri:
        g = c.fn
        inreq = g.path.startswith(H + "::request::")
        to = [t for t in g.calls() if t.name == "tokio::time::timeout"]
        wrapped = any(derives_from(g, [t.args[1]], lambda k, x: (x is c) if k == "call" else None) for t in to)
        # and the request_inner future is not awaited anywhere else (its only use is the timeout argument)
        uses = uses_of_local(g, place_local(c.dest))
        only = all(u[0] == "call" and u[1].name == "tokio::time::timeout" for u in uses) or wrapped
        R.check(inreq and wrapped and only, "C16.R2", f"request_inner-caller:{g.path}", "request_inner is driven outside tokio::time::timeout", g.loc(c.bb), dict(timeouts=len(to)))
    for nm in ("get", "post_json", "post_text"):
        clo = F.closure_of([H + "::" + nm])
        R.check(H + "::request" in clo and (H + "::request_inner") in clo, "C16.R2", f"{nm}:via-request", f"{nm} does not go through request()", "", nontrivial=False)
        direct = [c for c in F.fam_calls(H + "::" + nm) if c.name == H + "::request_inner"]
        R.check(not direct, "C16.R2", f"{nm}:no-direct-request_inner", f"{nm} calls request_inner directly", "", nontrivial=False)

    # ---- R3
    pr = F.fn(H + "::parse_response")
    fam = F.family(pr.path)
    bad = []
    n_idx = 0
    for g in fam:
        for c in g.calls():
            last = c.name.rsplit("::", 1)[-1]
            if last in ("unwrap", "expect", "unwrap_unchecked", "get_unchecked"):
                bad.append(f"{last}@{g.path}:L{c.line}")
            if last in ("index", "index_mut") and "[u8]" in c.self_ty or (last == "index" and c.argtys and c.argtys[0].startswith("&[u8]")):
                n_idx += 1
                # range operand: all leaves must be constants or the `position` result
                leaves = []
                def src(k, x):
                    if k == "call":
                        if x.name.rsplit("::", 1)[-1] in ("position",):
                            return None
                    return None
                okidx = _only_from(g, c.args[1], allowed_calls=("position", "ok_or_else", "branch", "from_residual"))
                if not okidx:
                    bad.append(f"index-operand@{g.path}:L{c.line}")
    R.floor("C16.R3", "slice index sites in parse_response", n_idx, 2)
    R.check(not bad, "C16.R3", "parse_response:panic-surface", f"operands derived from parsed content reach a panicking construct: {bad}", pr.loc(), dict(index_sites=n_idx))
    peer_sized_allocations(F, R)


def peer_sized_allocations(F, R):
    R.rule("C16.R4", "K5 taint", "parse() results in http_client.rs never reach reserve/with_capacity/resize/from_elem/index without a constant bound")
    SINKS = ("reserve", "reserve_exact", "try_reserve", "with_capacity", "resize", "resize_with", "from_elem", "repeat", "set_len", "split_at", "split_off", "truncate", "index", "index_mut", "get_unchecked", "advance", "take")
    PASSTHRU = ("unwrap", "unwrap_or", "unwrap_or_default", "expect", "ok", "branch", "from_residual", "map", "and_then", "ok_or", "ok_or_else", "copied", "cloned", "into", "from", "try_into", "try_from", "unwrap_or_else", "saturating_sub", "wrapping_sub", "checked_sub", "saturating_add", "checked_add", "wrapping_add", "flatten", "transpose", "filter", "find_map", "next", "last", "max")
    n_src = 0
    found = []
    for g in F.in_file("src/distributed/http_client.rs"):
        if F.bodies[g.path]["kind"] not in ("fn", "method", "closure", "coroutine"):
            continue
        srcs = [c for c in g.calls() if c.name.rsplit("::", 1)[-1] in ("parse", "from_str_radix", "from_str") and c.dest]
        # a helper of this file that returns a parsed number is a source as well
        for c in g.calls():
            if c.name.startswith(H + "::") and c.name in F.bodies and c.dest and any(x.name.rsplit("::", 1)[-1] in ("parse", "from_str_radix") for x in F.fam_calls(c.name)) \
                    and any(t in g.local_ty(place_local(c.dest)) for t in ("usize", "u64", "u32", "i64")):
                srcs.append(c)
        n_src += len(srcs)
        tainted, work = set(), [place_local(c.dest) for c in srcs if "|" not in c.dest]
        while work:
            l = work.pop()
            if l in tainted:
                continue
            tainted.add(l)
            for u in uses_of_local(g, l):
                if u[0] == "stmt":
                    dst, rv = u[2], u[3]
                    if "|" in dst:
                        continue
                    if rv[0] in ("use", "ref", "cast", "discr") or (rv[0] == "agg" and (rv[1] == "tuple" or "Option::Some" in rv[1] or "Range" in rv[1])):
                        work.append(place_local(dst))
                    elif rv[0] == "bin" and rv[1] in ("Sub", "Add", "Mul", "SubWithOverflow", "AddWithOverflow", "MulWithOverflow", "SubUnchecked", "AddUnchecked"):
                        work.append(place_local(dst))
                elif u[0] == "call":
                    c, ai = u[1], u[2]
                    last = c.name.rsplit("::", 1)[-1]
                    if last in ("min", "clamp"):
                        others = [a for k_, a in enumerate(c.args) if k_ != ai]
                        if any(origin(g, a)[0] == "const" for a in others):
                            continue   # bounded by a constant
                        if c.dest and "|" not in c.dest:
                            work.append(place_local(c.dest))
                    elif last in SINKS and ai >= (1 if last not in ("with_capacity", "from_elem", "repeat") else 0):
                        if last == "take" and "Option" in (c.self_ty or ""):
                            continue
                        found.append((g, c, last))
                    elif last in PASSTHRU and c.dest and "|" not in c.dest:
                        work.append(place_local(c.dest))
                    else:
                        # closures given to map/and_then: parameter 2 of the closure carries the value
                        pass
    R.floor("C16.R4", "numbers parsed from peer bytes in http_client.rs", n_src, 1)
    seen = set()
    for g, c, last in found:
        root = F.bodies[g.path].get("root") or g.path
        if (root, last) in seen:
            continue
        seen.add((root, last))
        R.bad("C16.R4", f"{root}:{last}-sized-by-peer", f"a number the peer declared (parsed from its response) sizes `{last}`: an absurd Content-Length makes the client panic (capacity overflow / out-of-range) or allocate without bound instead of returning an error", g.loc(c.bb), dict())
    R.ok("C16.R4", "declared-lengths-compared-not-trusted", dict(parsed_numbers=n_src, sinks=len(seen)))


def _only_from(fn, op, allowed_calls, depth=0, seen=None):
    """every leaf of the backward slice of op is a constant or the result of an allowed call"""
    seen = seen if seen is not None else set()
    if isinstance(op, dict):
        return True
    pl = op_place(op) if (len(op) > 1 and op[1] == ":") else op
    l = place_local(pl)
    if l in seen:
        return True
    seen.add(l)
    if 1 <= l <= fn.raw["nargs"]:
        return False
    ds = fn.defs().get(l, [])
    if not ds:
        return False
    for bb, kind, payload in ds:
        if kind == "call":
            c = payload
            last = c.name.rsplit("::", 1)[-1]
            if last == "position":
                continue
            if last in allowed_calls:
                if not all(_only_from(fn, a, allowed_calls, depth + 1, seen) for a in c.args if not (isinstance(a, str) and origin(fn, a)[0] == "rv" and origin(fn, a)[1][0] == "agg" and origin(fn, a)[1][1].startswith("closure:"))):
                    return False
                continue
            return False
        dst, rv, line = payload
        k = rv[0]
        ops = []
        if k in ("use", "repeat"):
            ops = [rv[1]]
        elif k in ("ref", "raw"):
            ops = ["c:" + rv[2]]
        elif k == "cast":
            ops = [rv[2]]
        elif k == "bin":
            ops = [rv[2], rv[3]]
        elif k == "un":
            ops = [rv[2]]
        elif k == "agg":
            ops = rv[2]
        elif k == "discr":
            ops = ["c:" + rv[1]]
        for o in ops:
            if not _only_from(fn, o, allowed_calls, depth + 1, seen):
                return False
    return True
