"""C01 SQL answers agree with standard SQL semantics — the 'otherwise the statement fails with an error' clause."""
from qe import *
import k9
import kerr

CLAIMS = ("R1 on the ExecutionContext::sql spine (parse, bind, optimize, physical planning, every partition's execute and collect, the dictionary cast) every fallible step is propagated: no error is swallowed into a partial or empty answer, and every declared output partition is driven; "
          "R2 no silent default on an unsupported type: a value-producing helper in the physical layer that dispatches on the Arrow type with a downcast ladder must not fall through to a fabricated constant (Ordering::Equal, a Null key, zeros) when no branch matched; it must return an error/None or be unreachable by construction.")
NOT_DECIDED = "equality of any answer with the reference semantics (the NULL/semantics clauses live in C02, C21-C25, C44)."

CTX = "execution::context::ExecutionContext"


def ladder_defaults(F):
    """value-returning functions under src/physical with >= 2 `downcast_ref` tests whose fall-through (no downcast matched)
    reaches a return of a constant / unit-variant value"""
    out = []
    for p, b in F.bodies.items():
        if not b["file"].startswith("src/physical/") or b["kind"] not in ("fn", "method", "closure"):
            continue
        g = F.fn(p)
        rt = g.local_ty(0)
        if rt.startswith(("std::result::Result<", "std::option::Option<", "()", "bool")) or rt == "!":
            continue
        dcs = [c for c in g.calls() if c.name.rsplit("::", 1)[-1] == "downcast_ref"]
        if len(dcs) < 2:
            continue
        # Some-edges of the switches on each downcast result
        sw = []
        for sb in range(g.n):
            si = g.switch_info(sb)
            if si and si[0] == "enum" and si[1][1] == "std::option::Option" and "Some" in si[2]:
                o = origin(g, "c:" + si[1][0])
                if o[0] == "call" and o[1] in dcs:
                    sw.append((sb, si[2]["Some"], si[2].get("None", si[3])))
        # the ladder = the top-level tests: a downcast nested inside another test's Some branch (dictionary values, the
        # right-hand array of a comparison) is part of that branch, not a rung
        top = [(sb, se, ne) for sb, se, ne in sw if not any(o_se != se and g.dominates(o_se, sb) for _, o_se, _ in sw)]
        some_edges = {se for sb, se, ne in top}
        none_edges = [ne for sb, se, ne in top]
        if len(some_edges) < 2:
            continue
        # the default is what remains when EVERY rung failed: reachable from each None edge without taking any Some edge
        reach = None
        for ne in none_edges:
            r_ = g.reachable(ne, avoid=frozenset(some_edges))
            reach = r_ if reach is None else (reach & r_)
        reach = reach or set()
        for i, j, dst, rv, line in g.stmts():
            if dst != "0" or i not in reach:
                continue
            const = (rv[0] == "use" and isinstance(rv[1], dict)) or (rv[0] == "agg" and not rv[2] and rv[1].startswith("adt:"))
            if const:
                val = rv[1] if rv[0] == "agg" else str(rv[1].get("v", rv[1].get("p")))
                out.append((g, i, val, len(dcs)))
    return out


def _group_value_premise(F):
    """hash_agg::extract_group_value keeps a Null fall-through, but no caller can turn it into an answer:
    (1) its callers are extract_group_key (GROUP BY keys) and update_accumulator (aggregate inputs) only;
    (2) GROUP BY keys of an unsupported type are refused when the key column is rebuilt: build_group_array's type dispatch ends in Err;
    (3) every array update_accumulator receives comes from widen_distinct_input, whose own type dispatch ends in Err
        (value-keyed aggregates COUNT(DISTINCT)/SUM(DISTINCT)/APPROX_DISTINCT are cast to a handled type or refused).
    ANY_VALUE/ARBITRARY also store the extracted value; for an unhandled type the output builder refuses it
    ("ANY_VALUE not implemented for type ..", reproduced in fixes/Km/verdict.json) - reviewed, not machine-checked."""
    HA = "physical::operators::hash_agg"
    egv = HA + "::extract_group_value"
    callers = {F.bodies[c.fn.path].get("root") or c.fn.path for c in F.callers_of(egv)}
    if not callers <= {HA + "::extract_group_key", HA + "::update_accumulator"}:
        return False, f"new callers {sorted(callers)}"
    def ends_in_err(path, scrut_suffix):
        g = F.fn(path)
        ms = [m for m in g.raw["matches"] if m["kind"] == "match" and m["scrut"].endswith(scrut_suffix) and len(m["arms"]) >= 4]
        return bool(ms) and all(m["arms"][-1]["cls"] in ("Err", "ret:Err") for m in ms)
    if not ends_in_err(HA + "::build_group_array", "DataType"):
        return False, "build_group_array no longer refuses unsupported key types"
    if HA + "::widen_distinct_input" not in F.bodies or not ends_in_err(HA + "::widen_distinct_input", "DataType"):
        return False, "widen_distinct_input missing or without a refusing fall-through"
    for c in F.callers_of(HA + "::update_accumulator"):
        g = c.fn
        fed = derives_from(g, [c.args[2]], lambda k, x: (k == "call" and x.name == HA + "::widen_distinct_input" and x) or None)
        if not fed:
            # the widening may sit in a closure mapped over the aggregates: accept when the enclosing function's family calls it
            root = F.bodies[g.path].get("root") or g.path
            if not any(x.name == HA + "::widen_distinct_input" for x in F.fam_calls(root)):
                return False, f"{root} feeds update_accumulator without widen_distinct_input"
    return True, "callers={extract_group_key, update_accumulator}; build_group_array and widen_distinct_input refuse other types; every update_accumulator input is widened"


def _morsel_scalar_premise(F):
    """morsel_agg::extract_scalar keeps a Null fall-through for types it has no arm for, but no such value reaches it:
    (1) AggregationState::process_batch refuses (Err) every group-key array and every valued aggregate input whose type
        scalar_representable() rejects, and that refusal dominates the construction of the accessors that call extract_scalar;
    (2) COUNT inputs of other types are counted by validity before extract_scalar is reached;
    (3) extract_scalar is called only from the morsel aggregation module (TypedArrayAccessor / AggregationState)."""
    M = "physical::morsel_agg"
    if M + "::scalar_representable" not in F.bodies:
        return False, "scalar_representable is gone"
    pb = F.one("AggregationState::process_batch", file="src/physical/morsel_agg.rs")
    gate = [c for c in pb.calls() if c.name == M + "::scalar_representable"]
    if not gate:
        return False, "process_batch no longer consults scalar_representable"
    import guards
    def builds_accessor(c):
        if c.name.rsplit("::", 1)[-1] == "from_array":
            return True
        # `.map(TypedArrayAccessor::from_array)`: the constructor travels as a fn item
        return any(isinstance(a, dict) and "from_array" in str(a.get("fn", "")) + str(a.get("p", "")) for a in c.args)
    acc = [c for c in pb.calls() if builds_accessor(c)]
    if not acc:
        return False, "no accessor construction found in process_batch"
    # the gate's failing edge returns Err, and the gate block dominates the first accessor construction in the function body
    errs = [i for i, j, dst, rv, line in pb.stmts() if dst == "0" and rv[0] == "agg" and rv[1] == "adt:std::result::Result::Err"]
    refuses = any(pb.dominates(g_.bb, e) for g_ in gate for e in errs)
    first_build = min((i for i, j, dst, rv, line in pb.stmts() if rv[0] == "agg" and rv[1].startswith("closure:") and any(x.name.rsplit("::", 1)[-1] == "from_array" for x in F.fam_calls(rv[1][8:]))), default=None)
    builds = [c.bb for c in acc] + ([first_build] if first_build is not None else [])
    # the gate sits in a loop over the arrays (zero iterations for no arrays): what must dominate the construction is the
    # loop's header, i.e. the iterator `next` that dominates the gate, and the construction must lie outside the loop body
    heads = [c for c in pb.calls() if c.name.rsplit("::", 1)[-1] == "next" and any(pb.dominates(c.bb, g_.bb) and pb.path_exists(g_.bb, c.bb) for g_ in gate)]
    doms = [g_.bb for g_ in gate] + [h.bb for h in heads]
    if not refuses or not builds or not all(any(pb.dominates(d_, b_) for d_ in doms) for b_ in builds):
        return False, "the type refusal does not dominate the accessor construction"
    outside = [c.fn.path for c in F.callers_of(M + "::extract_scalar") if not c.fn.file.endswith("physical/morsel_agg.rs")]
    if outside:
        return False, f"extract_scalar called from {outside[:2]}"
    return True, "process_batch refuses unrepresentable key / input types before building accessors; callers confined to morsel_agg.rs"


# one named symbol per entry, each with a machine-checked premise (a failed premise is reported as a violation)
REVIEWED = {"physical::operators::hash_agg::extract_group_value": _group_value_premise,
            "physical::morsel_agg::extract_scalar": _morsel_scalar_premise}


def run(F, R):
    R.rule("C01.R1", "K-ERR + K3", "sql(): every Result on the spine is propagated; partitions 0..output_partitions() are all driven")
    R.rule("C01.R2", "K4 no silent default", "downcast ladders producing data do not fall through to a fabricated constant")
    sq = F.fn(CTX + "::sql::{closure#0}")
    n = 0
    for g in F.family(CTX + "::sql"):
        for c, tags, ok in kerr.audit(F, g):
            n += 1
            R.check(ok, "C01.R1", f"{g.path.split('::sql')[-1] or 'sql'}:{c.name.rsplit('::', 1)[-1]}#{_ord(g, c)}", f"an error on the query spine is swallowed ({sorted(tags)})", g.loc(c.bb), dict(callee=c.name, consumers=sorted(tags)))
    R.floor("C01.R1", "fallible steps audited on the sql() spine", n, 7)
    # every per-partition result is `?`-ed: the loop over partition_results
    pr = [l for l, (t, nm) in enumerate(sq.locals) if nm == "partition_result"]
    okp = False
    for l in pr:
        class _C:
            dest = str(l)
        okp = "try" in result_consumers(sq, _C)
    R.check(okp, "C01.R1", "sql:every-partition-result-?", "a failed partition's error is not propagated", sq.loc(), dict())
    # partitions driven: Range{0, max(output_partitions(physical),1)} mapped to execute(partition_id)
    rng = [(i, rv) for i, j, dst, rv, line in sq.stmts() if rv[0] == "agg" and rv[1] == "adt:std::ops::Range"]
    okr = False
    OP = "physical::plan::PhysicalOperator::output_partitions("
    for i, rv in rng:
        e = k9.kexpr(sq, rv[2][1])
        if op_const(rv[2][0]) != 0 or OP not in e:
            continue
        while e.startswith("max("):
            e = e[4:]
        if e.startswith(OP):
            okr = True
        elif not e.startswith(("min(", "#")):
            R.undecided("C01.R1", "sql:partition-range-shape", f"upper bound of the partition range has an unrecognised shape: {e[:80]}", sq.loc(i))
    exe = [c for g in F.family(CTX + "::sql") for c in g.calls() if c.callee == "physical::plan::PhysicalOperator::execute"]
    okx = bool(exe) and all(origin(c.fn, c.args[1])[0] != "const" for c in exe)
    R.check(okr and okx, "C01.R1", "sql:drives-0..output_partitions", "sql() does not drive every declared output partition of the root operator", sq.loc(), dict(ranges=len(rng), execute_sites=len(exe)))
    # ---- R2
    found = ladder_defaults(F)
    seen = {}
    for g, bb, val, ndc in found:
        root = F.bodies[g.path].get("root") or g.path
        seen.setdefault((root, val), (g, bb, ndc))
    for (root, val), (g, bb, ndc) in sorted(seen.items()):
        if root in REVIEWED:
            ok, why = REVIEWED[root](F)
            R.check(ok, "C01.R2", f"{root}:default-unreachable-with-wrong-answer", f"reviewed exception no longer holds ({why}): the fabricated {val.replace('adt:', '')} can reach an answer again", g.loc(bb), dict(premise=why))
            continue
        R.bad("C01.R2", f"{root}:default={val.replace('adt:', '')}", f"a {ndc}-way Arrow-type dispatch falls through to the fabricated value {val.replace('adt:', '')} for a type it does not handle, instead of failing: the statement returns a wrong answer for that column type", g.loc(bb), dict(downcasts=ndc))
    R.ok("C01.R2", "ladders-examined", dict(defaults=len(seen)))
    # the same defect written as a `match` on the Arrow type: typed arms construct data-carrying variants of an enum, the
    # wildcard arm answers that enum's unit variant
    nm = 0
    for p, b in sorted(F.bodies.items()):
        if not b["file"].startswith("src/physical/") or b["kind"] not in ("fn", "method", "closure"):
            continue
        for m in b["matches"]:
            if m["kind"] != "match" or not m["scrut"].endswith("DataType"):
                continue
            typed = [a for a in m["arms"] if "DataType::" in a["pat"]]
            wild = [a for a in m["arms"] if a["pat"].strip() == "_" or a["pat"].startswith("$")]
            if len(typed) < 3 or not wild:
                continue
            nm += 1
            ctor = [a["cls"][5:] for a in typed if a["cls"].startswith("call:")]
            enums = {c.rsplit("::", 1)[0] for c in ctor}
            w = wild[-1]
            if w["cls"].startswith("path:") and w["cls"][5:].rsplit("::", 1)[0] in enums and len(ctor) >= 3:
                root = b.get("root") or p
                val = w["cls"][5:]
                if root in REVIEWED:
                    ok, why = REVIEWED[root](F)
                    R.check(ok, "C01.R2", f"{root}:default-unreachable-with-wrong-answer", f"reviewed exception no longer holds ({why})", f"{b['file']}:{w['span'][0]}", dict(premise=why))
                    continue
                R.bad("C01.R2", f"{root}:default={val}", f"a {len(typed)}-way match on the Arrow type answers the fabricated value {val} for every type it does not list, instead of failing: values of such a type all look alike (one group / one cache key / NULL)", f"{b['file']}:{w['span'][0]}", dict(typed_arms=len(typed)))
    R.ok("C01.R2", "type-matches-examined", dict(matches=nm), nontrivial=False)


def _ord(g, c):
    same = sorted([x for x in g.calls() if x.name == c.name], key=lambda x: (x.line, x.bb))
    return same.index(c)
