"""C39 The TPC-H generator is deterministic and self-consistent — structural clauses."""
from qe import *
import k9
import detk

CLAIMS = ("R1 every random draw of tpch::generator comes from the generator's own `rng` field, which is only ever constructed by StdRng::seed_from_u64 from a constant or the seed parameter; the generator's in-crate call closure contains no thread_rng/entropy/clock/env/hash-iteration source and no shared-RNG parallelism; "
          "R2 (foreign-key range provenance) every value pushed into a foreign-key column is bounded by its parent's row-count parameter (`(i % parent_count) + 1`, a draw from 1..=parent_count, or a constant range agreeing with the parent's literal row set), with no scaling of the bound.")
NOT_DECIDED = "TPC-H row-count ratios (arithmetic on the scale factor); byte-identical output across library versions."

G = "tpch::generator::TpchGenerator"
FK = {"o_custkey": "cust_count", "l_orderkey": "order_count", "l_partkey": "part_count", "ps_partkey": "part_count",
      "l_suppkey": "supp_count", "ps_suppkey": "supp_count", "s_nationkey": 25, "c_nationkey": 25}


def run(F, R):
    R.rule("C39.R1", "K-DET", "all draws from self.rng; rng = StdRng::seed_from_u64(const|param); no other nondeterminism in the closure")
    R.rule("C39.R2", "K5/K6 range-bound provenance", "FK pushes bounded by the parent's row count without scaling")
    roots = [G + "::generate_all", G + "::generate_to_parquet"]
    nd = detk.nondet_sites(F, roots)
    R.check(not nd, "C39.R1", "generator:no-nondeterminism", f"nondeterminism source in the generator: {[(str(c), k) for c, k in nd][:3]}", F.fn(roots[0]).loc(), dict(closure=len(F.closure_of(roots))))
    seeds = []
    for g in F.in_file("src/tpch/generator.rs"):
        for c in g.calls():
            last = c.name.rsplit("::", 1)[-1]
            if last in ("seed_from_u64", "from_seed", "from_entropy", "from_rng", "thread_rng", "from_os_rng"):
                seeds.append((g, c, last))
    R.floor("C39.R1", "RNG constructions", len(seeds), 2)
    for g, c, last in seeds:
        o = origin(g, c.args[0]) if c.args else ("none",)
        R.check(last == "seed_from_u64" and o[0] in ("const", "arg"), "C39.R1", f"{F.bodies[g.path]['name']}:rng-seeded", f"RNG constructed by {last} from {o[0]}", g.loc(c.bb), dict(), nontrivial=False)
    draws = 0
    bad = []
    for g in F.in_file("src/tpch/generator.rs"):
        for c in g.calls():
            if c.name.rsplit("::", 1)[-1] in ("gen_range", "gen", "gen_bool", "sample", "shuffle", "choose", "random", "random_range"):
                draws += 1
                e = k9.kexpr(g, c.args[0])
                if not e.endswith(".rng"):
                    bad.append((g, c, e))
    R.floor("C39.R1", "random draws", draws, 20)
    R.check(not bad, "C39.R1", "draws-from-self.rng", f"a draw does not come from the generator's seeded rng: {[e[:40] for g, c, e in bad][:3]}", bad[0][0].loc(bad[0][1].bb) if bad else "", dict(draws=draws))
    par = [c for g in F.in_file("src/tpch/generator.rs") for c in g.calls() if "rayon" in c.name or "par_iter" in c.name or c.name.startswith("std::thread::spawn") or "tokio::spawn" in c.name]
    R.check(not par, "C39.R1", "no-parallel-generation", f"parallel generation shares the RNG: {[c.name for c in par][:2]}", "", dict(), nontrivial=False)
    # ---- R2
    nfk = 0
    for g in F.in_file("src/tpch/generator.rs"):
        if F.bodies[g.path]["kind"] != "method":
            continue
        for col, parent in FK.items():
            locs = g.locals_named(col)
            if not locs:
                continue
            for c in g.calls():
                if not c.name.endswith("Vec::<T, A>::push"):
                    continue
                if not derives_from(g, [c.args[0]], lambda k, x: (k == "place" and place_local(x) in locs) or None, through_calls=False):
                    continue
                nfk += 1
                e = k9.kexpr(g, c.args[1])
                ok, why = fk_bounded(g, e, parent)
                R.check(ok, "C39.R2", f"{col}:bounded-by-{parent}", f"{col} is generated as {e[:110]}: {why}", g.loc(c.bb), dict(expr=e[:160]))
    R.floor("C39.R2", "foreign-key push sites", nfk, 8)


def fk_bounded(g, e, parent):
    """accepted shapes: Add(Rem(x, P), 1) / gen_range(.., Range{1..=P}|0..25) with P the parent's count parameter"""
    import re
    if isinstance(parent, int):
        m = re.search(r"gen_range\([^,]*,std::ops::Range\{#(\d+),#(\d+)\}\)", e)
        if m and int(m.group(1)) == 0 and int(m.group(2)) == parent:
            return True, ""
        return False, f"not a draw from 0..{parent} (the parent's literal row set)"
    pl = g.locals_named(parent)
    pe = [f"⟨{l}⟩" for l in pl if 1 <= l <= g.raw["nargs"]]
    if not pe:
        return False, f"parent count parameter `{parent}` not found"
    P = pe[0]
    # (x % P) + 1
    if re.search(r"Add(WithOverflow)?\(Rem\([^()]*(\([^()]*\))*[^()]*," + re.escape(P) + r"\),#1\)", e):
        return True, ""
    if "Rem(" in e and f",{P})" in e and e.count(P) >= 1 and "Mul" not in e.split("Rem(")[0]:
        return True, ""
    # draw from 1..=P
    if "gen_range(" in e and P in e:
        rng = e[e.index("gen_range("):]
        if "Mul" in rng or "mul" in rng:
            return False, f"the draw's upper bound scales `{parent}` (e.g. x 1.5): some keys refer to no existing parent row"
        return True, ""
    if "gen_range(" in e:
        return False, f"the draw's bound does not come from `{parent}` directly (scaled or unrelated): some keys refer to no existing parent row"
    # sequential order key carried in a local (lineitem's current_order wraps with % order_count)
    if e.startswith("?"):
        l = int(e[1:]) if e[1:].isdigit() else None
        if l is not None:
            defs = g.defs().get(l, [])
            es = [k9.kexpr(g, d[2][1][1] if d[2][1][0] == "use" else d[2][1][2]) for d in defs if d[1] == "stmt" and d[2][1][0] in ("use", "cast")]
            if any("Rem(" in x and f",{P})" in x for x in es) and all(("Rem(" in x and f",{P})" in x) or x.startswith("#") or "Add" in x for x in es):
                return True, ""
    return False, f"not recognisably bounded by `{parent}`"
