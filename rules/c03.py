"""C03 Optimization never changes a query's answer — structural clauses."""
from qe import *
import k9

CLAIMS = ("R1 no rewrite's validity condition is computed from an estimate: a value read from ColumnStatistics::{ndv_est, ndv_str, min_f64, max_f64} never reaches, untouched by arithmetic, an integer comparison against a run-time value inside the optimizer (cost models and profitability gates, which apply arithmetic or float casts, do not match by construction); "
          "R2 (= C32.R1) PackedJoinKeys runs after the fix-point loop only, and the rule names used to partition the rule list agree with the rules' own name(); "
          "R3 LIMIT/OFFSET is a barrier for predicate pushdown: in PredicatePushdown::pushdown the arm for LogicalPlan::Limit (and the VectorSearch node, a fused ORDER BY..LIMIT) does not hand the pending predicates to the recursion into its input - filtering below a LIMIT changes which rows survive it.")
NOT_DECIDED = "answer-preservation of each rule's rewrite (a relation between plans, i.e. values)."

CSTAT = "physical::operators::scan::ColumnStatistics"
EST = ("ndv_est", "ndv_str", "min_f64", "max_f64")
PASS = ("unwrap", "unwrap_or", "unwrap_or_default", "expect", "copied", "cloned", "branch", "from_residual", "ok_or", "ok_or_else", "clone", "into", "from", "try_into", "try_from", "as_ref", "as_deref", "unwrap_or_else")
CLOSURE_ADAPTORS = ("map", "and_then", "is_some_and", "map_or", "filter", "is_none_or", "map_or_else")
CMP = ("Eq", "Ne", "Lt", "Le", "Gt", "Ge")


def taint_sinks(F, g, seeds, depth=0):
    """forward int-taint from seed locals in g; returns [(bb, description)] sinks"""
    sinks = []
    tainted = set()
    work = list(seeds)
    while work:
        l = work.pop()
        if l in tainted:
            continue
        tainted.add(l)
        for u in uses_of_local(g, l):
            if u[0] == "stmt":
                dst, rv = u[2], u[3]
                k = rv[0]
                if k in ("use", "ref"):
                    if "|" not in dst:
                        work.append(place_local(dst))
                elif k == "cast":
                    if rv[1].startswith("IntToInt") and "|" not in dst:
                        work.append(place_local(dst))
                elif k == "agg":
                    if rv[1] in ("tuple",) or rv[1].startswith("adt:std::option::Option::Some"):
                        if "|" not in dst:
                            work.append(place_local(dst))
                elif k == "bin" and rv[1] in CMP:
                    a, b = rv[2], rv[3]
                    ta = op_place(a) is not None and place_local(op_place(a)) in tainted
                    tb = op_place(b) is not None and place_local(op_place(b)) in tainted
                    other = b if ta else a
                    if (ta or tb) and not op_is_const(other) and origin(g, other)[0] != "const" and rv[4] not in ("f64", "f32", "bool"):
                        sinks.append((u[1], f"{rv[1]} of an estimate with {k9.kexpr(g, other)[:60]}"))
            elif u[0] == "call":
                c, ai = u[1], u[2]
                last = c.name.rsplit("::", 1)[-1]
                if last in PASS and ai == 0:
                    work.append(place_local(c.dest))
                elif last in ("max", "min") and c.name.startswith(("std::cmp::Ord::", "core::cmp::Ord::", "std::cmp::max", "std::cmp::min")):
                    # max/min of estimates is an estimate
                    work.append(place_local(c.dest))
                elif last in CLOSURE_ADAPTORS and ai == 0 and depth < 2:
                    for a in c.args[1:]:
                        o = origin(g, a)
                        if o[0] == "rv" and o[1][0] == "agg" and o[1][1].startswith("closure:"):
                            cf = F.fn(o[1][1][8:])
                            for bb, d in taint_sinks(F, cf, [2], depth + 1):
                                sinks.append((c.bb, d + f" (in closure of {last})"))
                elif last in ("eq", "ne", "lt", "le", "gt", "ge", "cmp", "partial_cmp") and ("u64" in " ".join(c.argtys) or "usize" in " ".join(c.argtys) or "i64" in " ".join(c.argtys)):
                    other = c.args[1 - ai] if len(c.args) == 2 else None
                    if other is not None and origin(g, other)[0] != "const":
                        sinks.append((c.bb, f"{last}() of an estimate with {k9.kexpr(g, other)[:60]}"))
    return sinks


def estimates_rule(F, R, rid):
    R.rule(rid, "K5 taint (estimate-as-exact)", "reads of ColumnStatistics::{ndv_est,ndv_str,min_f64,max_f64} -> (moves, int casts, ?/unwrap/copied, Option-combinator closure params) -> integer comparison with a run-time operand; arithmetic and float casts end the taint")
    readers = 0
    findings = {}
    for fld in EST:
        for g in F.fns_touching(fld, CSTAT):
            if not (g.file.startswith("src/optimizer/") or g.file.startswith("src/physical/planner")):
                continue
            seeds = []
            for i, j, dst, rv, line in g.stmts():
                pl = None
                if rv[0] == "use":
                    pl = op_place(rv[1])
                elif rv[0] == "ref":
                    pl = rv[2]
                if pl and place_fields(pl)[-1:] == [(fld, CSTAT)] and "|" not in dst:
                    seeds.append(place_local(dst))
                    readers += 1
            for c in g.calls():
                for a in c.args:
                    pl = op_place(a)
                    if pl and place_fields(pl)[-1:] == [(fld, CSTAT)]:
                        pass
            for bb, d in taint_sinks(F, g, seeds):
                root = F.bodies[g.path].get("root") or g.path
                findings.setdefault((root, fld), []).append((g, bb, d))
    R.floor(rid, "optimizer reads of estimate fields", readers, 6)
    for (root, fld), lst in sorted(findings.items()):
        g, bb, d = lst[0]
        R.bad(rid, f"{root}:{fld}-decides", f"an estimate ({fld}) decides a rewrite: {d}; an estimate that happens to be wrong changes the answer", g.loc(bb), dict(sites=[x[2] for x in lst]))
    R.ok(rid, "estimate-readers-examined", dict(readers=readers, deciding=len(findings)))


def limit_barrier(F, R, rid):
    R.rule(rid, "K4 arm x K5 argument provenance", "pushdown(Limit.input, <pending predicates>) never happens: the recursion under a Limit starts with no predicates")
    pp = "optimizer::rules::predicate_pushdown::PredicatePushdown::pushdown"
    g = F.fn(pp)
    ms = [m for m in g.raw["matches"] if m["kind"] == "match" and m["scrut"].endswith("LogicalPlan") and len(m["arms"]) >= 6]
    if len(ms) != 1:
        raise Broken(f"PredicatePushdown::pushdown: {len(ms)} plan dispatches")
    n = 0
    for v in ("Limit", "VectorSearch"):
        arms = arm_for(ms[0], "LogicalPlan::" + v)
        if not arms:
            continue
        rec = [c for c in calls_in_lines(g, arms[0]["span"]) if c.name == pp]
        for k_, c in enumerate(sorted(rec, key=lambda c: (c.line, c.bb))):
            n += 1
            carried = derives_from(g, [c.args[2]], lambda k, x: (k == "place" and "|" not in x and place_local(x) == 3 and x) or None)
            o = origin(g, c.args[2])
            R.check(not carried and o[0] != "arg", rid, f"pushdown[{v}]:recursion#{k_}:starts-empty", f"the predicates collected above a {v.upper() if v == 'Limit' else v} node are pushed into its input: `SELECT .. FROM (SELECT .. ORDER BY x LIMIT 3) s WHERE p` then returns the first 3 rows that satisfy p instead of filtering the first 3 rows", g.loc(c.bb), dict(argument=str(o)[:80]))
    R.floor(rid, "recursions under Limit / VectorSearch in PredicatePushdown", n, 1)


def run(F, R):
    estimates_rule(F, R, "C03.R1")
    limit_barrier(F, R, "C03.R3")
    import c32
    c32.rule_order(F, R, "C03.R2")
