"""C02 Three-valued logic decides which rows a predicate keeps — structural clauses."""
from qe import *
import k9

CLAIMS = ("R1 the interpreter combines nullable booleans with Kleene kernels: the And/Or arms of evaluate_binary_op, the Between arm of the expression evaluator and evaluate_in_list reach and_kleene/or_kleene and never the null-strict arrow `boolean::and` / `boolean::or` (NOT is null-strict in SQL, so boolean::not is allowed); "
          "R3 the per-row fast paths (dictionary literal mask, constant LIKE, all-literal IN lists) yield NULL (None), not FALSE, for a NULL input row; "
          "R4 (= C06.R1) the compiled predicate path uses the same logic class as the interpreter.")
NOT_DECIDED = "NULL-ness of every scalar function result (C36 is not applicable); a NULL literal inside an all-literal IN list on the string fast path (a value question)."

FL = "physical::operators::filter"
STRICT = ("arrow_arith::boolean::and", "arrow_arith::boolean::or")
KLEENE = {"And": "and_kleene", "Or": "or_kleene"}


def logic_class(F, calls):
    """arrow's boolean kernels by final path segment (rustc prints them through whichever re-export is visible:
    arrow::compute::and == arrow_arith::boolean::and)"""
    strict, kleene = set(), set()
    for c in calls:
        nm = c.name
        if not nm.startswith("arrow"):
            continue
        last = nm.rsplit("::", 1)[-1]
        if last in ("and", "or"):
            strict.add(last)
        elif last in ("and_kleene", "or_kleene"):
            kleene.add(last)
    return sorted(strict), sorted(kleene)


def interpreter_sites(F):
    """[(key, fn, calls, want)]"""
    out = []
    eb = F.fn(FL + "::evaluate_binary_op")
    ms = find_match(eb, "planner::logical_expr::BinaryOp", min_arms=6)
    if len(ms) != 1:
        raise Broken(f"evaluate_binary_op: {len(ms)} matches on BinaryOp")
    for v in ("And", "Or"):
        arms = arm_for(ms[0], "BinaryOp::" + v)
        if len(arms) != 1:
            raise Broken(f"evaluate_binary_op: arm {v} not found")
        out.append((f"evaluate_binary_op[{v}]", eb, calls_in_lines(eb, arms[0]["span"]), v))
    ei = F.fn(FL + "::evaluate_expr_internal")
    ms = find_match(ei, "planner::logical_expr::Expr", min_arms=8)
    if len(ms) != 1:
        raise Broken(f"evaluate_expr_internal: {len(ms)} matches on Expr")
    arms = arm_for(ms[0], "Expr::Between")
    if len(arms) != 1:
        raise Broken("evaluate_expr_internal: Between arm not found")
    out.append(("evaluate_expr_internal[Between]", ei, calls_in_lines(ei, arms[0]["span"]), "And"))
    il = F.fn(FL + "::evaluate_in_list")
    out.append(("evaluate_in_list", il, il.calls(), "Or"))
    return out


def run(F, R):
    R.rule("C02.R1", "K4 arm<->callee", "And/Or/Between/IN combine with and_kleene/or_kleene, never boolean::and/or")
    R.rule("C02.R3", "K4 result class", "fast-path row closures return None on the is_null edge")
    sites = interpreter_sites(F)
    R.floor("C02.R1", "interpreter logic sites", len(sites), 4)
    for key, f, calls, want in sites:
        strict, kleene = logic_class(F, calls)
        ok = not strict and KLEENE[want] in kleene
        what = f"nullable booleans are combined with the null-strict kernel {strict}: NULL {want.upper()} {'FALSE' if want == 'And' else 'TRUE'} evaluates to NULL instead of {'FALSE' if want == 'And' else 'TRUE'}" if strict else f"no {KLEENE[want]} in this arm"
        R.check(ok, "C02.R1", key, what, f.loc(calls[0].bb) if calls else f.loc(), dict(strict=strict, kleene=kleene, calls_in_arm=len(calls)))
    # ---- R3
    n = 0
    roots = [FL + "::evaluate_expr_internal", FL + "::dict_literal_mask"]
    for root in roots:
        for g in F.family(root):
            if F.bodies[g.path]["kind"] != "closure" or not g.local_ty(0).startswith("std::option::Option<bool>"):
                continue
            isn = [c for c in g.calls() if c.name.rsplit("::", 1)[-1] in ("is_null", "is_valid")]
            if not isn:
                continue
            n += 1
            ok = False
            why = "the NULL edge does not return None"
            for c in isn:
                neg = c.name.endswith("is_valid")
                # form A: if arr.is_null(i) { None } else { Some(..) }
                for sb in range(g.n):
                    si = g.switch_info(sb)
                    if si and si[0] == "bool" and si[1] and origin(g, "c:" + si[1]) == ("call", c):
                        t = si[2][not neg]
                        reach = g.reachable(t, avoid=frozenset([sb]))
                        vals = [rv for i, j, dst, rv, line in g.stmts() if dst == "0" and i in reach]
                        if vals and all(rv[0] == "agg" and rv[1] == "adt:std::option::Option::None" for rv in vals):
                            ok = True
                # form B: (!arr.is_null(i)).then(|| ..)
                for t in g.calls():
                    if t.name.rsplit("::", 1)[-1] in ("then", "then_some") and t.self_ty == "bool":
                        o = origin(g, t.args[0])
                        if o[0] == "rv" and o[1][0] == "un" and o[1][1] == "Not" and origin(g, o[1][2]) == ("call", c) and not neg and origin(g, "c:0") == ("call", t):
                            ok = True
                        if neg and origin(g, t.args[0]) == ("call", c) and origin(g, "c:0") == ("call", t):
                            ok = True
            root_name = F.bodies[root]["name"]
            R.check(ok, "C02.R3", f"{root_name}:{g.path.split(root)[-1]}", why, g.loc(), dict(closure=g.path))
    R.floor("C02.R3", "Option<bool> row closures with a NULL test", n, 5)
    import c06
    c06.logic_agreement(F, R, "C02.R4")
