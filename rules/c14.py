"""C14 Nodes that disagree about the data refuse to answer — structural clauses."""
from qe import *
import k9
import guards

CLAIMS = ("R1 in execute_fragment the calls that build the shard context and run the SQL are dominated by a comparison of SplitSet::digest() of the locally enumerated set with the request's splits_digest whose unequal edge returns Err; "
          "R2 shard_context reads assignment.per_node only through a checked get(shard_index) whose None becomes an Err propagated with `?`; "
          "R3 the /fragment handler reaches the engine only through execute_fragment; "
          "R4 (= C11.R1) the digest feeds every split-relevant field and never the mount path.")
NOT_DECIDED = "that the FNV digest separates every pair of differing split sets (a hash-collision question)."

CO = "distributed::coordinator"


def run(F, R):
    R.rule("C14.R1", "K3 dominance", "shard_context and ExecutionContext::sql in execute_fragment are dominated by `digest(local set) != req.splits_digest => Err`")
    R.rule("C14.R2", "K4 checked access", "assignment.per_node is indexed by shard_index only via get(..).ok_or_else(..)?")
    R.rule("C14.R3", "K1 who-may-call", "/fragment handler family calls no engine entry point other than execute_fragment")
    f = F.fn(CO + "::execute_fragment::{closure#0}")
    targets = [c for c in f.calls() if c.name in (CO + "::shard_context", "execution::context::ExecutionContext::sql", "distributed::splits::assign_lpt")]
    R.floor("C14.R1", "engine calls in execute_fragment", len(targets), 3)
    for c in targets:
        gs = guards.guards_of(f, c.bb)
        ok = False
        for sb, cond, val in gs:
            has = "distributed::splits::SplitSet::digest(" in cond and ".splits_digest" in cond and CO + "::splits_of(" in cond
            if has and ((cond.startswith("Ne(") and val is False) or (cond.startswith("Eq(") and val is True)):
                ok = True
        R.check(ok, "C14.R1", f"execute_fragment:{c.name.rsplit('::',1)[-1]}", "not dominated by the digest-mismatch refusal", f.loc(c.bb), dict(guards=[(sb, cond, str(v)) for sb, cond, v in gs]))
    # the set that is sharded is the set whose digest was compared
    sc = [c for c in targets if c.name == CO + "::shard_context"]
    for c in sc:
        set_e = k9.kexpr(f, c.args[2])
        dg = [d for d in f.calls() if d.name == "distributed::splits::SplitSet::digest"]
        same = any(k9.kexpr(f, d.args[0]) == set_e for d in dg)
        R.check(same, "C14.R1", "execute_fragment:same-set", "the split set handed to shard_context is not the one whose digest was checked", f.loc(c.bb), dict(set=set_e))
        idx_e = k9.kexpr(f, c.args[4])
        R.check(idx_e.endswith(".shard_index"), "C14.R1", "execute_fragment:shard_index-from-request", f"shard index is {idx_e}", f.loc(c.bb), nontrivial=False)

    # ---- R2: every access to Assignment.per_node reachable from shard_context must turn an out-of-range index into Err
    PN = ("per_node", "distributed::splits::Assignment")
    clo = F.closure_of([CO + "::shard_context"], depth=3)
    touching = {x.path for x in F.fns_touching(*PN)}
    sites = []
    for p in sorted(clo):
        for g in F.family(p):
            if g.path not in touching:
                continue
            for c in g.calls():
                last = c.name.rsplit("::", 1)[-1]
                if last in ("get", "index", "index_mut", "get_unchecked", "get_mut", "first", "last", "nth") and c.args and \
                        derives_from(g, [c.args[0]], lambda k, x: (k == "place" and PN in place_fields(x)) or None):
                    sites.append((g, c, last))
    R.floor("C14.R2", "indexed accesses to Assignment.per_node reachable from shard_context", len(sites), 1)
    for g, c, last in sites:
        key = f"{F.bodies[g.path]['name'] or g.path}:{last}"
        if last in ("index", "index_mut", "get_unchecked"):
            R.bad("C14.R2", key + ":unchecked-index", "assignment.per_node indexed without a range check", g.loc(c.bb)); continue
        ok, why = _checked(F, g, c, depth=0)
        R.check(ok, "C14.R2", key + "->ok_or->?", why, g.loc(c.bb), dict(site=str(c)))
        if last in ("get", "get_mut", "nth") and len(c.args) >= 2:
            # the index is a parameter/field value as received: arithmetic on it (wrap-around, clamping) turns an
            # out-of-range shard index into somebody else's shard instead of an error
            arith = []
            def src(k, x):
                return None
            seen_l, work = set(), [c.args[1]]
            defs = g.defs()
            while work:
                o_ = work.pop()
                if isinstance(o_, dict):
                    continue
                pl = op_place(o_) if (len(o_) > 1 and o_[1] == ":") else o_
                if pl is None:
                    continue
                l = place_local(pl)
                if l in seen_l:
                    continue
                seen_l.add(l)
                for bb, kind, payload in defs.get(l, []):
                    if kind == "call":
                        nm = payload.name.rsplit("::", 1)[-1]
                        if nm in ("min", "max", "clamp", "rem_euclid", "wrapping_sub", "saturating_sub", "checked_rem", "wrapping_rem"):
                            arith.append(nm)
                        elif nm in ("clone", "deref", "into", "from", "try_into", "unwrap", "branch"):
                            work.extend(payload.args)
                    else:
                        dst, rv, line = payload
                        if rv[0] == "bin":
                            arith.append(rv[1])
                        elif rv[0] in ("use",):
                            work.append(rv[1])
                        elif rv[0] in ("ref", "cast"):
                            work.append(rv[2])
            R.check(not arith, "C14.R2", key + ":index-as-received", f"the shard index is transformed ({sorted(set(arith))}) before the range-checked access: an out-of-range index silently selects another shard", g.loc(c.bb), dict())

    # ---- R3
    h = "distributed::server::fragment"
    bad = []
    n = 0
    for c in F.fam_calls(h):
        for nm in (c.name, c.callee):
            if nm in F.bodies:
                n += 1
                b = F.bodies[nm]
                if (b["self_ty"] == "execution::context::ExecutionContext" and b["name"] not in ("clone",)) or (nm.startswith(CO + "::") and not nm.startswith(CO + "::execute_fragment") and nm != CO + "::encode_ipc") or nm.startswith("physical::") or nm.startswith("optimizer::") or nm.startswith("planner::"):
                    bad.append(nm)
    ef = [c for c in F.fam_calls(h) if c.name == CO + "::execute_fragment"]
    R.floor("C14.R3", "execute_fragment calls in /fragment handler", len(ef), 1)
    R.check(not bad, "C14.R3", "fragment-handler:only-execute_fragment", f"/fragment handler reaches the engine through {sorted(set(bad))}", F.fn(h).loc(), dict(in_crate_calls=n))
    callers = {c.fn.path for c in F.callers_of(CO + "::shard_context")}
    # the initiator's own empty-table branch (scatter_sql_over_table) shards the set it enumerated itself; no other caller
    R.check(callers <= {f.path, CO + "::scatter_sql_over_table::{closure#0}"} and f.path in callers, "C14.R3", "shard_context:callers", f"shard_context called from {sorted(callers)}", "", nontrivial=False)


DEFAULTING = ("unwrap_or", "unwrap_or_default", "unwrap_or_else", "map_or", "map_or_else", "is_some", "is_none", "is_some_and")


def _checked(F, g, c, depth):
    """the Option produced by call c (in g) ends in ok_or*(..)? ; if g hands it to its caller, follow the callers inside the crate"""
    tags = result_consumers(g, c)
    meth = {t.split(":", 1)[1] for t in tags if t.startswith("method:")}
    if meth & set(DEFAULTING):
        return False, f"an out-of-range shard index is defaulted ({sorted(meth & set(DEFAULTING))}) instead of refused: the fragment would run over an empty shard"
    for u in uses_of_local(g, place_local(c.dest)):
        if u[0] == "call" and u[1].name.rsplit("::", 1)[-1] in ("ok_or_else", "ok_or"):
            if "try" in result_consumers(g, u[1]) or "returned" in result_consumers(g, u[1]):
                return True, ""
    # transparent adaptors (map/copied/cloned/as_deref...) then ok_or
    work = [place_local(c.dest)]
    seen = set()
    while work:
        l = work.pop()
        if l in seen:
            continue
        seen.add(l)
        for u in uses_of_local(g, l):
            if u[0] == "call":
                nm = u[1].name.rsplit("::", 1)[-1]
                if nm in ("ok_or_else", "ok_or"):
                    t2 = result_consumers(g, u[1])
                    if "try" in t2 or "returned" in t2:
                        return True, ""
                elif nm in ("map", "copied", "cloned", "as_deref", "as_ref", "and_then", "filter") and "Option" in u[1].self_ty:
                    work.append(place_local(u[1].dest))
                elif nm in DEFAULTING:
                    return False, f"an out-of-range shard index is defaulted ({nm}) instead of refused"
            elif u[0] == "stmt" and "|" not in u[2]:
                work.append(place_local(u[2]))
            elif u[0] == "ret" and depth < 2:
                root = F.bodies[g.path].get("root") or g.path
                callers = F.callers_of(root)
                if not callers:
                    return False, "Option escapes to unknown callers"
                for cc in callers:
                    ok, why = _checked(F, cc.fn, cc, depth + 1)
                    if not ok:
                        return False, why
                return True, ""
    return False, f"out-of-range shard index is not turned into a propagated error ({sorted(tags)})"
