"""C07 Answers do not depend on parallelism, batching or scheduling — the partition contract of physical/plan.rs."""
from qe import *

CLAIMS = ("R1 every impl PhysicalOperator::execute calls check_partition(self, partition) first (it dominates every other call) and propagates its error with `?`; "
          "R2 every execute(<constant>) on a child is either dominated by a test that the same receiver declares one partition, or has a concrete receiver type whose output_partitions is the trait default/constant 1, or is a reviewed table entry with a machine-checked premise; "
          "R3 HashJoinExec and SpillableHashJoinExec pick the probe side in output_partitions and in execute from the same fields; "
          "R4 row-routing hashers are constructed with constant seeds only.")
NOT_DECIDED = "data races / order-dependence inside operators (schedules), batch-split independence of each kernel."

TRAIT = "physical::plan::PhysicalOperator"
CHECK = "physical::plan::check_partition"


def exec_coroutine(F, im):
    mp = dict(im["methods"]).get("execute")
    if not mp or mp not in F.bodies:
        raise Broken(f"impl PhysicalOperator for {im['self_ty']} has no execute body")
    co = mp + "::{closure#0}"
    if co not in F.bodies:
        raise Broken(f"{mp}: async body closure not found")
    return F.fn(mp), F.fn(co)


def const_one(F, path):
    f = F.fn(path)
    vals = []
    for i, j, dst, rv, line in f.stmts():
        if dst == "0":
            vals.append(rv)
    return bool(vals) and all(rv[0] == "use" and isinstance(rv[1], dict) and rv[1].get("v") == 1 for rv in vals) and not f.calls()


def r1(F, R):
    ims = F.impls_of(TRAIT)
    R.floor("C07.R1", "impl PhysicalOperator (default build)", len(ims), 19)
    for im in ims:
        ty = im["self_ty"]
        outer, co = exec_coroutine(F, im)
        cps = [c for c in co.calls() if c.name == CHECK]
        if not cps:
            R.bad("C07.R1", ty, "execute never calls check_partition", co.loc(), dict(function=co.path))
            continue
        cp = cps[0]
        # arguments: (self as &dyn PhysicalOperator, partition)
        self_local = [l for l, (t, n) in enumerate(co.locals) if n in ("__self", "self")]
        part_local = [l for l, (t, n) in enumerate(co.locals) if n == "partition"]
        o0 = derives_from(co, [cp.args[0]], lambda k, x: (k == "place" and place_local(x) in self_local) or None)
        o1 = derives_from(co, [cp.args[1]], lambda k, x: (k == "place" and place_local(x) in part_local) or None, through_calls=False)
        others = [c for c in co.calls() if c is not cp and not f_dominated(co, cp.bb, c.bb)]
        tags = result_consumers(co, cp)
        ok = bool(o0) and bool(o1) and not others and "try" in tags
        why = []
        if not o0: why.append("first argument is not self")
        if not o1: why.append("second argument is not the partition parameter")
        if others: why.append("calls not dominated by it: " + ", ".join(f"{c.name}@L{c.line}" for c in others[:3]))
        if "try" not in tags: why.append(f"its Result is not propagated with `?` ({sorted(tags)})")
        R.check(ok, "C07.R1", ty, "; ".join(why), co.loc(cp.bb), dict(function=co.path, check_block=cp.bb, calls_in_body=len(co.calls()), consumers=sorted(tags)))


def f_dominated(fn, a, b):
    return a != b and fn.dominates(a, b)


def recv_root(fn, op):
    """root the receiver of a method call: follow deref/clone/borrow chains to a named local or a field place"""
    def src(kind, x):
        if kind == "place":
            if "|" in x and place_fields(x):
                return ("field", norm_place(fn, x))
            if "|" not in x and (fn.local_name(int(x)) or int(x) <= fn.raw["nargs"]):
                ds = fn.defs().get(int(x), [])
                if not ds:
                    return ("local", int(x))
        return None
    return derives_from(fn, [op], src)


def r2(F, R):
    sites = []
    total = 0
    for c in F.callers_of(TRAIT + "::execute"):
        f = c.fn
        total += 1
        if origin(f, c.args[1])[0] == "const":
            sites.append((f, c))
    R.floor("C07.R2", "PhysicalOperator::execute call sites", total, 15)
    R.floor("C07.R2", "constant-partition execute sites", len(sites), 4)
    for f, c in sites:
        key = f"{f.path}@{recv_desc(f, c)}"
        # (b) concrete receiver
        if not c.self_ty.startswith("dyn "):
            ims = [im for im in F.impls_of(TRAIT) if im["self_ty"] == c.self_ty]
            if len(ims) != 1:
                R.undecided("C07.R2", key, f"receiver type {c.self_ty} has {len(ims)} impls", f.loc(c.bb)); continue
            mp = dict(ims[0]["methods"]).get("output_partitions")
            ok = mp is None or const_one(F, mp)
            R.check(ok, "C07.R2", key, f"execute(0) on concrete {c.self_ty} whose output_partitions is not the default/constant 1", f.loc(c.bb),
                    dict(site=str(c), receiver=c.self_ty, output_partitions=mp or "trait default (1)"))
            continue
        # (a) guard: a bool switch on Eq(<output_partitions(recv)[.max(1)]>, 1) whose true edge dominates the call
        root = recv_root(f, c.args[0])
        guarded = False
        for sb in range(f.n):
            si = f.switch_info(sb)
            if not si or si[0] != "bool" or si[1] is None:
                continue
            o = origin(f, "c:" + si[1])
            if o[0] != "rv" or o[1][0] != "bin" or o[1][1] not in ("Eq", "Le", "Lt"):
                continue
            a, b = o[1][2], o[1][3]
            ca, cb = origin(f, a), origin(f, b)
            if cb[0] == "const" and op_const(cb[1]) == (2 if o[1][1] == "Lt" else 1):
                val = a
            elif ca[0] == "const" and op_const(ca[1]) == 1 and o[1][1] == "Eq":
                val = b
            else:
                continue
            w = derives_from(f, [val], lambda k, x: x if (k == "call" and x.callee == TRAIT + "::output_partitions") else None)
            if not w:
                continue
            if recv_root(f, w.args[0]) != root or root is None:
                continue
            te = si[2][True]
            if len(f.pred(te)) == 1 and f.dominates(te, c.bb):
                guarded = True
        if guarded:
            R.ok("C07.R2", key, dict(site=str(c), guard="output_partitions()==1 on the same receiver dominates the call"), f.loc(c.bb))
            continue
        # (c) reviewed table with checked premise
        if f.path.startswith("<physical::operators::vector_search::VectorSearchExec as " + TRAIT + ">::execute") and root == ("field", "__self|*|f:fallback:physical::operators::vector_search::VectorSearchExec"):
            import c43
            prem = c43.fallback_single_partition(F)
            R.check(prem[0], "C07.R2", key, "table premise failed: " + prem[1], f.loc(c.bb), dict(site=str(c), premise=prem[1]))
            continue
        R.bad("C07.R2", key, "execute(0) on a `dyn PhysicalOperator` that may declare more than one partition: only partition 0 is drained", f.loc(c.bb), dict(site=str(c), receiver_root=root))


def recv_desc(f, c):
    r = recv_root(f, c.args[0])
    if r is None:
        return "?"
    if r[0] == "field":
        return r[1].split("|")[-1].split(":")[1]
    return f.local_name(r[1]) or f"arg{r[1]}"


def run(F, R):
    R.rule("C07.R1", "K3 dominance, exhaustive over impls", "every impl PhysicalOperator::execute calls check_partition(self, partition), that call dominates every other call of the body, and its error is propagated with `?`")
    R.rule("C07.R2", "K3 guard / type fact / reviewed table", "execute(<const>) on a child must be guarded by output_partitions()==1 of the same receiver, or be on a concrete operator type declaring one partition, or be a table entry with a checked premise")
    r1(F, R)
    r2(F, R)
    import c07b
    c07b.run(F, R)
