"""C25 ORDER BY, LIMIT and OFFSET mean what they say — structural clauses."""
from qe import *
import k9
import guards
import kerr

CLAIMS = ("R1 every sort site maps direction==Desc to `descending` and nulls==NullsFirst to `nulls_first` of the arrow SortOptions (both read from the same SortExpr); "
          "R2 bind_order_by maps an absent NULLS clause to NullsLast and an absent ASC/DESC to Asc; "
          "R3 Sort+Limit is fused into a top-k sort only on the skip == 0 edge with fetch = Some, the fused operator receives that fetch, and otherwise a LimitExec is built with node.skip and node.fetch; "
          "R4 LimitState::take_from applies OFFSET before LIMIT reading both skip and fetch, and the stream stops when satisfied(); "
          "R5 LIMIT/OFFSET operand errors are propagated by bind_query, never discarded; "
          "R6 (= C08.R1) the spilled top-k honours fetch; R7 (= C08.R2) spilled merges place NULLs by the clause.")
NOT_DECIDED = "value-level ordering correctness of arrow's lexsort; ties."

SE = "planner::logical_expr::SortExpr"


def run(F, R):
    R.rule("C25.R1", "K7/K9", "SortOptions{descending <- direction==Desc, nulls_first <- nulls==NullsFirst}")
    R.rule("C25.R2", "K4", "absent NULLS clause => NullsLast; absent direction => Asc")
    R.rule("C25.R3", "K3", "top-k fusion only when skip == 0 and fetch is Some; LimitExec(input, node.skip, node.fetch) otherwise")
    R.rule("C25.R4", "K7", "take_from reads skip and fetch; unfold stops on satisfied()")
    R.rule("C25.R5", "K-ERR", "expr_to_usize results in bind_query are propagated")
    # ---- R1
    n = 0
    for path in ("physical::operators::sort::sort_batch", "physical::operators::spillable::sort_batch"):
        for g in F.family(path):
            for i, j, dst, rv, line in g.stmts():
                if rv[0] == "agg" and rv[1].endswith("::SortOptions"):
                    n += 1
                    m = dict(zip(rv[3], rv[2]))
                    d_e = k9.kexpr(g, m["descending"])
                    # descending = (direction == Desc): eq call on SortDirection with a Desc operand, not negated
                    okd = ".direction" in d_e and "Desc" in d_e and (d_e.startswith("eq(") or d_e.startswith("Eq(") or "::eq(" in d_e)
                    # nulls_first: control-derived matches!(nulls, NullsFirst) or an eq with NullsFirst
                    nf = m["nulls_first"]
                    e_n = k9.kexpr(g, nf)
                    okn = False
                    if ".nulls" in e_n and "NullsFirst" in e_n and (e_n.startswith(("eq(", "Eq(")) or "::eq(" in e_n):
                        okn = True
                    else:
                        mm = guards.resolve_matches(g, op_place(nf)) if op_place(nf) else None
                        okn = bool(mm) and ".nulls" in mm and mm.endswith("is NullsFirst)") and not mm.startswith("Not(")
                        e_n = mm or e_n
                    R.check(okd, "C25.R1", f"{path}:descending", f"`descending` is {d_e[:80]}, not direction == Desc", g.loc(i), dict(expr=d_e[:120]))
                    R.check(okn, "C25.R1", f"{path}:nulls_first", f"`nulls_first` is {str(e_n)[:80]}, not nulls == NullsFirst", g.loc(i), dict(expr=str(e_n)[:120]))
    R.floor("C25.R1", "SortOptions literals in the sort operators", n, 2)
    # ---- R2
    bo = F.one("bind_order_by", file="src/planner/binder.rs")
    fam = F.family(bo.path)
    okdef = False
    okdir = False
    for g in fam:
        for m in g.raw["matches"]:
            if m["kind"] == "match" and m["scrut"] == "std::option::Option" and len(m["arms"]) == 3:
                cls = {a["pat"].split("::")[-1]: a["cls"] for a in m["arms"]}
                none_cls = [a["cls"] for a in m["arms"] if a["pat"].endswith("None")]
                if none_cls and any("NullOrdering" in c for c in cls.values()):
                    okdef = none_cls[0].endswith("NullOrdering::NullsLast")
                    t = [a["cls"] for a in m["arms"] if "#t:true" in a["pat"]]
                    f_ = [a["cls"] for a in m["arms"] if "#t:false" in a["pat"]]
                    okdef = okdef and t and t[0].endswith("NullsFirst") and f_ and f_[0].endswith("NullsLast")
        for c in g.calls():
            if c.name.rsplit("::", 1)[-1] == "unwrap_or" and "Option<bool>" in c.self_ty + " ".join(c.argtys):
                if op_const(origin(g, c.args[1])[1]) is True if origin(g, c.args[1])[0] == "const" else False:
                    # asc.unwrap_or(true) then true => Asc
                    for sb in range(g.n):
                        si = g.switch_info(sb)
                        if si and si[0] == "bool" and si[1] and origin(g, "c:" + si[1]) == ("call", c):
                            tv = [rv for i, j, dst, rv, line in g.stmts() if i in g.reachable(si[2][True], avoid=frozenset([sb])) and rv[0] == "agg" and "SortDirection" in rv[1]]
                            okdir = bool(tv) and tv[0][1].endswith("SortDirection::Asc")
    R.check(okdef, "C25.R2", "bind_order_by:nulls-default-last", "an absent NULLS clause is not bound to NullsLast (or explicit FIRST/LAST are swapped)", bo.loc(), dict())
    R.check(okdir, "C25.R2", "bind_order_by:direction-default-asc", "an absent ASC/DESC is not bound to Asc", bo.loc(), dict())
    # ---- R3
    import c43
    f, m = c43._arm(F)
    lim = arm_for(m, "LogicalPlan::Limit")[0]
    sp = lim["span"]
    fused = [c for c in calls_in_lines(f, sp) if c.name.rsplit("::", 1)[-1] == "with_fetch"]
    lims = [c for c in calls_in_lines(f, sp) if c.name == "physical::operators::limit::LimitExec::new"]
    R.floor("C25.R3", "fused sort constructions / LimitExec in the Limit arm", len(fused) + len(lims), 3)
    for c in fused:
        gs = guards.guards_of(f, c.bb, require_err=False)
        skip0 = any(cond.startswith("Eq(") and ".skip,#0)" in cond.replace(" ", "") and val is True for sb, cond, val in gs)
        fsome = any(cond.startswith("discr(") and ".fetch" in cond and str(val) == "Some" for sb, cond, val in gs)
        fe = k9.kexpr(f, c.args[-1])
        R.check(skip0 and fsome and ".fetch@Some.0" in fe, "C25.R3", f"fusion:{c.name.rsplit('::', 2)[-2]}", "Sort+Limit fused into a top-k sort without `skip == 0` / `fetch is Some`, or the fused sort does not receive that fetch", f.loc(c.bb), dict(fetch_arg=fe[:80], guards=[(cd[:50], str(v)) for s, cd, v in gs][-4:]))
    for c in lims:
        es = [k9.kexpr(f, a) for a in c.args]
        R.check(es[1].endswith(".skip") and es[2].endswith(".fetch"), "C25.R3", "LimitExec::new(input, skip, fetch)", f"LimitExec built with ({es[1][-30:]}, {es[2][-30:]})", f.loc(c.bb), dict())
    # ---- R4
    LS = "physical::operators::limit::LimitState"
    tf = F.fn(LS + "::take_from")
    rd = {fld for bb, acc, fld, a, line in tf.field_accesses() if a == LS}
    R.check({"skip", "fetch", "skipped", "fetched"} <= rd, "C25.R4", "take_from:reads-skip-and-fetch", f"take_from reads only {sorted(rd)}", tf.loc(), dict(fields=sorted(rd)))
    # OFFSET before LIMIT: the first slice (skip) dominates the fetch computation
    sl = sorted([c for c in tf.calls() if c.name.rsplit("::", 1)[-1] == "slice"], key=lambda c: c.line)
    fetch_reads = [bb for bb, acc, fld, a, line in tf.field_accesses() if (fld, a) == ("fetch", LS)]
    skip_reads = [bb for bb, acc, fld, a, line in tf.field_accesses() if (fld, a) == ("skip", LS)]
    okorder = bool(fetch_reads) and bool(skip_reads) and all(not tf.path_exists(fb, sb) or fb == sb for fb in fetch_reads for sb in skip_reads)
    R.check(okorder, "C25.R4", "take_from:offset-before-limit", "LIMIT is applied before OFFSET", tf.loc(), dict())
    st = F.fn(LS + "::satisfied")
    e = guards.resolve_matches(st, "0") or k9.kexpr(st, "c:0")
    rs = {fld for bb, acc, fld, a, line in st.field_accesses() if a == LS}
    R.check({"fetch", "fetched"} <= rs, "C25.R4", "satisfied:fetched>=fetch", f"satisfied() reads {sorted(rs)}", st.loc(), dict(), nontrivial=False)
    # ---- R5
    bq = F.one("bind_query", file="src/planner/binder.rs")
    e2u = F.one("expr_to_usize", file="src/planner/binder.rs")
    # every use of the operand converter in the binder (the query-binding function has been split before: do not anchor on its name)
    sites = [(c.fn, c) for c in F.callers_of(e2u.path) if c.fn.file == "src/planner/binder.rs"]
    R.floor("C25.R5", "expr_to_usize calls in the binder", len(sites), 2)
    bad = []
    for g, c in sites:
        tags = result_consumers(g, c)
        okc = propagates(tags)
        if "returned" in tags and F.bodies[g.path]["kind"] == "closure":
            # a closure handed to Option::map: the Option<Result> must be transposed and ?-ed in the parent
            par = F.fn(F.bodies[g.path]["lexparent"])
            tr = [x for x in par.calls() if x.name.rsplit("::", 1)[-1] == "transpose"]
            okc = any("try" in result_consumers(par, x) for x in tr)
        if not okc:
            bad.append((g, c, tags))
    R.check(not bad, "C25.R5", "bind_query:limit-offset-errors", f"a LIMIT/OFFSET operand error is discarded ({[sorted(t) for g, c, t in bad][:2]}): the clause silently means 'no limit'", bad[0][0].loc(bad[0][1].bb) if bad else bq.loc(), dict(sites=len(sites)))
    import c08
    from report import Report
    R2 = Report("C08", F)
    c08.run(F, R2)
    for it in R2.items:
        if it["rule"] in ("C08.R1", "C08.R2"):
            rid = "C25.R6" if it["rule"] == "C08.R1" else "C25.R7"
            key = it["key"].split(":", 1)[1]
            (R.ok(rid, key, it["detail"], it["loc"]) if it["status"] == "pass" else R.bad(rid, key, it["what"], it["loc"], it["detail"]))
    R.rule("C25.R6", "= C08.R1", "spilled top-k honours fetch")
    R.rule("C25.R7", "= C08.R2", "NULL placement by clause in direction-driven comparators")
