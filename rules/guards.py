"""K3 helpers: refusal guards dominating a site."""
from qe import *
import k9


def builds_err(fn, bb):
    bl = fn.blocks[bb]
    for s in bl["s"]:
        if s[0] == "0" and s[1][0] == "agg" and s[1][1] in ("adt:std::result::Result::Err", "adt:std::option::Option::None"):
            return True
    t = bl["t"]
    if t[0] == "call" and t[3] == "0":
        nm = (t[1].get("fn") or "")
        if nm.endswith("from_residual"):
            return True
    return False


def refusal_edge(fn, start, targets, avoid=frozenset()):
    """start's reachable region avoids every target block and contains an Err/None return construction"""
    reach = fn.reachable(start, avoid=avoid)
    if reach & set(targets):
        return False
    # re-entering a loop that contains the guard (`continue`) is not a refusal: the region must not flow back to
    # any block that dominates the guard
    for g in avoid:
        if any(fn.dominates(b, g) for b in reach):
            return False
    return any(builds_err(fn, b) for b in reach)


def diverging_edge(fn, start, targets, avoid=frozenset()):
    """weaker: region avoids targets (return of anything, `continue`, ...) without re-entering the guard"""
    return not (fn.reachable(start, avoid=avoid) & set(targets))


def guards_of(fn, target_bb, require_err=True, env=None):
    """[(switch_bb, cond_expr, pass_label)] for switches dominating target_bb where exactly the pass edge can
    reach target_bb and every other edge is a refusal (Err/None return) edge."""
    out = []
    for sb in range(fn.n):
        if sb == target_bb or not fn.dominates(sb, target_bb):
            continue
        si = fn.switch_info(sb)
        if not si:
            continue
        edges = dict(si[2])
        if si[0] != "bool":
            edges["<otherwise>"] = si[3]
        av = frozenset([sb])  # a loop's next iteration re-enters the guard: that is not "reaching the target past it"
        passing = [(v, t) for v, t in edges.items() if target_bb in fn.reachable(t, avoid=av) or t == target_bb]
        failing = [(v, t) for v, t in edges.items() if (v, t) not in passing and fn.blocks[t]["t"][0] != "unreachable"]
        if len({t for v, t in passing}) != 1 or not failing:
            continue
        test = refusal_edge if require_err else diverging_edge
        if not all(test(fn, t, [target_bb], av) for v, t in failing):
            continue
        if si[0] == "bool":
            cond = k9.kexpr(fn, "c:" + si[1], env) if si[1] else "?"
            if cond.startswith("?") or cond.startswith("Not(?"):
                m = resolve_matches(fn, si[1])
                if m:
                    cond = m
        elif si[0] == "enum":
            cond = "discr(" + k9.kexpr(fn, "c:" + si[1][0], env) + ")"
        else:
            cond = "int(" + (k9.kexpr(fn, "c:" + si[1], env) if si[1] else "?") + ")"
        out.append((sb, cond, passing[0][0]))
    return out


def resolve_matches(fn, pl):
    """a bool local assigned constant true/false under an enum switch (the expansion of `matches!(place, Variant..)`,
    possibly negated): -> 'matches(<place expr> is A|B)' / 'Not(matches(..))'"""
    neg = False
    l = place_local(pl)
    ds = fn.defs().get(l, [])
    # look through a single `Not`
    if len(ds) == 1 and ds[0][1] == "stmt" and ds[0][2][1][0] == "un" and ds[0][2][1][1] == "Not":
        inner = op_place(ds[0][2][1][2])
        if inner is None:
            return None
        neg = True
        l = place_local(inner)
        ds = fn.defs().get(l, [])
    if len(ds) < 2 or not all(d[1] == "stmt" and d[2][1][0] == "use" and isinstance(d[2][1][1], dict) and isinstance(d[2][1][1].get("v"), bool) for d in ds):
        return None
    from c15 import controlling_switches
    trues = [d for d in ds if d[2][1][1]["v"] is True]
    labels, place = [], None
    for d in trues:
        cs = [(sb, val) for sb, val in controlling_switches(fn, d[0]) if fn.switch_info(sb)[0] == "enum"]
        if not cs:
            return None
        sb, val = cs[-1]
        place = k9.kexpr(fn, "c:" + fn.switch_info(sb)[1][0])
        labels.append(str(val))
    e = f"matches({place} is {'|'.join(sorted(set(labels)))})"
    return f"Not({e})" if neg else e
