"""C23 Subqueries follow SQL semantics, decorrelated or not — structural clauses."""
from qe import *
import k9

CLAIMS = ("R1 the row-by-row IN-subquery evaluator can yield UNKNOWN: some element it pushes to its Option<bool> result is None (a two-valued evaluator cannot implement `x NOT IN (.. NULL ..)`); "
          "R2 the NOT IN decorrelation does not build a bare Anti join (equality keys, filter None) without consulting nullability of the probe expression / subquery column, adding an IS NULL guard, or declining (Ok(None)); "
          "R3 (= C07.R2) uncorrelated subquery plans are drained over all their partitions; "
          "R4 a subquery that fails at run time fails the statement: in physical/operators/subquery.rs every Result of the engine's fallible layer (plan execution, scalar/EXISTS/IN evaluation, substitution) is propagated - none is turned into NULL / false / an empty set.")
NOT_DECIDED = "row-by-row vs decorrelated equality in general; EXISTS/scalar subquery values."

SQ = "physical::operators::subquery"
DC = "optimizer::rules::subquery_decorrelation"


def run(F, R):
    R.rule("C23.R1", "K4 result class", "evaluate_in_subquery pushes a None on some path")
    R.rule("C23.R2", "K3/K2 null-aware anti join", "negated IN decorrelation: Anti join only with a nullability consult / IS NULL guard / refusal")
    ev = F.fn(SQ + "::evaluate_in_subquery")
    pushes = [c for c in ev.calls() if c.name.endswith("Vec::<T, A>::push") and "Option<bool>" in " ".join(c.argtys)]
    R.floor("C23.R1", "pushes of Option<bool> in evaluate_in_subquery", len(pushes), 2)
    can_none = False
    for c in pushes:
        o = origin(ev, c.args[1])
        if o[0] == "rv" and o[1][0] == "agg" and o[1][1] == "adt:std::option::Option::None":
            can_none = True
        elif o[0] == "multi":
            for d in ev.defs()[o[1]]:
                if d[1] == "stmt" and d[2][1][0] == "agg" and d[2][1][1] == "adt:std::option::Option::None":
                    can_none = True
        elif o[0] == "call" and o[1].name.rsplit("::", 1)[-1] in ("then_some", "then", "filter"):
            can_none = True
    R.check(can_none, "C23.R1", "evaluate_in_subquery:can-yield-unknown", "every value the IN-subquery evaluator produces is Some(true/false): `x IN (S)` can never be UNKNOWN, so `x NOT IN (S)` keeps rows when S contains NULL or x is NULL", ev.loc(), dict(pushes=len(pushes)))
    dc = F.fn(DC + "::decorrelate_in_subquery")
    joins = [(i, rv) for i, j, dst, rv, line in dc.stmts() if rv[0] == "agg" and rv[1] == "adt:planner::logical_plan::JoinNode"]
    R.floor("C23.R2", "JoinNode literals in decorrelate_in_subquery", len(joins), 1)
    anti = [(i, j, dst, rv) for i, j, dst, rv, line in dc.stmts() if rv[0] == "agg" and rv[1].endswith("JoinType::Anti")]
    fam = F.family(dc.path)
    consult = any((fld, a) == ("nullable", "planner::schema::SchemaField") or fld == "nullable" for g in fam for bb, acc, fld, a, line in g.field_accesses()) or \
        any(rv[0] == "agg" and ("UnaryOp::IsNull" in rv[1] or "UnaryOp::IsNotNull" in rv[1]) for g in fam for i, j, dst, rv, line in g.stmts())
    # refusal on the negated edge: an Ok(None) return controlled by `negated`
    refuses = False
    from c15 import controlling_switches
    for i, j, dst, rv, line in dc.stmts():
        if dst == "0" and rv[0] == "agg" and rv[1] == "adt:std::result::Result::Ok":
            o = origin(dc, rv[2][0])
            if o[0] == "rv" and o[1][0] == "agg" and o[1][1] == "adt:std::option::Option::None":
                for sb, val in controlling_switches(dc, i):
                    si = dc.switch_info(sb)
                    if si[0] == "bool" and si[1] and origin(dc, "c:" + si[1]) == ("arg", 4):
                        refuses = True
    bare = False
    for i, rv in joins:
        m = dict(zip(rv[3], rv[2]))
        filt = origin(dc, m["filter"])
        no_filter = filt[0] == "rv" and filt[1][0] == "agg" and filt[1][1] == "adt:std::option::Option::None"
        if anti and no_filter and not consult and not refuses:
            bare = True
    R.check(not bare, "C23.R2", "decorrelate_in_subquery:null-unaware-anti-join", "`x NOT IN (subquery)` is rewritten to a bare Anti join on equality (filter None, no nullability consult, no refusal): it keeps rows when the subquery yields a NULL and keeps rows whose x is NULL (standard answer: none)", dc.loc(anti[0][0]) if anti else dc.loc(), dict(anti_variants=len(anti), nullability_consulted=consult, refuses_on_negated=refuses))
    rs = F.fn(SQ + "::run_subquery_blocking")
    drains = any(c.name.endswith("collect_input_partitions_concurrently") for c in F.fam_calls(rs.path))
    R.rule("C23.R3", "= C07.R2", "subquery plans are drained over every partition")
    R.check(drains, "C23.R3", "run_subquery_blocking:drains-all-partitions", "an uncorrelated subquery's plan is driven for partition 0 only", rs.loc(), dict())
    # ---- R4
    import kerr
    R.rule("C23.R4", "K-ERR", "no swallowed error in subquery evaluation")
    n4 = 0
    for g in F.in_file("src/physical/operators/subquery.rs"):
        if F.bodies[g.path]["kind"] not in ("fn", "method", "closure", "coroutine"):
            continue
        for c, tags, ok in kerr.audit(F, g):
            n4 += 1
            root = F.bodies[g.path].get("root") or g.path
            key = f"{root.rsplit('::', 1)[-1]}:{c.name.rsplit('::', 1)[-1]}"
            if not ok and tags == {"method:ok"}:
                # `fallible().ok()?` inside a function (or closure) that returns Option: the failure becomes the function's
                # own None ("cannot answer"), which its callers must handle - it is not turned into a value
                for u in uses_of_local(g, place_local(c.dest)):
                    if u[0] == "call" and u[1].name.rsplit("::", 1)[-1] == "ok" and g.local_ty(0).startswith("std::option::Option<"):
                        t2 = result_consumers(g, u[1])
                        if "try" in t2 and propagates(t2):
                            ok = True
            if ok:
                R.ok("C23.R4", key + f"#{n4}", dict(consumers=sorted(tags)), g.loc(c.bb), nontrivial=False)
            else:
                R.bad("C23.R4", key, f"the error of {c.name.rsplit('::', 1)[-1]}() is swallowed ({sorted(tags)}): a subquery that fails for some outer row (e.g. a scalar subquery returning two rows) silently contributes NULL / false instead of failing the statement", g.loc(c.bb), dict(consumers=sorted(tags)))
    R.floor("C23.R4", "fallible calls audited in subquery.rs", n4, 25)
