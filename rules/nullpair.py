"""Abstract evaluation of a row comparator over the NULL-ness of its two operands.

For a function `cmp(a, row_a, b, row_b) -> bool` the CFG is walked once per (a_is_null, b_is_null) in {T,F}^2: a bool switch whose
subject is the result of is_null/is_valid on an operand derived from parameter `pa` / `pb` follows the matching edge; the walk
stops at the first constant stored into the return place ("true"/"false"), or at any other decision ("V": the answer depends on
values).  Used to tell join semantics (NULL never matches: (T,T) -> false) from grouping semantics (NULLs form one group:
(T,T) -> true, (T,F)/(F,T) -> false)."""
from qe import *


def _param_of(g, op, params):
    hit = set()
    def src(k, x):
        if k == "place":
            l = place_local(x)
            if l in params:
                hit.add(l)
        return None
    derives_from(g, [op], src, through_calls=True)
    return hit


def behaviour(F, path, pa=1, pb=3):
    """pa/pb: parameter numbers of the two array operands; the row operands are assumed to follow them (pa+1, pb+1) and are
    what tells the two sides apart when the arrays come out of one zipped iterator.  A loop over key columns is evaluated
    for ONE column (the iterator yields Some once, then None)."""
    g = F.fn(path)
    out = {}
    for an in (True, False):
        for bn in (True, False):
            out[(an, bn)] = _walk(g, an, bn, pa, pb)
    return out


def _side(g, c, pa, pb):
    """which operand an is_null/is_valid call tests: by its row argument first, by its receiver otherwise"""
    if len(c.args) >= 2:
        ps = _param_of(g, c.args[1], {pa + 1, pb + 1})
        if len(ps) == 1:
            return pa if (pa + 1) in ps else pb
    ps = _param_of(g, c.args[0], {pa, pb})
    if len(ps) == 1:
        return pa if pa in ps else pb
    return None


def _walk(g, an, bn, pa, pb, limit=400):
    bb, steps = 0, 0
    known = {}   # place string (local or local|f:n:()) -> bool
    visits = {}
    def val(op):
        if isinstance(op, dict):
            return op.get("v") if isinstance(op.get("v"), bool) else None
        q = op_place(op) if (len(op) > 1 and op[1] == ":") else op
        return known.get(q) if q else None
    while steps < limit:
        steps += 1
        blk = g.blocks[bb]
        for st in blk["s"]:
            dst, rv = st[0], st[1]
            v = None
            if rv[0] == "use":
                v = val(rv[1])
            elif rv[0] == "un" and rv[1] == "Not":
                w = val(rv[2])
                v = None if w is None else (not w)
            elif rv[0] == "bin" and rv[1] in ("BitOr", "BitAnd"):
                x, y = val(rv[2]), val(rv[3])
                if x is not None and y is not None:
                    v = (x or y) if rv[1] == "BitOr" else (x and y)
            elif rv[0] == "agg" and rv[1] == "tuple":
                for n_, o_ in enumerate(rv[2]):
                    w = val(o_)
                    if w is not None:
                        known[f"{dst}|f:{n_}:()"] = w
                continue
            if dst == "0":
                if v is not None:
                    return "true" if v else "false"
                if rv[0] == "use":
                    return "V"
            if v is not None:
                known[dst] = v
            else:
                known.pop(dst, None)
        t = blk["t"]
        if t[0] == "call":
            c = [x for x in g.calls() if x.bb == bb]
            c = c[0] if c else None
            if c is None:
                return "V"
            last = c.name.rsplit("::", 1)[-1]
            if last in ("is_null", "is_valid") and c.args and c.dest:
                sd = _side(g, c, pa, pb)
                if sd is not None:
                    isn = an if sd == pa else bn
                    known[c.dest] = isn if last == "is_null" else (not isn)
                else:
                    known.pop(c.dest, None)
            elif c.dest:
                known.pop(c.dest, None)
                if c.dest == "0":
                    return "V"
            if c.target is None:
                return "V"
            bb = c.target
            continue
        if t[0] == "goto":
            bb = t[1]
            continue
        if t[0] == "drop":
            bb = t[2]
            continue
        if t[0] == "ret":
            return "V"
        if t[0] == "switch":
            si = g.switch_info(bb)
            if si and si[0] == "bool" and si[1]:
                w = known.get(si[1])
                if w is not None:
                    bb = si[2][w] if w in si[2] else si[3]
                    continue
                return "V"
            if si and si[0] == "enum" and si[1][1] == "std::option::Option" and "Some" in si[2]:
                o = origin(g, "c:" + si[1][0])
                if o[0] == "call" and o[1].name.rsplit("::", 1)[-1] == "next":
                    visits[bb] = visits.get(bb, 0) + 1
                    bb = si[2]["Some"] if visits[bb] == 1 else si[2].get("None", si[3])
                    continue
            return "V"
        succ = g.succ(bb)
        if len(succ) == 1:
            bb = succ[0]
            continue
        return "V"
    return "V"
