"""Abstract evaluation of a row comparator over the NULL-ness of its two operands.

For a function `cmp(a, row_a, b, row_b) -> bool` the CFG is walked once per (a_is_null, b_is_null) in {T,F}^2: a bool switch whose
subject is the result of is_null/is_valid on an operand derived from parameter `pa` / `pb` follows the matching edge; the walk
stops at the first constant stored into the return place ("true"/"false"), or at any other decision ("V": the answer depends on
values).  Used to tell join semantics (NULL never matches: (T,T) -> false) from grouping semantics (NULLs form one group:
(T,T) -> true, (T,F)/(F,T) -> false)."""
from qe import *


def _param_of(g, op, params):
    hit = set()
    def src(k, x):
        if k == "place":
            l = place_local(x)
            if l in params:
                hit.add(l)
        return None
    derives_from(g, [op], src, through_calls=True)
    return hit


def behaviour(F, path, pa=1, pb=3):
    g = F.fn(path)
    out = {}
    for an in (True, False):
        for bn in (True, False):
            out[(an, bn)] = _walk(g, an, bn, pa, pb)
    return out


def _walk(g, an, bn, pa, pb, limit=200):
    bb, steps = 0, 0
    known = {}   # local -> bool
    while steps < limit:
        steps += 1
        blk = g.blocks[bb]
        for st in blk["s"]:
            dst, rv = st[0], st[1]
            if dst == "0" and rv[0] == "use" and isinstance(rv[1], dict) and isinstance(rv[1].get("v"), bool):
                return "true" if rv[1]["v"] else "false"
            if "|" not in dst and rv[0] == "use" and not isinstance(rv[1], dict):
                q = op_place(rv[1])
                if q and "|" not in q and place_local(q) in known:
                    known[place_local(dst)] = known[place_local(q)]
            if "|" not in dst and rv[0] == "un" and rv[1] == "Not" and not isinstance(rv[2], dict):
                q = op_place(rv[2])
                if q and "|" not in q and place_local(q) in known:
                    known[place_local(dst)] = not known[place_local(q)]
            if dst == "0" and rv[0] == "use" and not isinstance(rv[1], dict):
                q = op_place(rv[1])
                if q and "|" not in q and place_local(q) in known:
                    return "true" if known[place_local(q)] else "false"
        t = blk["t"]
        if t[0] == "call":
            c = [x for x in g.calls() if x.bb == bb]
            c = c[0] if c else None
            if c is not None:
                last = c.name.rsplit("::", 1)[-1]
                if last in ("is_null", "is_valid") and c.args and c.dest and "|" not in c.dest:
                    ps = _param_of(g, c.args[0], {pa, pb})
                    if len(ps) == 1:
                        isn = an if pa in ps else bn
                        known[place_local(c.dest)] = isn if last == "is_null" else (not isn)
                if c.target is None:
                    return "V"
                bb = c.target
                continue
            return "V"
        if t[0] == "goto":
            bb = t[1]
            continue
        if t[0] == "drop":
            bb = t[2]
            continue
        if t[0] == "ret":
            return "V"
        if t[0] == "switch":
            si = g.switch_info(bb)
            if si and si[0] == "bool" and si[1] and "|" not in si[1] and place_local(si[1]) in known:
                bb = si[2][known[place_local(si[1])]]
                continue
            return "V"
        # assert / other terminators: follow the success edge when there is exactly one successor
        succ = g.succ(bb)
        if len(succ) == 1:
            bb = succ[0]
            continue
        return "V"
    return "V"
