"""C40 CLI output formats round-trip the result — structural clauses."""
from qe import *
import k9

CLAIMS = ("R1 the CSV quoting function (the one that doubles quotes) is triggered by at least the RFC 4180 set {comma, quote, LF, CR}, and every string write_csv joins with ',' — header cells and data cells — is produced through it; "
          "R2 in the JSON writer every string-typed cell (Utf8, LargeUtf8 and the display fallback) and every object key is produced by a serde_json serializer (or a helper that is), and the float arms do not emit a non-finite value bare (they test finiteness or serialise through serde_json).")
NOT_DECIDED = "that a reader recovers the exact displayed cell (NULL vs empty string in CSV is ambiguous by format); number formatting."

O = "cli::output"
FMT = O + "::OutputFormatter"


def quoting_fns(F):
    """functions in cli/output.rs that double a quote: replace('"', "\"\"")"""
    out = []
    for g in F.in_file("src/cli/output.rs"):
        roles = [(l[0], l[1]) for l in g.raw["lits"]]
        if any(v == 's:""' and "replace" in r for v, r in roles):
            out.append(g)
    return out


def is_serde(c):
    return any("serde_json::" in t for t in [c.name, c.callee, c.self_ty] + list(c.argtys))


def fn_uses_serde(F, path):
    return any(is_serde(x) for x in F.fam_calls(F.bodies[path].get("root") or path))


def reaches(F, start_paths, target_paths, depth=3):
    seen = set()
    work = [(p, 0) for p in start_paths]
    while work:
        p, d = work.pop()
        if p in target_paths:
            return True
        if p in seen or d > depth:
            continue
        seen.add(p)
        for c in F.fam_calls(p):
            for nm in (c.name, c.callee):
                if nm in F.bodies:
                    work.append((F.bodies[nm].get("root") or nm, d + 1))
    return False


def returns_quoted(F, path, qpaths, depth=0):
    """every value the function can return is the result of the quoting function (directly or through a callee of this
    module for which the same holds) or an empty string (the NULL cell): must-pass-through, not may-reach"""
    if depth > 4 or path not in F.bodies:
        return False
    g = F.fn(path)
    defs = g.defs()
    seen, work = set(), ["0"]
    while work:
        pl = work.pop()
        l = place_local(pl)
        if l in seen:
            continue
        seen.add(l)
        ds = defs.get(l, [])
        if not ds and l != 0:
            return False     # an argument or capture returned as it came
        for bb, kind, payload in ds:
            if kind == "call":
                nm = payload.name
                if nm in qpaths or (F.bodies.get(nm, {}).get("root") in qpaths):
                    continue
                last = nm.rsplit("::", 1)[-1]
                if last == "new" and "String" in (payload.self_ty or nm):
                    continue
                if nm in F.bodies and nm.startswith(O + "::") and returns_quoted(F, nm, qpaths, depth + 1):
                    continue
                return False
            dst, rv, line = payload
            if rv[0] == "use":
                if isinstance(rv[1], dict):
                    continue
                work.append(op_place(rv[1]))
            elif rv[0] in ("ref", "cast"):
                work.append(rv[2])
            else:
                return False
    return True


def run(F, R):
    R.rule("C40.R1", "K6 table agreement + provenance", "CSV trigger set ⊇ {',', '\"', LF, CR}; header and data cells both go through the quoting function")
    R.rule("C40.R2", "K4 arm/callee", "JSON string arms + keys via serde_json; float arms guard non-finite values")
    qs = quoting_fns(F)
    R.floor("C40.R1", "CSV quoting functions", len(qs), 1)
    need = {"c:,", 'c:"', "c:\n", "c:\r"}
    for g in qs:
        trig = {l[0] for l in g.raw["lits"] if "contains" in l[1] or "find" in l[1] or "pat" == l[1]}
        # also &[char] / closure forms
        trig |= {l[0] for l in g.raw["lits"] if l[0].startswith("c:") and ("matches" in l[1] or l[1] == "")}
        miss = sorted(repr(x[2:]) for x in need - trig)
        R.check(not miss, "C40.R1", f"{g.path}:trigger-set", f"CSV quoting is not triggered by {miss}: such a cell is written bare and does not parse back under RFC 4180", g.loc(), dict(trigger_chars=sorted(repr(x) for x in trig)))
    qpaths = {F.bodies[g.path].get("root") or g.path for g in qs}
    wc = F.one("write_csv", file="src/cli/output.rs")
    joins = [c for c in wc.calls() if c.name.rsplit("::", 1)[-1] == "join"]
    R.floor("C40.R1", "join(\",\") sites in write_csv", len(joins), 2)
    for n, c in enumerate(sorted(joins, key=lambda c: (c.line, c.bb))):
        # elements: the receiver derives from collect(map(.., closure)); the closure must reach a quoting fn
        mp = derives_from(wc, [c.args[0]], lambda k, x: x if (k == "call" and x.name.rsplit("::", 1)[-1] == "map") else None)
        ok = False
        if mp:
            o = origin(wc, mp.args[1])
            if o[0] == "rv" and o[1][0] == "agg" and o[1][1].startswith("closure:"):
                ok = reaches(F, [o[1][1][8:]], qpaths) and returns_quoted(F, o[1][1][8:], qpaths)
        R.check(ok, "C40.R1", f"write_csv:join#{n}:cells-quoted", "cells joined with ',' are not produced by the CSV quoting function (a header or value containing a delimiter breaks the row)", wc.loc(c.bb), dict(map_site=str(mp)))

    # ---- R2
    fj = F.one("format_json_value", file="src/cli/output.rs")
    ms = find_match(fj, "arrow_schema::DataType", min_arms=5) or find_match(fj, "arrow::datatypes::DataType", min_arms=5)
    if len(ms) != 1:
        raise Broken(f"format_json_value: {len(ms)} matches on DataType")
    m = ms[0]

    def serde_in(span):
        for c in calls_in_lines(fj, span):
            for nm in (c.name, c.callee):
                if is_serde(c):
                    return True
                if nm in F.bodies and fn_uses_serde(F, nm):
                    return True
        return False

    def finite_guard_in(span):
        for c in calls_in_lines(fj, span):
            for nm in (c.name, c.callee):
                last = nm.rsplit("::", 1)[-1]
                if last in ("is_finite", "is_nan", "is_infinite", "from_f64"):
                    return True
                if nm in F.bodies and any(x.name.rsplit("::", 1)[-1] in ("is_finite", "is_nan", "is_infinite", "from_f64") for x in F.fam_calls(F.bodies[nm].get("root") or nm)):
                    return True
        return False

    arms = m["arms"]
    n_str = 0
    for a in arms:
        heads = [pat_head(x).rsplit("::", 1)[-1] for x in pat_alternatives(a["pat"])]
        if any(h in ("Utf8", "LargeUtf8", "Utf8View") for h in heads) or a["pat"].strip() in ("_",) or a["pat"].startswith("$"):
            n_str += 1
            nm = "fallback" if a["pat"].strip() == "_" or a["pat"].startswith("$") else "+".join(heads)
            R.check(serde_in(a["span"]), "C40.R2", f"json-arm:{nm}", "a string cell is written with hand-rolled escaping (control characters are not escaped: the output is not valid JSON)", f"{fj.file}:{a['span'][0]}", dict(arm=a["pat"][:60]))
        if any(h in ("Float32", "Float64", "Float16") for h in heads):
            nm = "+".join(heads)
            R.check(finite_guard_in(a["span"]) or serde_in(a["span"]), "C40.R2", f"json-arm:{nm}", "NaN/inf are written bare, which is not JSON", f"{fj.file}:{a['span'][0]}", dict(arm=a["pat"][:60]))
    R.floor("C40.R2", "string-typed JSON arms", n_str, 3)
    wj = F.one("write_json", file="src/cli/output.rs")
    # keys: the field name written into the object must pass through serde_json (directly or via helper)
    keyed = False
    for c in wj.calls():
        for nm in (c.name, c.callee):
            if nm in F.bodies and nm != fj.path and F.bodies[nm]["file"] == "src/cli/output.rs":
                if fn_uses_serde(F, nm):
                    if any(derives_from(wj, [a], lambda k, x: (k == "place" and "field_name" == (wj.local_name(place_local(x)) or "")) or None) for a in c.args):
                        keyed = True
            if is_serde(c):
                keyed = keyed or any(derives_from(wj, [a], lambda k, x: (k == "place" and "field_name" == (wj.local_name(place_local(x)) or "")) or None) for a in c.args)
    R.check(keyed, "C40.R2", "json-keys-serialised", "object keys are written between bare quotes (a column name containing a quote or backslash yields invalid JSON)", wj.loc(), dict())
