"""C38 Vector distance functions compute their formulas — the dimension, NULL and addressing clauses."""
from qe import *
import k9
import guards

CLAIMS = ("R1 in distance_column every kernel call (l2_sq/dot/norm on a row) is dominated by the `dim != query.len() => Err` refusal and the `flat.len() < n*dim => Err` refusal; in distance_columns by `ldim != rdim => Err`; "
          "R2 a NULL vector row yields NULL (None) without calling a kernel, and every other row yields Some; "
          "R3 row slices are `flat[i*dim .. (i+1)*dim]` over the values buffer obtained through as_f32_vectors/as_f64_vectors from FixedSizeListArray::values() (offset-adjusted by Arrow), never a raw buffer with a hand-computed offset; "
          "R4 each DistanceKind arm uses its formula's kernels: L2 -> sqrt(l2_sq), Dot -> dot, Cosine family -> dot/(norm*norm) with the zero-denominator guard, and Cosine = 1 - similarity.")
CLAIMS = CLAIMS + ("; R9 each kernel visits every element once: a slice obtained from chunks_exact(..).remainder() is traversed by exactly one consumer (one further chunks_exact, or one iter/zip) - a remainder traversed twice is summed twice.",)[0]
NOT_DECIDED = "numeric values within tolerance; accumulation order inside the kernels."

V = "physical::vector"
KERN = (V + "::l2_sq", V + "::dot", V + "::norm")


def run(F, R):
    R.rule("C38.R1", "K3", "dimension/buffer refusals dominate the per-row kernels")
    R.rule("C38.R2", "K4", "is_null row -> None, no kernel; else Some")
    R.rule("C38.R3", "K1/K5", "row slice = flat[i*dim..(i+1)*dim] of values() via as_f*_vectors")
    R.rule("C38.R4", "K4 arm/callee", "per-metric kernels")
    for fname, need in (("distance_column", ["dim-vs-query", "buffer-length"]), ("distance_columns", ["ldim-vs-rdim"])):
        f = F.fn(V + "::" + fname)
        ks = [c for c in f.calls() if c.name in KERN]
        # row-level kernels: those whose first argument derives from an Index (slice) call
        rowk = [c for c in ks if derives_from(f, [c.args[0]], lambda k, x: x if (k == "call" and x.name.rsplit("::", 1)[-1] == "index") else None)]
        R.floor("C38.R1", f"row-level kernel calls in {fname}", len(rowk), 3)
        bad = []
        for c in rowk:
            gs = guards.guards_of(f, c.bb)
            conds = [(cd, v) for sb, cd, v in gs]
            if fname == "distance_column":
                d1 = any(cd.startswith("Ne(") and "value_length(" in cd and "len(" in cd and v is False for cd, v in conds)
                d2 = any(cd.startswith("Lt(len(") and "Mul" in cd and v is False for cd, v in conds)
                if not (d1 and d2):
                    bad.append((c, d1, d2))
            else:
                d1 = any(cd.startswith("Ne(") and cd.count("as_f32_vectors(") >= 2 and v is False for cd, v in conds)
                if not d1:
                    bad.append((c, d1, None))
        R.check(not bad, "C38.R1", f"{fname}:refusals-dominate-kernels", f"a distance kernel runs on a row without the dimension/buffer refusals ({[(c.name.rsplit('::',1)[-1], a, b) for c, a, b in bad][:3]}): mismatched dimensions read past the row or panic", f.loc(bad[0][0].bb) if bad else f.loc(), dict(kernels=len(rowk)))
        # ---- R2
        isn = [c for c in f.calls() if c.name.rsplit("::", 1)[-1] == "is_null"]
        pushes = [c for c in f.calls() if c.name.endswith("Vec::<T, A>::push") and "Option<f64>" in " ".join(c.argtys)]
        none_push = [c for c in pushes if origin(f, c.args[1])[0] == "rv" and origin(f, c.args[1])[1][1] == "adt:std::option::Option::None"]
        some_push = [c for c in pushes if origin(f, c.args[1])[0] == "rv" and origin(f, c.args[1])[1][1] == "adt:std::option::Option::Some"]
        ok2 = bool(isn) and len(none_push) == 1 and len(some_push) == 1
        if ok2:
            np_, sp_ = none_push[0], some_push[0]
            # the None push is reached only on the is_null==true side; no kernel between the null test and it
            on_null = False
            kb = frozenset(c.bb for c in rowk)
            for sb in range(f.n):
                si = f.switch_info(sb)
                if si and si[0] == "bool" and si[1]:
                    o = origin(f, "c:" + si[1])
                    if o[0] == "call" and o[1] in isn and np_.bb in f.reachable(si[2][True], avoid=kb | frozenset([sb])):
                        on_null = True
            kernels_before_none = [c for c in rowk if f.path_exists(c.bb, np_.bb) and not f.path_exists(np_.bb, c.bb)]
            # every row kernel is on the non-null side
            gs_k = [guards.guards_of(f, c.bb, require_err=False) for c in rowk]
            non_null_side = all(any("is_null(" in cd and v is False for sb, cd, v in g) for g in gs_k)
            ok2 = on_null and non_null_side
        R.check(ok2, "C38.R2", f"{fname}:null-row->None", "a NULL vector row is not mapped to NULL before the kernels run (or a non-NULL row can produce NULL)", f.loc(), dict(null_tests=len(isn), none_pushes=len(none_push), some_pushes=len(some_push)))
        # ---- R3
        idx = [c for c in f.calls() if c.name.rsplit("::", 1)[-1] == "index" and "[f32]" in c.self_ty + " ".join(c.argtys)]
        ok3 = bool(idx)
        det = []
        for c in idx:
            e_buf = k9.kexpr(f, c.args[0])
            e_rng = k9.kexpr(f, c.args[1])
            via = bool(derives_from(f, [c.args[0]], lambda k, x: x if (k == "call" and x.name in (V + "::as_f32_vectors", V + "::as_f64_vectors")) else None))
            # Range{ i*dim , (i+1)*dim }
            shape = e_rng.startswith("std::ops::Range{Mul") and "Add" in e_rng and e_rng.count("Mul") >= 2
            det.append((e_buf[:50], e_rng[:70]))
            ok3 = ok3 and via and shape
        R.check(ok3, "C38.R3", f"{fname}:row-slice-addressing", f"row slices are not flat[i*dim..(i+1)*dim] over as_f*_vectors(): {det[:2]}", f.loc(), dict(slices=det[:3]))
        # ---- R4
        ms = [m for m in f.raw["matches"] if m["kind"] == "match" and m["scrut"].endswith("DistanceKind") and len(m["arms"]) >= 3]
        okf = False
        if ms:
            m = ms[-1]
            want = {"L2": {"l2_sq", "sqrt"}, "Dot": {"dot"}, "Cosine": {"dot", "norm"}}
            okf = True
            for a in m["arms"]:
                heads = {pat_head(x).rsplit("::", 1)[-1] for x in pat_alternatives(a["pat"])}
                names = {c.name.rsplit("::", 1)[-1] for c in calls_in_lines(f, a["span"])}
                for h in heads:
                    key = "Cosine" if h.startswith("Cosine") else h
                    if key in want:
                        kern_in_arm = names & {"l2_sq", "dot", "norm", "sqrt"}
                        if fname == "distance_column" and key == "Cosine":
                            okf = okf and {"dot", "norm"} <= kern_in_arm and "l2_sq" not in kern_in_arm
                        else:
                            okf = okf and want[key] <= kern_in_arm and not (kern_in_arm - want[key] - {"sqrt"})
        R.check(okf, "C38.R4", f"{fname}:per-metric-kernels", "a DistanceKind arm does not call its formula's kernels (L2: sqrt(l2_sq); Dot: dot; Cosine*: dot and norm)", f.loc(), dict())
    # cosine = 1 - sim, similarity = sim: the Sub(1.0, sim) is controlled by kind == Cosine
    for fname in ("distance_column", "distance_columns"):
        f = F.fn(V + "::" + fname)
        subs = [(i, rv) for i, j, dst, rv, line in f.stmts() if rv[0] == "bin" and rv[1] == "Sub" and rv[4] == "f64" and isinstance(rv[2], dict) and "1" in str(rv[2].get("p", rv[2].get("v")))]
        from c15 import controlling_switches
        okc = False
        for i, rv in subs:
            for sb, val in controlling_switches(f, i):
                si = f.switch_info(sb)
                if si[0] == "bool" and si[1]:
                    e = k9.kexpr(f, "c:" + si[1])
                    if "DistanceKind" in e and "Cosine" in e and "Similarity" not in e and val is True:
                        okc = True
        R.check(okc and len(subs) == 1, "C38.R4", f"{fname}:cosine=1-similarity", "`1 - similarity` is not applied exactly for DistanceKind::Cosine", f.loc(), dict(subs=len(subs)))
    single_visit(F, R)

def single_visit(F, R):
    R.rule("C38.R9", "K2 use count", "a remainder() slice in a distance kernel has exactly one traversing consumer")
    TRAV = ("chunks_exact", "chunks", "iter", "into_iter", "zip", "windows", "iter_mut")
    n = 0
    for g in F.in_file("src/physical/vector.rs"):
        if F.bodies[g.path]["kind"] not in ("fn", "method"):
            continue
        rems = [c for c in g.calls() if c.name.rsplit("::", 1)[-1] == "remainder"]
        for c in rems:
            n += 1
            seen, work, trav = set(), [place_local(c.dest)], []
            while work:
                l = work.pop()
                if l in seen:
                    continue
                seen.add(l)
                for u in uses_of_local(g, l):
                    if u[0] == "stmt":
                        dst, rv = u[2], u[3]
                        if rv[0] in ("use", "ref", "cast") and "|" not in dst:
                            work.append(place_local(dst))
                        elif rv[0] == "agg" and rv[1] == "tuple" and "|" not in dst:
                            # follow only the component this slice went into
                            for k_, o_ in enumerate(rv[2]):
                                q_ = op_place(o_) if not isinstance(o_, dict) else None
                                if q_ and "|" not in q_ and place_local(q_) == l:
                                    want = f"{dst}|f:{k_}:()"
                                    for i2, j2, dst2, rv2, line2 in g.stmts():
                                        if rv2[0] == "use" and not isinstance(rv2[1], dict) and op_place(rv2[1]) == want and "|" not in dst2:
                                            work.append(place_local(dst2))
                    elif u[0] == "call":
                        last = u[1].name.rsplit("::", 1)[-1]
                        if last in TRAV:
                            trav.append((u[1].bb, last))
                        elif last in ("deref", "as_ref", "borrow", "clone") and u[1].dest and "|" not in u[1].dest:
                            work.append(place_local(u[1].dest))
            trav = sorted(set(trav))
            R.check(len(trav) <= 1, "C38.R9", f"{F.bodies[g.path]['name']}:remainder#{_rn(g, c)}:single-traversal", f"the tail slice left by chunks_exact is traversed {len(trav)} times ({[t for b_, t in trav]}): its elements enter the sum more than once, so the distance is wrong whenever the tail is non-empty (dimension not a multiple of the block)", g.loc(c.bb), dict(consumers=[t for b_, t in trav]))
    R.floor("C38.R9", "remainder() slices in vector kernels", n, 4)


def _rn(g, c):
    same = sorted([x for x in g.calls() if x.name.rsplit("::", 1)[-1] == "remainder"], key=lambda x: (x.line, x.bb))
    return same.index(c)
