"""C04 Storage layout and fast-path choice never change an answer — the HAVING hand-over clauses."""
from qe import *
import k9
import guards

CLAIMS = ("R1 a HAVING predicate handed to an aggregate operator (post_filter) is applied on every successful path of that operator: in SpillableHashAggregateExec::execute and MorselAggregateExec::execute every Ok return either reads self.post_filter (directly or through a self method / helper that receives it) or returns a provably empty result; "
          "R2 the planner either hands the pending HAVING predicate to the aggregate it lowers or plans a FilterExec for it, never neither: lower_aggregate_cpu takes the pending slot before planning its input, every operator it returns receives with_post_filter(..) or is wrapped by create_filter(..) when the slot was Some, and the Filter-over-Aggregate arm returns the bare aggregate only when the slot was consumed; "
          "R3 capability refusals inside layout-only fast paths are reported: an 'unsupported'-class error constructed inside the morsel/streaming fast paths means the same query succeeds on an in-memory layout and fails on Parquet.")
CLAIMS = CLAIMS + ("; R4 (= C05.R8) the 'every row matches' proof that lets the Parquet aggregation path drop its decoder row filter evaluates literal-first comparisons with the flipped operator.",)[0]
NOT_DECIDED = "that the eager/streaming/prescan/morsel paths compute the same rows (value equality); the delim-state lowering path (FlattenDependentJoin is disabled, so it is unreachable from SQL today)."

SP = "physical::operators::spillable::SpillableHashAggregateExec"
MA = "physical::operators::morsel_agg::MorselAggregateExec"
TRAIT = "physical::plan::PhysicalOperator"
PP = "physical::planner::PhysicalPlanner"


def reads_pf(F, path, ty, depth=3, seen=None):
    seen = seen if seen is not None else set()
    root = F.bodies[path].get("root") or path
    if root in seen or depth < 0:
        return False
    seen.add(root)
    for g in F.family(root):
        if any((fld, a) == ("post_filter", ty) for bb, acc, fld, a, line in g.field_accesses()):
            return True
        for c in g.calls():
            if c.name in F.bodies and F.bodies[c.name]["self_ty"] == ty and reads_pf(F, c.name, ty, depth - 1, seen):
                return True
    return False


def run(F, R):
    R.rule("C04.R1", "K7 field implication on paths", "every Ok return of the aggregate operators' execute applies post_filter or is empty")
    R.rule("C04.R2", "K3", "pending HAVING slot: taken up front, then with_post_filter or create_filter on every path")
    R.rule("C04.R3", "K4", "capability refusals inside layout-only fast paths")
    for ty in (SP, MA):
        ex = F.fn(f"<{ty} as {TRAIT}>::execute::{{closure#0}}")
        B = {bb for bb, acc, fld, a, line in ex.field_accesses() if (fld, a) == ("post_filter", ty)}
        for c in ex.calls():
            if c.name in F.bodies and F.bodies[c.name]["self_ty"] == ty and reads_pf(F, c.name, ty):
                B.add(c.bb)
        oks = ok_value_blocks(ex)
        R.floor("C04.R1", f"Ok returns in {ty.rsplit('::', 1)[-1]}::execute", len(oks), 2)
        for n, r in enumerate(sorted(oks, key=lambda b: ex.blocks[b]["l"])):
            free = r in ex.reachable(0, avoid=frozenset(B))
            empty = False
            for i, j, dst, rv, line in ex.stmts():
                if i == r and rv[0] == "agg" and rv[1] == "adt:std::result::Result::Ok":
                    e = k9.kexpr(ex, rv[2][0])
                    empty = "new_empty(" in e or "stream::empty" in e or "empty(" in e
            if free and not empty:
                gs = guards.guards_of(ex, r, require_err=False)
                empty = any(cd.startswith("is_empty(") and v is True for sb, cd, v in gs)
            R.check((not free) or empty, "C04.R1", f"{ty.rsplit('::', 1)[-1]}:return#{n}", "the aggregate can return rows without having applied the HAVING predicate it was handed (post_filter): groups that HAVING excludes are returned", ex.loc(r), dict(applies_blocks=len(B), empty_result=empty))
    # ---- R2
    la = F.fn(PP + "::lower_aggregate_cpu")
    takes = [c for c in la.calls() if c.name.rsplit("::", 1)[-1] == "take" and "Option" in c.self_ty and "pending_agg_filter" in k9.kexpr(la, c.args[0])]
    R.floor("C04.R2", "take() of the pending HAVING slot in lower_aggregate_cpu", len(takes), 1)
    rec = [c for c in la.calls() if c.name in (PP + "::create_physical_plan_inner", PP + "::create_physical_plan_with_delim_state")]
    if takes:
        t = takes[0]
        R.check(all(la.dominates(t.bb, c.bb) for c in rec) and bool(rec), "C04.R2", "lower_aggregate_cpu:slot-taken-before-input-is-planned", "the aggregate's input is planned while the outer HAVING is still pending: a nested aggregate would consume it", la.loc(t.bb), dict(recursive_lowerings=len(rec)))
        wpf = [c for c in la.calls() if c.name.rsplit("::", 1)[-1] == "with_post_filter"]
        cf = [c for c in la.calls() if c.name == PP + "::create_filter"]
        oks = ok_value_blocks(la)
        bad = []
        for r in oks:
            # every Ok return after the take is dominated by a with_post_filter fed by the taken value, or by create_filter
            dom = [c for c in wpf + cf if la.dominates(c.bb, r)]
            fed = [c for c in dom if any(derives_from(la, [a], lambda k, x: (x is t) if k == "call" else None) for a in c.args)]
            if la.path_exists(t.bb, r) and not fed:
                # a return on the `post_filter is None` edge of a match on the taken value is fine
                gs = guards.guards_of(la, r, require_err=False)
                none_edge = any(cd.startswith("discr(") and str(v) == "None" and derives_from(la, ["c:" + la.switch_info(sb)[1][0]], lambda k, x: (x is t) if k == "call" else None) for sb, cd, v in gs if la.switch_info(sb)[0] == "enum")
                if not none_edge:
                    bad.append(r)
        R.check(not bad, "C04.R2", "lower_aggregate_cpu:predicate-handed-or-filtered", "an aggregate is returned without the taken HAVING predicate being handed to it (with_post_filter) or planned as a FilterExec", la.loc(bad[0]) if bad else la.loc(), dict(returns=len(oks), with_post_filter=len(wpf), create_filter=len(cf)))
    # Filter arm of the main lowering: bare aggregate only when the slot was emptied
    import c43
    f, m = c43._arm(F)
    fa = arm_for(m, "LogicalPlan::Filter")[0]
    sp = fa["span"]
    # the bare aggregate is returned only on the `leftover is None` edge (slot consumed); otherwise a FilterExec is planned
    repl = [c for c in calls_in_lines(f, sp) if c.name in ("std::mem::replace",) or (c.name.rsplit("::", 1)[-1] == "replace" and "Option" in c.self_ty)]
    cfs = [c for c in calls_in_lines(f, sp) if c.name == PP + "::create_filter"]
    oks = [i for i, j, dst, rv, line in stmts_in_lines(f, sp) if dst == "0" and rv[0] == "agg" and rv[1] == "adt:std::result::Result::Ok"]
    bare_ok = []
    for r in oks:
        if not any(f.dominates(c.bb, r) for c in cfs):
            gs = guards.guards_of(f, r, require_err=False)
            consumed = any("is_none(" in cd and v is True and ("replace(" in cd) for sb, cd, v in gs) or any(cd.startswith("discr(") and str(v) == "None" and "replace(" in cd for sb, cd, v in gs)
            if not consumed:
                bare_ok.append(r)
    R.check(len(repl) >= 2 and len(cfs) >= 2 and not bare_ok, "C04.R2", "filter-arm:bare-aggregate-only-when-consumed", "the Filter-over-Aggregate arm can return the aggregate without its HAVING predicate having been consumed by the operator or planned as a FilterExec", f"{f.file}:{sp[0]}", dict(slot_swaps=len(repl), create_filter=len(cfs), unguarded_returns=len(bare_ok)))
    # ---- R3
    refusals = []
    import re
    for p, b_ in F.bodies.items():
        if not b_["file"].startswith(("src/physical/operators/morsel_agg.rs", "src/physical/morsel_agg.rs", "src/physical/morsel.rs", "src/physical/operators/streaming_parquet_scan.rs")):
            continue
        root = b_.get("root") or p
        g0 = F.fn(root)
        # decline-capable fast path: returns Result<Option<..>> (Ok(None) = "not my shape, use the general path")
        if not g0.local_ty(0).startswith("std::result::Result<std::option::Option<"):
            continue
        for l in b_["lits"]:
            v = re.sub(r"[^ -~]", "", l[0])
            if (v.startswith("s:") or v.startswith("bs:")) and re.search(r"unsupported|not supported", v, re.I):
                refusals.append((root, b_, v.split(":", 1)[1].strip()[:60]))
    seen = {}
    for root, b_, v in refusals:
        seen.setdefault((root, v), (b_["file"], b_["line"]))
    for (root, msg), (file, line) in sorted(seen.items()):
        R.bad("C04.R3", f"{root}:{msg}", f"a capability refusal (`{msg}`) is raised inside a fast path that could decline with Ok(None): the query fails on the Parquet layout while the general path (and the in-memory layout) answers it", f"{file}:{line}", dict())
    R.ok("C04.R3", "fast-path-refusals-examined", dict(found=len(seen)))
    # the zone-map proof that lets the Parquet fast path drop its row filter (layout-dependent answers when it is wrong)
    import c05
    c05.effective_operator(F, R, "C04.R4")
