"""C17 An Iceberg snapshot reads exactly its live data files — structural clauses."""
from qe import *
import k9
import guards

CLAIMS = ("R1 in data_files_of a data file is pushed only past: status==2 (DELETED) => skip, content!=0 (delete files) => Err, file_format not parquet => Err; every manifest of the list is visited and every lookup error is propagated; "
          "R2 open_table with an explicit snapshot id never falls back to current-snapshot-id: the Some(id) arm finds by snapshot_id == id and turns a miss into Err; the None arm requires current_snapshot_id and finds exactly it; "
          "R3 an empty file list is refused before the Parquet table is built, and the table is built from exactly data_files_of(chosen.manifest_list); "
          "R4 latest_metadata_file answers from version-hint.text without scanning when the hint exists, otherwise keeps the maximum by (last-updated-ms, path); "
          "R5 resolve_uri refuses every URI containing `://` other than the file: form.")
NOT_DECIDED = "Avro decoding, manifest semantics beyond these filters (e.g. sequence numbers), row-level contents of the files."

I = "storage::iceberg"


def run(F, R):
    R.rule("C17.R1", "K3 dominance", "files.push dominated by the status/content/format filters")
    R.rule("C17.R2", "K4 arms", "explicit snapshot: find(snapshot_id == id).ok_or_else(..)?; never reads current_snapshot_id")
    R.rule("C17.R3", "K3", "try_from_files dominated by files.is_empty() => Err; files from data_files_of(resolve_uri(chosen.manifest_list))")
    R.rule("C17.R4", "K3/K9", "version-hint branch returns before the scan; scan keeps max (last_updated_ms, path)")
    R.rule("C17.R5", "K4", "`://` => Err unless file: prefix")
    f = F.fn(I + "::data_files_of")
    pushes = [c for c in f.calls() if c.name.endswith("Vec::<T, A>::push")]
    R.floor("C17.R1", "files.push sites", len(pushes), 1)
    for p in pushes:
        gs = guards.guards_of(f, p.bb, require_err=False)
        gse = guards.guards_of(f, p.bb, require_err=True)
        st = any('"status"' in cond and cond.startswith("Eq(") and cond.rstrip(")").endswith("#2") and val is False for sb, cond, val in gs)
        ct = any('"content"' in cond and ((cond.startswith("Ne(") and val is False) or (cond.startswith("Eq(") and val is True)) and cond.rstrip(")").endswith("#0") for sb, cond, val in gse)
        fm = any("eq_ignore_ascii_case(" in cond and '"parquet"' in cond and '"file_format"' in cond and ((cond.startswith("Not(") and val is False) or (not cond.startswith("Not(") and val is True)) for sb, cond, val in gse)
        detail = dict(guards=[(c[:90], str(v)) for s, c, v in gs])
        R.check(st, "C17.R1", "push:status!=DELETED", "a DELETED manifest entry's file can be pushed (status == 2 is not skipped)", f.loc(p.bb), detail)
        R.check(ct, "C17.R1", "push:content==data", "delete files (content != 0) are not refused before the data file is accepted", f.loc(p.bb), detail)
        R.check(fm, "C17.R1", "push:format==parquet", "a non-Parquet data file is not refused", f.loc(p.bb), detail)
        pe = k9.kexpr(f, p.args[1])
        R.check('"file_path"' in pe and I + "::resolve_uri(" in pe, "C17.R1", "push:file_path-resolved", f"pushed path is {pe[:80]}", f.loc(p.bb), nontrivial=False)
    import kerr
    n = 0
    for g in F.family(f.path):
        for c, tags, ok in kerr.audit(F, g):
            n += 1
            # `content` is optional in v1 manifests: field_i32(.., "content").unwrap_or(0) is the documented default
            if c.name == I + "::field_i32" and '"content"' in k9.kexpr(g, c.args[1]) and tags == {"method:unwrap_or"}:
                d = [u for u in uses_of_local(g, place_local(c.dest)) if u[0] == "call"]
                R.check(all(op_const(origin(g, u[1].args[1])[1]) == 0 for u in d if origin(g, u[1].args[1])[0] == "const"), "C17.R1", "content-default-0", "missing `content` defaults to something other than 0 (data)", g.loc(c.bb), nontrivial=False)
                continue
            R.check(ok, "C17.R1", f"err:{c.name.rsplit('::',1)[-1]}#{_ord(g, c)}", f"lookup error swallowed ({sorted(tags)})", g.loc(c.bb), dict(consumers=sorted(tags)))
    R.floor("C17.R1", "fallible lookups audited in data_files_of", n, 6)

    # every manifest of the list is opened: avro_records(&manifest) lies on every path through the outer loop body
    ar = [c for c in f.calls() if c.name == I + "::avro_records"]
    inner = [c for c in ar if "resolve_uri(" in k9.kexpr(f, c.args[0])]
    outer_next = [c for c in f.calls() if c.name.endswith("::next") and any(f.dominates(c.bb, x.bb) for x in inner)]
    okm = False
    if inner and outer_next:
        hdr = outer_next[0]
        for sb in range(f.n):
            si = f.switch_info(sb)
            if si and si[0] == "enum" and si[1][0] == hdr.dest and "Some" in si[2]:
                # no way back to the loop header (next manifest) or to a normal return without opening this manifest;
                # error returns (`?`) are allowed
                region = f.reachable(si[2]["Some"], avoid=frozenset([inner[0].bb]))
                okm = hdr.bb not in region and not any(i in region for i in ok_value_blocks(f))
    R.check(okm, "C17.R1", "every-listed-manifest-is-read", "a manifest of the snapshot's manifest list can be skipped without being read: its live data files silently vanish from the table", f.loc(inner[0].bb) if inner else f.loc(), dict(manifest_reads=len(inner)))

    # ---- R6 serialized names follow the Iceberg spec (kebab-case of the field): a wrong key plus #[serde(default)] reads 0
    R.rule("C17.R6", "K6 table agreement", "every Deserialize struct of storage::iceberg maps field `a_b` to the JSON key `a-b` (Iceberg table-metadata spelling)")
    nst = 0
    for ap, ad in F.adts.items():
        if not ap.startswith(I + "::") or ad["enum"]:
            continue
        vis = [b for pth, b in F.bodies.items() if b["file"] == "src/storage/iceberg.rs" and "Deserialize<'de> for " + ap + ">" in pth and pth.endswith("visit_str")]
        if not vis:
            continue
        nst += 1
        keys = {l[0][2:] for l in vis[0]["lits"] if l[0].startswith("s:")}
        want = {fl[0].replace("_", "-") for fl in ad["variants"][0]["fields"]}
        R.check(keys == want, "C17.R6", f"{ap.rsplit('::', 1)[-1]}:json-keys", f"{ap.rsplit('::', 1)[-1]} is deserialized from keys {sorted(keys)} but its fields need {sorted(want)}: a misspelt key with a serde default silently reads as 0/None (e.g. every last-updated-ms ties)", f"{ad['file']}:{ad['line']}", dict(keys=sorted(keys)))
    R.floor("C17.R6", "Deserialize structs in storage::iceberg", nst, 2)

    # ---- R2
    o = F.fn(I + "::open_table")
    ms = [m for m in find_match(o, "std::option::Option") if any(pat_head(a["pat"]).endswith("Some") for a in m["arms"]) and any(a["pat"].endswith("None") for a in m["arms"])]
    ms = [m for m in ms if len(m["arms"]) == 2]
    if not ms:
        raise Broken("open_table: match on snapshot_id not found")
    m = ms[0]
    some = [a for a in m["arms"] if pat_head(a["pat"]).endswith("Some")][0]
    none = [a for a in m["arms"] if a["pat"].endswith("None")][0]
    reads_cur_some = [1 for bb, acc, fld, adt, line in o.field_accesses() if fld == "current_snapshot_id" and some["span"][0] <= line <= some["span"][2]]
    reads_cur_none = [1 for bb, acc, fld, adt, line in o.field_accesses() if fld == "current_snapshot_id" and none["span"][0] <= line <= none["span"][2]]

    def arm_ok(a):
        cs = calls_in_lines(o, a["span"])
        finds = [c for c in cs if c.name.rsplit("::", 1)[-1] == "find"]
        if not finds:
            return False, "no find"
        fc = finds[-1]
        tags = set()
        for u in uses_of_local(o, place_local(fc.dest)):
            if u[0] == "call" and u[1].name.rsplit("::", 1)[-1] in ("ok_or_else", "ok_or"):
                tags = result_consumers(o, u[1])
        if "try" not in tags:
            return False, f"a miss is not an error ({sorted(tags)})"
        path, env = k9.closure_env(o, fc.args[1])
        if not path:
            return False, "find predicate is not a closure literal"
        e = k9.kexpr(F.fn(path), "c:0", env)
        return (".snapshot_id" in e and (e.startswith("Eq(") or "::eq(" in e)), e
    ok_s, why_s = arm_ok(some)
    ok_n, why_n = arm_ok(none)
    R.check(ok_s and not reads_cur_some, "C17.R2", "explicit-snapshot-arm", f"explicit snapshot id: {why_s}; reads current_snapshot_id: {bool(reads_cur_some)}", f"{o.file}:{some['span'][0]}", dict(predicate=str(why_s)[:120]))
    R.check(ok_n and bool(reads_cur_none), "C17.R2", "current-snapshot-arm", f"current snapshot: {why_n}", f"{o.file}:{none['span'][0]}", dict(predicate=str(why_n)[:120]))
    # the explicit id compared is the function parameter's payload
    R.check("@Some.0" in str(why_s) or "⟨2⟩" in str(why_s), "C17.R2", "explicit-id-is-parameter", f"the id compared is {why_s}", f"{o.file}:{some['span'][0]}", nontrivial=False)

    # ---- R3
    tf = [c for c in o.calls() if c.name.endswith("ParquetTable::try_from_files")]
    R.floor("C17.R3", "try_from_files calls in open_table", len(tf), 1)
    for c in tf:
        gs = guards.guards_of(o, c.bb)
        ok = any("is_empty(" in cond and val is False for sb, cond, val in gs)
        e = k9.kexpr(o, c.args[0])
        src = I + "::data_files_of(" in e and ".manifest_list" in e and I + "::resolve_uri(" in e
        R.check(ok, "C17.R3", "empty-snapshot-refused", "an empty file list reaches ParquetTable::try_from_files", o.loc(c.bb), dict(guards=[(cd[:60], str(v)) for s, cd, v in gs]))
        R.check(src, "C17.R3", "files-of-chosen-snapshot", f"table built from {e[:100]}", o.loc(c.bb), dict(expr=e[:200]))

    # ---- R4
    l = F.fn(I + "::latest_metadata_file")
    rd = [c for c in l.calls() if c.name == "std::fs::read_dir"]
    isf = [c for c in l.calls() if c.name.rsplit("::", 1)[-1] == "is_file" and "version-hint.text" in k9.kexpr(l, c.args[0])]
    R.floor("C17.R4", "read_dir / hint probes", len(rd) + len(isf), 2)
    if rd and isf:
        # switch on the hint probe: true edge cannot reach read_dir
        ok = False
        for sb in range(l.n):
            si = l.switch_info(sb)
            if si and si[0] == "bool" and si[1] and origin(l, "c:" + si[1]) == ("call", isf[0]):
                ok = rd[0].bb not in l.reachable(si[2][True]) and rd[0].bb in l.reachable(si[2][False])
        R.check(ok, "C17.R4", "hint-before-scan", "with a version hint present the directory scan can still decide", l.loc(isf[0].bb), dict())
    gts = [c for c in l.calls() if c.name.rsplit("::", 1)[-1] in ("gt", "ge", "lt", "le", "partial_cmp", "cmp") and "i64" in " ".join(c.argtys) and "PathBuf" in " ".join(c.argtys)]
    okm = False
    for c in gts:
        a0, a1 = k9.kexpr(l, c.args[0]), k9.kexpr(l, c.args[1])
        last = c.name.rsplit("::", 1)[-1]
        if last == "gt" and ".last_updated_ms" in a0 and ".last_updated_ms" not in a1:
            okm = True
        if last == "lt" and ".last_updated_ms" in a1 and ".last_updated_ms" not in a0:
            okm = True
    R.check(okm, "C17.R4", "scan-keeps-max", "the scan does not keep the strictly greatest (last-updated-ms, path)", l.loc(), dict(comparisons=[c.name.rsplit('::', 1)[-1] for c in gts]))

    # ---- R5
    r = F.fn(I + "::resolve_uri")
    oks = [i for i, j, dst, rv, line in r.stmts() if dst == "0" and rv[0] == "agg" and rv[1] == "adt:std::result::Result::Ok"]
    R.floor("C17.R5", "Ok returns of resolve_uri", len(oks), 3)
    n_guarded = 0
    for bb in oks:
        gs = guards.guards_of(r, bb)
        sch = any("contains(" in cond and '"://"' in cond and val is False for sb, cond, val in gs)
        filep = any("strip_prefix(" in cond and '"file:"' in cond for sb, cond, val in guards.guards_of(r, bb, require_err=False)) or '"file:"' in "".join(c for s, c, v in guards.guards_of(r, bb, require_err=False))
        if sch:
            n_guarded += 1
        else:
            # must be inside the file: arm
            ins = any(("strip_prefix(" in c) for s, c, v in guards.guards_of(r, bb, require_err=False))
            R.check(ins, "C17.R5", f"Ok#{oks.index(bb)}:file-prefix-or-scheme-refusal", "a path is returned without the `://` refusal and outside the file: form", r.loc(bb), dict())
    R.check(n_guarded >= 2, "C17.R5", "local-paths-after-scheme-refusal", "local/relative path returns are not dominated by the `://` => Err refusal", r.loc(), dict(guarded=n_guarded))


def _ord(g, c):
    same = sorted([x for x in g.calls() if x.name == c.name], key=lambda x: (x.line, x.bb))
    return same.index(c)
