"""C30 The reported result schema describes the returned rows — structural clauses."""
from qe import *
import k9

CLAIMS = ("R1 QueryResult.schema returned by ExecutionContext::sql is PhysicalOperator::schema() of the very plan whose partitions were executed (the value create_physical_plan returned), and ExecutionContext::physical_plan — used by Flight GetFlightInfo/GetSchema — builds its plan through the same optimized_plan + create_physical_plan pipeline with the same statistics-aware optimizer choice; "
          "R2 Flight's schema answers derive from plan.schema() of physical_plan(sql); "
          "R3 the boundary cast that turns dictionary columns into plain arrays rebuilds each batch with a schema derived from the cast columns (so batch schemas and the reported schema keep the same column count and names); "
          "R4 whether a result batch is cast is decided from THAT batch: the branch guarding the cast inside the per-batch closure derives from the closure's own batch parameter, not from a value computed outside (e.g. from the first batch only); "
          "R5 the projection operator retypes an untyped NULL column to its declared type: project_batch builds a typed all-NULL array (new_null_array) from the declared field type, so no batch carries DataType::Null under a schema that promises a concrete type.")
NOT_DECIDED = "per-operator equality of declared and produced batch schemas (value-level)."

CTX = "execution::context::ExecutionContext"


def run(F, R):
    R.rule("C30.R1", "K5 provenance", "QueryResult.schema <- schema(create_physical_plan(..)) == the executed plan; physical_plan() uses the same pipeline")
    R.rule("C30.R2", "K5", "Flight schema <- schema(physical_plan(sql))")
    sq = F.fn(CTX + "::sql::{closure#0}")
    lits = [(i, rv) for i, j, dst, rv, line in sq.stmts() if rv[0] == "agg" and rv[1] == "adt:execution::context::QueryResult"]
    R.floor("C30.R1", "QueryResult literals in sql()", len(lits), 1)
    exe_recv = set()
    for g in F.family(CTX + "::sql"):
        for c in g.calls():
            if c.callee == "physical::plan::PhysicalOperator::execute":
                exe_recv.add(g.path)
    for bb, rv in lits:
        m = dict(zip(rv[3], rv[2]))
        e = k9.kexpr(sq, m["schema"])
        ok = "physical::plan::PhysicalOperator::schema(" in e or e.startswith("schema(")
        okp = "create_physical_plan(" in e
        R.check(ok and okp, "C30.R1", "sql:QueryResult.schema<-executed-plan.schema()", f"the reported schema is {e[:100]}, not schema() of the plan returned by create_physical_plan", sq.loc(bb), dict(expr=e[:160]))
        # the executed plan is the same local: the per-partition closures capture a clone of it
        phys = sq.locals_named("physical")
        cap = False
        for i, j, dst, rv2, line in sq.stmts():
            if rv2[0] == "agg" and rv2[1].startswith("closure:") and any(derives_from(sq, [a], lambda k, x: (k == "place" and place_local(x) in phys) or None, through_calls=False) for a in rv2[2]):
                if any(c.callee == "physical::plan::PhysicalOperator::execute" for c in F.fam_calls(rv2[1][8:])):
                    cap = True
        R.check(cap, "C30.R1", "sql:schema-and-execution-share-one-plan", "the plan that is executed is not the plan whose schema is reported", sq.loc(bb), dict())
        re_ = k9.kexpr(sq, m["row_count"])
        R.check("num_rows" in "".join(c.name for g in F.family(CTX + "::sql") for c in g.calls()) and "sum(" in re_, "C30.R1", "sql:row_count<-sum(num_rows)", f"row_count is {re_[:60]}", sq.loc(bb), dict(), nontrivial=False)
    pp = F.fn(CTX + "::physical_plan")
    cpp = [c for c in pp.calls() if c.name.endswith("PhysicalPlanner::create_physical_plan") and c.dest == "0"]
    e = k9.kexpr(pp, cpp[0].args[1]) if cpp else "?"
    same = bool(cpp) and CTX + "::optimized_plan(" in e
    R.check(same, "C30.R1", "physical_plan:same-pipeline", f"physical_plan() is {e[:100]}", pp.loc(), dict(expr=e[:160]))
    op = F.fn(CTX + "::optimized_plan")
    # same statistics-aware branch as sql(): is_empty(collect_table_statistics()) chooses the optimizer
    def stats_branch(g):
        cs = [c for c in g.calls() if c.name == CTX + "::collect_table_statistics"]
        ws = [c for c in g.calls() if c.name.endswith("Optimizer::with_table_statistics")]
        opt = [c for c in g.calls() if c.name.endswith("Optimizer::optimize")]
        return bool(cs) and bool(ws) and len(opt) == 2
    R.check(stats_branch(op) and stats_branch(sq), "C30.R1", "optimized_plan:same-optimizer-choice-as-sql", "sql() and optimized_plan() choose their optimizer differently (the reported plan/schema could differ from the executed one)", op.loc(), dict())
    # ---- R2
    n = 0
    for g in F.in_file("src/distributed/flight.rs"):
        for c in g.calls():
            if c.name.endswith("schema_to_result") or c.name.rsplit("::", 1)[-1] in ("schema_to_result",):
                n += 1
                e = k9.kexpr(g, c.args[0])
                if "table_schema(" in e:
                    continue  # a path descriptor asks for a registered table's own schema
                R.check("physical_plan(" in e and "schema(" in e, "C30.R2", f"flight:{F.bodies[g.path].get('root') or g.path}:schema", f"Flight reports schema {e[:80]}", g.loc(c.bb), dict(expr=e[:120]))
    fi = [c for g in F.in_file("src/distributed/flight.rs") for c in g.calls() if c.name == CTX + "::physical_plan"]
    R.floor("C30.R2", "physical_plan calls in flight.rs", len(fi), 2)
    # ---- R4: the cast decision is per batch
    R.rule("C30.R4", "K5 provenance of a guard", "the guard of the boundary cast derives from the per-batch closure's parameter")
    from c15 import controlling_switches
    n4 = 0
    for g in F.family(CTX + "::sql"):
        if F.bodies[g.path]["kind"] != "closure":
            continue
        tn = [c for c in g.calls() if c.name.endswith("RecordBatch::try_new")]
        inner_cast = any(c.name.rsplit("::", 1)[-1] == "cast" and "arrow" in c.name for c in F.fam_calls(g.path))
        if not (tn and inner_cast) or g.raw["nargs"] < 2:
            continue
        n4 += 1
        ok4 = False
        detail = []
        for c in tn:
            for sb, val in controlling_switches(g, c.bb):
                si = g.switch_info(sb)
                if si[0] != "bool" or not si[1]:
                    continue          # `?` on the cast's Result is not the cast decision
                subj = si[1]
                from_param = derives_from(g, ["c:" + subj], lambda k, x: (k == "place" and place_local(x) == 2 and x) or None)
                from_capture = derives_from(g, ["c:" + subj], lambda k, x: (k == "place" and x.startswith("1|") and x) or None)
                detail.append((bool(from_param), bool(from_capture)))
        ok4 = bool(detail) and all(fp and not fc for fp, fc in detail)
        if True:
            if True:
                pass
        R.check(ok4, "C30.R4", "sql:cast-decided-per-batch", "the decision to cast a result batch does not come from that batch (it is captured from outside the per-batch closure, e.g. computed from the first batch): a later batch that is dictionary-encoded while the first is not is returned uncast under a schema that says Utf8", g.loc(), dict(guards=detail))
    R.floor("C30.R4", "per-batch cast closures in sql()", n4, 1)
    # ---- R5: typed NULL columns
    R.rule("C30.R5", "K2 presence + provenance", "project_batch retypes NullArray columns with new_null_array(declared type)")
    pb = F.one("project_batch", file="src/physical/operators/project.rs")
    nn = [c for c in F.fam_calls(pb.path) if c.name.rsplit("::", 1)[-1] == "new_null_array"]
    typed = any(derives_from(c.fn, [c.args[0]], lambda k, x: (k == "call" and x.name.rsplit("::", 1)[-1] == "data_type" and "Field" in (x.self_ty or "") + x.name and x) or None) for c in nn)
    R.check(bool(nn) and typed, "C30.R5", "project_batch:null-columns-retyped", "an expression whose value is NULL (literal NULL, a scalar subquery that found nothing) leaves an untyped NullArray in the batch: the batch says DataType::Null where the reported schema promises the declared type", pb.loc(), dict(new_null_array_calls=len(nn), typed_from_declared_field=typed))
