"""C32.R2 / R3"""
from qe import *
import k9

JR = "optimizer::rules::join_reorder::JoinReorder"
FILTER = "adt:planner::logical_plan::FilterNode"
JOIN = "adt:planner::logical_plan::JoinNode"


def run(F, R):
    R.rule("C32.R2", "K7 collected => re-applied", "in reorder_join_tree every Ok(plan) return after the condition-collection loop is dominated by loops over remaining_conditions and extra_join_filters that wrap the plan in FilterNodes; in reorder_filter_with_join the leftover filter and extra join filters are re-applied")
    R.rule("C32.R3", "K3", "JoinNode{join_type: Cross} literals in join_reorder.rs lie only on the None edge of the connecting-edge search")
    f = F.fn(JR + "::reorder_join_tree")
    rc = f.locals_named("remaining_conditions")
    ej = f.locals_named("extra_join_filters")
    if not rc or not ej:
        raise Broken("reorder_join_tree: remaining_conditions / extra_join_filters locals not found")
    pushes = [c for c in f.calls() if c.name.endswith("Vec::<T, A>::push") and derives_from(f, [c.args[0]], lambda k, x: (k == "place" and place_local(x) in rc) or None, through_calls=False)]
    R.floor("C32.R2", "pushes into remaining_conditions", len(pushes), 2)

    def iter_sites(locals_):
        out = []
        for c in f.calls():
            if c.name.rsplit("::", 1)[-1] in ("into_iter", "iter", "drain") and derives_from(f, [c.args[0]], lambda k, x: (k == "place" and place_local(x) in locals_) or None, through_calls=False):
                out.append(c)
        return out
    it_rc, it_ej = iter_sites(rc), iter_sites(ej)
    filt_blocks = [i for i, j, dst, rv, line in f.stmts() if rv[0] == "agg" and rv[1] == FILTER]
    okrets = [i for i, j, dst, rv, line in f.stmts() if dst == "0" and rv[0] == "agg" and rv[1] == "adt:std::result::Result::Ok"]
    first_push = min(p.bb for p in pushes) if pushes else None
    n = 0
    for rb in sorted(okrets):
        # only returns that can follow a collected condition
        if not any(f.path_exists(p.bb, rb) for p in pushes):
            continue
        n += 1
        d_rc = [c for c in it_rc if f.dominates(c.bb, rb)]
        d_ej = [c for c in it_ej if f.dominates(c.bb, rb)]
        # each loop builds a FilterNode: some FilterNode literal lies between the iter call and the return in a cycle with it
        def builds_filter(c):
            return any(f.path_exists(c.bb, fb) and f.path_exists(fb, fb) and f.path_exists(fb, rb) for fb in filt_blocks)
        ok = bool(d_rc) and bool(d_ej) and all(builds_filter(c) for c in d_rc[:1] + d_ej[:1])
        R.check(ok, "C32.R2", f"reorder_join_tree:return#{n - 1}", "a plan is returned without re-applying the conditions that did not become join edges / the non-equi conjuncts: the join silently becomes a cross product", f.loc(rb), dict(loops_over_remaining=len(d_rc), loops_over_extra=len(d_ej)))
    R.floor("C32.R2", "returns after condition collection", n, 2)
    g = F.fn(JR + "::reorder_filter_with_join")
    ejg = g.locals_named("extra_join_filters")
    rfg = g.locals_named("remaining_filter")
    oks = [i for i, j, dst, rv, line in g.stmts() if dst == "0" and rv[0] == "agg" and rv[1] == "adt:std::result::Result::Ok"]
    coll = [c for c in g.calls() if c.name.endswith("collect_relations_and_conditions") or c.name.endswith("collect_join_info") or "extra" in c.name]
    itg = [c for c in g.calls() if c.name.rsplit("::", 1)[-1] in ("into_iter", "iter") and derives_from(g, [c.args[0]], lambda k, x: (k == "place" and place_local(x) in ejg) or None, through_calls=False)]
    fb = [i for i, j, dst, rv, line in g.stmts() if rv[0] == "agg" and rv[1] == FILTER]
    # the final return is dominated by the extra-filters loop and the Some(remaining) test
    last = [rb for rb in oks if any(g.dominates(c.bb, rb) for c in itg)]
    some_switch = False
    for sb in range(g.n):
        si = g.switch_info(sb)
        if si and si[0] == "enum" and si[1][1] == "std::option::Option" and place_local(si[1][0]) in rfg and "Some" in si[2]:
            some_switch = any(g.dominates(si[2]["Some"], i) for i in fb)
    R.check(bool(last) and some_switch and bool(ejg) and bool(rfg), "C32.R2", "reorder_filter_with_join:leftovers-reapplied", "the leftover filter / non-equi conjuncts are not re-applied on top of the reordered join", g.loc(), dict(extra_loops=len(itg), filter_literals=len(fb)))

    # ---- R3
    lits = []
    for h in F.in_file("src/optimizer/rules/join_reorder.rs"):
        for i, j, dst, rv, line in h.stmts():
            if rv[0] == "agg" and rv[1] == JOIN:
                m = dict(zip(rv[3], rv[2]))
                o = origin(h, m["join_type"])
                if o[0] == "rv" and o[1][0] == "agg" and o[1][1].endswith("JoinType::Cross"):
                    lits.append((h, i))
    R.floor("C32.R3", "Cross JoinNode literals in join_reorder.rs", len(lits), 2)
    from c15 import controlling_switches
    for n, (h, bb) in enumerate(sorted(lits, key=lambda x: (x[0].path, x[0].blocks[x[1]]["l"]))):
        cs = controlling_switches(h, bb)
        none_edges = []
        for sb, val in cs:
            si = h.switch_info(sb)
            if si[0] == "enum" and si[1][1] == "std::option::Option" and val == "None":
                none_edges.append(k9.kexpr(h, "c:" + si[1][0])[:80])
        R.check(bool(none_edges), "C32.R3", f"{F.bodies[h.path]['name']}:cross#{n}", "a Cross join is built outside the 'no connecting edge found' branch", h.loc(bb), dict(none_edge_of=none_edges[-1:] ))
    # ---- R4: a qualified column reference names one relation
    R.rule("C32.R4", "K3 guard on an insertion", "extract_columns_recursive adds the bare column name only when the reference has no qualifier")
    ec = F.fn("optimizer::rules::join_reorder::JoinReorder::extract_columns_recursive")
    COL = "planner::schema::Column"
    ins = [c for c in ec.calls() if c.name.rsplit("::", 1)[-1] == "insert" and "HashSet" in (c.self_ty or "")]
    R.floor("C32.R4", "column-name insertions in extract_columns_recursive", len(ins), 2)
    from c15 import controlling_switches
    nb = 0
    for c in sorted(ins, key=lambda c: (c.line, c.bb)):
        qualified = bool(derives_from(ec, [c.args[1]], lambda k, x: (k == "call" and x.name.rsplit("::", 1)[-1] in ("format", "must_use") and x) or None))
        bare = (not qualified) and bool(derives_from(ec, [c.args[1]], lambda k, x: (k == "place" and ("name", COL) in place_fields(x) and x) or None))
        if not bare:
            continue
        nb += 1
        on_none = False
        for sb, val in controlling_switches(ec, c.bb):
            si = ec.switch_info(sb)
            if si[0] == "enum" and si[1][1] == "std::option::Option" and str(val) == "None" and \
                    derives_from(ec, ["c:" + si[1][0]], lambda k, x: (k == "place" and ("relation", COL) in place_fields(x) and x) or None):
                on_none = True
        R.check(on_none, "C32.R4", f"extract_columns_recursive:bare-name-insert#{nb}", "a qualified column reference also contributes its bare name: when that name exists in several relations (self-join aliases, a shared `id`) the side of an equality no longer resolves to exactly one relation, the join-graph edge is dropped, the graph falls apart and the greedy fallback emits a cross join", ec.loc(c.bb), dict())
    R.floor("C32.R4", "bare-name insertions", nb, 1)
