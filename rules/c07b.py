def run(F, R):
    pass
