"""C07 additional clauses: completion barrier for shared outer-join state (R5), no Option-ordered MIN merge of partial states (R6),
probe-side agreement (R3), constant-seed routing hashers (R4)."""
from qe import *
import k9
import guards

HJ = "physical::operators::hash_join"
CACHE = HJ + "::BuildSideCache"


def run(F, R):
    R.rule("C07.R5", "K3 completion barrier", "every scan of the shared build_matched bits (AtomicBool::load) is dominated by `completed_partitions.fetch_add(1)+1 == output_partitions()`: only the LAST partition to finish emits unmatched build rows, whatever the finishing order")
    R.rule("C07.R6", "K4", "partial aggregate states are never merged with Ord::min over Option values (None < Some would let an all-NULL partial erase a real minimum depending on the batch split)")
    # ---------------- R5
    scans = []
    for g in F.fns_touching("build_matched", CACHE):
        for c in g.calls():
            if c.name.endswith("AtomicBool::load") or (c.name.rsplit("::", 1)[-1] == "load" and "AtomicBool" in c.self_ty or "Atomic<bool>" in c.self_ty and c.name.rsplit("::", 1)[-1] == "load"):
                if derives_from(g, [c.args[0]], lambda k, x: (k == "place" and ("build_matched", CACHE) in place_fields(x)) or None):
                    scans.append((g, c))
    R.floor("C07.R5", "scans of build_matched bits", len(scans), 1)
    for g, c in scans:
        gs = guards.guards_of(g, c.bb, require_err=False)
        ok = False
        seen = []
        for sb, cond, val in gs:
            seen.append(cond)
            si = g.switch_info(sb)
            if si[0] != "bool" or si[1] is None:
                continue
            fa = derives_from(g, ["c:" + si[1]], lambda k, x: x if (k == "call" and x.name.rsplit("::", 1)[-1] == "fetch_add" and
                              derives_from(g, [x.args[0]], lambda k2, y: (k2 == "place" and ("completed_partitions", CACHE) in place_fields(y)) or None)) else None)
            op = derives_from(g, ["c:" + si[1]], lambda k, x: x if (k == "call" and x.name.rsplit("::", 1)[-1] == "output_partitions") else None)
            if fa and op and cond.startswith("Eq(") and val is True:
                ok = True
        R.check(ok, "C07.R5", f"{F.bodies[g.path].get('root') or g.path}:unmatched-scan", "unmatched build rows are scanned without the last-partition-to-finish barrier (completed_partitions.fetch_add == output_partitions): a fast partition would emit rows a slower one later matches", g.loc(c.bb), dict(guards=seen[:6]))
    # the counter is only ever advanced by fetch_add(1)
    for g in F.fns_touching("completed_partitions", CACHE):
        for c in g.calls():
            if c.self_ty.startswith("std::sync::atomic::Atomic<") and derives_from(g, [c.args[0]], lambda k, x: (k == "place" and ("completed_partitions", CACHE) in place_fields(x)) or None):
                last = c.name.rsplit("::", 1)[-1]
                R.check(last in ("fetch_add", "load", "new") and (last != "fetch_add" or op_const(origin(g, c.args[1])[1]) == 1 if origin(g, c.args[1])[0] == "const" else last != "fetch_add"),
                        "C07.R5", f"completed_partitions:{last}", "completion counter is modified other than by fetch_add(1)", g.loc(c.bb), nontrivial=False)

    # ---------------- R6
    files = ("src/physical/operators/hash_agg.rs", "src/physical/morsel_agg.rs", "src/physical/operators/morsel_agg.rs", "src/physical/vectorized_agg.rs", "src/physical/operators/spillable.rs")
    mins = F.callers_matching(lambda n: n in ("std::cmp::Ord::min", "std::cmp::min", "std::cmp::min_by", "std::cmp::PartialOrd::lt") or n.endswith(">::min"))
    n = 0
    for c in mins:
        if c.fn.file not in files or c.name.rsplit("::", 1)[-1] != "min":
            continue
        n += 1
        opt = c.self_ty.startswith("std::option::Option<") or (c.argtys and c.argtys[0].startswith("std::option::Option<"))
        if opt:
            R.bad("C07.R6", f"{c.fn.path}:Option-min", "MIN of partial states computed with Option's ordering (None < Some): an all-NULL partial makes the merged minimum NULL, depending on how rows were split into batches", c.fn.loc(c.bb), dict(site=str(c), types=c.argtys))
    R.floor("C07.R6", "min() calls in aggregate code examined", n, 5)
    R.ok("C07.R6", "no-Option-min-in-aggregate-merge", dict(min_calls_examined=n), nontrivial=True)
