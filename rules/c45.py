"""C45 Gathered tables carry every column the statement reads — structural clauses."""
from qe import *
import k9

CLAIMS = ("R1 (walker completeness) the scan collector's in-crate call closure visits plans embedded in expressions: since LogicalPlan::children() does not include Expr::{ScalarSubquery, InSubquery, Exists} sub-plans, collect_scans (or a helper it calls) must match on those Expr variants and recurse into their plans; "
          "R2 for a projected scan the pushed-down scan filter is read and its columns are added to the gathered set; an empty set falls back to one carrier column; "
          "R3 the gather SQL projects an explicit column list (never `*`) built from the required set in provider-schema order; "
          "R4 widest wins when one table is scanned more than once: collect_scans can overwrite an already recorded (pruned) column set with None = all columns (a store of None through the map entry), and extends a recorded set with a later pruned scan's columns; "
          "R5 execute_gathered registers each gathered result under the table it was gathered for: the per-table gathers are produced from plan.tables itself (no filtering or reordering between the table list and the list it is zipped with).")
NOT_DECIDED = "that projection pushdown itself computed the right column set; statements whose subqueries are decorrelated (they appear as ordinary joins)."

G = "distributed::gather"
SUBQ = ("ScalarSubquery", "InSubquery", "Exists")


def _deferred(F, g, calls, cs, clo):
    """second accepted shape: the arm (inside a visitor closure) pushes the sub-plan onto a captured collection, and the
    function that built the closure later passes elements of that collection to the plan walker"""
    if F.bodies[g.path]["kind"] != "closure":
        return False
    caps = set()
    for c in calls:
        if c.name.rsplit("::", 1)[-1] in ("push", "extend", "insert", "push_back") and c.args:
            o = origin(g, c.args[0])
            pl = o[1] if o[0] == "place" else (o[1][2] if o[0] == "rv" and o[1][0] == "ref" else None)
            if pl and pl.startswith("1|*|f:"):
                caps.add(int(pl.split("|")[2].split(":")[1]))
    if not caps:
        return False
    parent = F.fn(g.path.rsplit("::{closure", 1)[0])
    for i, j, dst, rv, line in parent.stmts():
        if rv[0] == "agg" and rv[1] == "closure:" + g.path:
            for n in caps:
                if n >= len(rv[2]):
                    continue
                o = origin(parent, rv[2][n])
                if o[0] == "call":
                    coll = place_local(o[1].dest)
                elif o[0] == "rv" and o[1][0] == "ref":
                    coll = place_local(o[1][2])
                elif o[0] == "place":
                    coll = place_local(o[1])
                else:
                    continue
                for w in parent.calls():
                    if (w.name == cs.path or w.name in clo) and w.name != "distributed::plan::visit_expr":
                        hit = derives_from(parent, w.args, lambda k, x: k == "place" and place_local(x) == coll and x)
                        if hit:
                            return True
    return False


def run(F, R):
    R.rule("C45.R1", "K6 walker completeness", "collect_scans' closure has arms on Expr::{ScalarSubquery,InSubquery,Exists} that reach collect_scans again")
    R.rule("C45.R2", "K7", "Some(indices) arm reads scan.filter and inserts its columns; empty set -> first field")
    R.rule("C45.R3", "K4", "gather SQL is SELECT <explicit list> FROM <quoted table>")
    cs = F.fn(G + "::collect_scans")
    clo = F.closure_of([cs.path], depth=4)
    # does LogicalPlan::children() cover expression-embedded plans?  (checked, not assumed)
    ch = F.fn("planner::logical_plan::LogicalPlan::children")
    children_walks_exprs = any(c.name in F.bodies and "Expr" in (F.bodies[c.name].get("self_ty") or "") for c in ch.calls())
    seen = set()
    for p in sorted(clo):
        if not F.bodies[p]["file"].startswith("src/distributed/"):
            continue
        for g in F.family(p):
            for m in g.raw["matches"]:
                for a in m["arms"]:
                    for alt in pat_alternatives(a["pat"]):
                        h = pat_head(alt).rsplit("::", 1)[-1]
                        if h in SUBQ and "logical_expr::Expr" in pat_head(alt):
                            # the arm must lead back into the plan walker
                            calls = calls_in_lines(g, a["span"])
                            if any(c.name == cs.path or c.name in clo for c in calls):
                                seen.add(h)
                            elif _deferred(F, g, calls, cs, clo):
                                seen.add(h)
    missing = sorted(set(SUBQ) - seen)
    R.check(children_walks_exprs or not missing, "C45.R1", "collect_scans:subquery-plans-visited",
            f"plans embedded in expressions ({', '.join('Expr::' + m for m in missing)}) are never visited (LogicalPlan::children() does not return them): a table or column read only inside a non-decorrelated subquery is not gathered, so re-running the statement over the gathered tables fails to bind or reads nothing",
            cs.loc(), dict(closure_functions=len(clo), visited=sorted(seen)))
    # ---- R2
    SC = "planner::logical_plan::ScanNode"
    reads_filter = any((fld, a) == ("filter", SC) for bb, acc, fld, a, line in cs.field_accesses())
    reads_proj = any((fld, a) == ("projection", SC) for bb, acc, fld, a, line in cs.field_accesses())
    cec = [c for c in F.fam_calls(cs.path) if c.name.endswith("::collect_expr_columns")]
    ins = [c for c in F.fam_calls(cs.path) if c.name.rsplit("::", 1)[-1] == "insert" and "BTreeSet" in c.self_ty]
    R.check(reads_filter and reads_proj and bool(cec) and len(ins) >= 2, "C45.R2", "projected-scan:filter-columns-added", "the pushed-down scan filter's columns are not added to the gathered column set", cs.loc(), dict(reads_filter=reads_filter, collect_expr_columns=len(cec), inserts=len(ins)))
    first = [c for c in cs.calls() if c.name.rsplit("::", 1)[-1] == "first"]
    isem = [c for c in cs.calls() if c.name.rsplit("::", 1)[-1] == "is_empty" and "BTreeSet" in c.self_ty]
    R.check(bool(first) and bool(isem), "C45.R2", "empty-set->carrier-column", "a scan that reads no column (COUNT(*)) gathers no column to carry the row count", cs.loc(), dict(), nontrivial=False)
    # ---- R3
    pg = F.fn(G + "::plan_gather")
    lits = [l[0] for g in F.family(pg.path) for l in g.raw["lits"]]
    star = [l for l in lits if l.startswith("s:") and "*" in l and "SELECT" in l.upper()]
    q = [c for c in F.fam_calls(pg.path) if c.name == G + "::quote_ident"]
    R.check(not star and len(q) >= 2, "C45.R3", "gather-sql:explicit-columns", f"the gather SQL uses a wildcard or unquoted identifiers ({star})", pg.loc(), dict(quote_ident_calls=len(q)))
    # schema order: the column list is produced by filtering provider.schema().fields() with set.contains
    okorder = any(c.name.rsplit("::", 1)[-1] == "contains" and "BTreeSet" in c.self_ty for c in F.fam_calls(pg.path))
    R.check(okorder, "C45.R3", "gather-sql:schema-order", "gathered columns are not taken in provider-schema order filtered by the required set", pg.loc(), dict(), nontrivial=False)
    # ---- R4: widest wins
    R.rule("C45.R4", "K7 stores through the map entry", "collect_scans: recorded set := None when a later scan is full width; recorded set extended otherwise")
    MAPGET = ("get_mut", "entry", "get", "into_mut", "or_insert", "or_insert_with")
    def from_required(op):
        return derives_from(cs, [op], lambda k, x: (k == "call" and x.name.rsplit("::", 1)[-1] in MAPGET and "BTreeMap" in (x.self_ty or "") + x.name and x) or None)
    none_store = False
    for i, j, dst, rv, line in cs.stmts():
        if dst.endswith("|*") and rv[0] == "use" and not isinstance(rv[1], dict):
            o = origin(cs, rv[1])
            if o[0] == "rv" and o[1][0] == "agg" and o[1][1] == "adt:std::option::Option::None" and from_required("c:" + dst[:-2]):
                none_store = True
        if dst.endswith("|*") and rv[0] == "agg" and rv[1] == "adt:std::option::Option::None" and from_required("c:" + dst[:-2]):
            none_store = True
    ext = [c for c in cs.calls() if c.name.rsplit("::", 1)[-1] in ("extend", "append", "insert") and "BTreeSet" in (c.self_ty or "") and from_required(c.args[0])]
    R.check(none_store and bool(ext), "C45.R4", "collect_scans:widest-wins", "a table scanned twice keeps the FIRST scan's pruned column set when a later scan reads every column (no store of None through the map entry) - or a later pruned scan's columns are not added: the later scan's columns are not gathered and re-binding the statement fails with Column not found", cs.loc(), dict(overwrite_with_all_columns=none_store, extends_recorded_set=len(ext)))
    # ---- R5: results are registered under their own table
    R.rule("C45.R5", "K5 provenance of a zip", "execute_gathered: the list zipped with plan.tables derives from an unfiltered traversal of plan.tables")
    eg = [g for g in F.family("distributed::coordinator::execute_gathered")]
    nz = 0
    for g in eg:
        for c in g.calls():
            if c.name.rsplit("::", 1)[-1] != "zip":
                continue
            sides = [k9.kexpr(g, a) for a in c.args[:2]]
            if not any(".tables" in e for e in sides):
                continue
            nz += 1
            FILTERS = ("filter", "filter_map", "skip", "skip_while", "take_while", "step_by", "rev", "retain", "dedup", "sort", "sort_by", "sort_unstable", "flat_map", "flatten")
            bad5 = []
            for a in c.args[:2]:
                w = derives_from(g, [a], lambda k, x: (k == "call" and x.name.rsplit("::", 1)[-1] in FILTERS and x) or None)
                if w:
                    bad5.append(w.name.rsplit("::", 1)[-1])
            R.check(not bad5, "C45.R5", f"execute_gathered:zip#{nz}:aligned", f"one side of the zip with plan.tables went through {sorted(set(bad5))}: the gathered results no longer line up with the table list, so a table's rows are registered under another table's name and the last table is never registered", g.loc(c.bb), dict(sides=[e[:80] for e in sides]))
    R.floor("C45.R5", "zips with plan.tables in execute_gathered", nz, 1)
