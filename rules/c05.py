"""C05 Statistics-based row-group skipping is sound — structural clauses."""
import itertools
from qe import *
import k9
import k8
import guards

CLAIMS = ("R1 each leaf predicate eval_range{,_i32,_f64,_str}, evaluated abstractly over every ordering of (min <= x <= max, literal), returns true whenever some x in [min,max] satisfies `x op literal`, and definite_comparison's final test returns true only when every x in [min,max] does; the f64 variants are also evaluated with NaN (Arrow total order for the row semantics); "
          "R2 no statistic bound or literal passes through a lossy cast (i64->i32, i64->f64) on its way into a comparison; "
          "R3 every 'cannot tell' fall-through answers conservatively: true in row_group_might_match/check_comparison/check_*_stats, false in row_group_definitely_matches/definite_comparison; And->&&, Or->|| in both, Not -> !definitely; "
          "R5 the comparison helpers consult the column's logical type before using integer statistics (DECIMAL columns carry unscaled integers); "
          "R4 definite_comparison's comparisons are dominated by the `null_count_opt() != Some(0) => false` refusal; "
          "R6 'every row matches' has a single source of truth: the value returned by row_group_definitely_matches derives only from constants, its own recursive results and definite_comparison (the function R4 guards against NULL rows) - never from a negation or from the may-match side, which says nothing about NULL rows; "
          "R7 pruning results are never shared between files through Split::file, a bare file name that is not unique across directories; "
          "R8 a literal-first comparison (`5 <= col`) is evaluated with the flipped operator everywhere: in check_comparison and definite_comparison every operator handed to a range helper, and every operator the function itself dispatches on, is the effective operator (its slice contains flip_op), never the predicate's raw operator.")
NOT_DECIDED = "that the statistics in a file are themselves correct; UTF-8 truncation of byte-array statistics by writers."

P = "storage::row_group_pruning"
OPS = {"Eq": "Eq", "NotEq": "Ne", "Lt": "Lt", "LtEq": "Le", "Gt": "Gt", "GtEq": "Ge"}


def sql_true(op, x, v):
    """row semantics under Arrow's total order: NaN is the greatest value and equals itself"""
    def key(a):
        return (1, 0) if a is k8.NAN else (0, a)
    a, b = key(x), key(v)
    return {"Eq": a == b, "Ne": a != b, "Lt": a < b, "Le": a <= b, "Gt": a > b, "Ge": a >= b}[op]


def run(F, R):
    R.rule("C05.R1", "K8 order-domain evaluation", "might_match: (exists x in [min,max]: x op v) => result; definite: result => (forall x in [min,max]: x op v)")
    R.rule("C05.R2", "K5 lossy cast", "no i64->i32 / i64->f64 cast on statistics or literals inside row_group_pruning")
    R.rule("C05.R3", "K4 result classes", "conservative fall-throughs and monotone combinators")
    R.rule("C05.R4", "K3", "definite comparisons dominated by null_count_opt() != Some(0) => false")
    # ---------------- R1
    dom = range(0, 4)
    nan_ops = {}
    for name, floaty in (("eval_range", False), ("eval_range_i32", False), ("eval_range_f64", True), ("eval_range_str", False)):
        f = F.fn(P + "::" + name)
        discr_names = None
        for s in f.blocks[0]["s"]:
            if s[1][0] == "discr":
                discr_names = {n: int(v) for v, n in s[1][3]}
        if not discr_names:
            R.undecided("C05.R1", name, "no discriminant switch on the operator", f.loc()); continue
        for opname, cmpop in OPS.items():
            bad, nan_bad, n = [], [], 0
            try:
                for mn, mx, v in itertools.product(dom, dom, dom):
                    if mn > mx:
                        continue
                    n += 1
                    res = k8.evaluate(f, {2: v, 3: mn, 4: mx}, discr={1: discr_names[opname]})
                    exists = any(sql_true(cmpop, x, v) for x in dom if mn <= x <= mx)
                    if exists and not res:
                        bad.append((mn, mx, v))
                if floaty:
                    for mn, mx, v in itertools.product(dom, dom, list(dom) + [k8.NAN]):
                        if mn > mx:
                            continue
                        # a NaN row is never reflected in [min,max] (writers exclude NaN from statistics)
                        res = k8.evaluate(f, {2: v, 3: mn, 4: mx}, discr={1: discr_names[opname]})
                        if sql_true(cmpop, k8.NAN, v) and not res:
                            nan_bad.append((mn, mx, v))
                        if v is k8.NAN and any(sql_true(cmpop, x, v) for x in dom if mn <= x <= mx) and not res:
                            nan_bad.append((mn, mx, v))
            except k8.Undecided as e:
                R.undecided("C05.R1", f"{name}:{opname}", str(e), f.loc()); continue
            R.check(not bad, "C05.R1", f"{name}:{opname}", f"a row group holding a matching row is pruned, e.g. (min,max,literal) ranks {bad[:3]}", f.loc(), dict(orderings_evaluated=n))
            if floaty and nan_bad:
                nan_ops.setdefault(name, {})[opname] = nan_bad[:2]
    f64f = F.fn(P + "::eval_range_f64")
    R.check("eval_range_f64" not in nan_ops, "C05.R1", "eval_range_f64:NaN", f"Double column: with a NaN row (writers exclude NaN from min/max) or a NaN literal the row group is pruned although `x op literal` holds under the engine's total order (NaN greatest, equal to itself); operators/cases: {nan_ops.get('eval_range_f64')}", f64f.loc(), dict(operators=sorted(nan_ops.get("eval_range_f64", {}))))
    # the "every row matches" predicate: the generic helper definite_range(op, val, min, max) when it exists,
    # otherwise the final match on effective_op inside definite_comparison
    d = F.fn(P + "::definite_comparison")
    if F.has(P + "::definite_range"):
        dr = F.fn(P + "::definite_range")
        start, lop, lv, lmn, lmx = 0, 1, 2, 3, 4
        tgt = dr
    else:
        eo = d.locals_named("effective_op")
        lmin, lmax, lval = d.locals_named("min"), d.locals_named("max"), d.locals_named("val")
        start = None
        for sb in range(d.n):
            si = d.switch_info(sb)
            if si and si[0] == "enum" and eo and place_local(si[1][0]) in eo:
                start = sb
        tgt = d
        if start is not None and lmin and lmax and lval:
            lop, lv, lmn, lmx = eo[-1], lval[-1], lmin[-1], lmax[-1]
        else:
            start = None
    if start is None:
        R.undecided("C05.R1", "definite:final-match", "cannot find the definite predicate (definite_range or the match on effective_op)", d.loc())
    else:
        names = None
        for s_ in tgt.blocks[start]["s"]:
            if s_[1][0] == "discr":
                names = {n: int(v) for v, n in s_[1][3]}
        if names is None:
            # the switch may sit a few gotos after `start`
            for bi in range(tgt.n):
                for s_ in tgt.blocks[bi]["s"]:
                    if s_[1][0] == "discr" and place_local(s_[1][1]) == lop:
                        names = {n: int(v) for v, n in s_[1][3]}
        for opname, cmpop in OPS.items():
            bad, nanbad, n = [], [], 0
            try:
                for mn, mx, v in itertools.product(dom, dom, dom):
                    if mn > mx:
                        continue
                    n += 1
                    res = k8.evaluate(tgt, {lmn: mn, lmx: mx, lv: v}, start=start, discr={lop: names[opname]})
                    allx = all(sql_true(cmpop, x, v) for x in dom if mn <= x <= mx)
                    if res and not allx:
                        bad.append((mn, mx, v))
                for mn, mx in itertools.product(dom, dom):
                    if mn > mx:
                        continue
                    for v in list(dom) + [k8.NAN]:
                        res = k8.evaluate(tgt, {lmn: mn, lmx: mx, lv: v}, start=start, discr={lop: names[opname]})
                        if res and not sql_true(cmpop, k8.NAN, v):
                            nanbad.append((mn, mx, v))
            except k8.Undecided as e:
                R.undecided("C05.R1", f"definite_comparison:{opname}", str(e), tgt.loc(start)); continue
            R.check(not bad, "C05.R1", f"definite_comparison:{opname}", f"'every row matches' is claimed although some x in [min,max] fails, e.g. {bad[:3]}", tgt.loc(start), dict(orderings_evaluated=n, function=tgt.path))
            if nanbad:
                nan_ops.setdefault("definite_comparison", {})[opname] = nanbad[:2]
    R.check("definite_comparison" not in nan_ops, "C05.R1", "definite_comparison:NaN", f"Double column: 'every row matches' is claimed although a NaN row (not reflected in min/max) fails the predicate: the row filter is dropped and the NaN row is kept; operators/cases: {nan_ops.get('definite_comparison')}", d.loc(), dict(operators=sorted(nan_ops.get("definite_comparison", {}))))
    # ---------------- R2
    narrowing, floaty = [], {}
    for g in F.in_file("src/storage/row_group_pruning.rs"):
        for i, j, dst, rv, line in g.stmts():
            if rv[0] == "cast" and rv[1].startswith(("IntToInt", "IntToFloat")):
                if (rv[3], rv[4]) in (("i64", "i32"), ("i64", "i16"), ("u64", "u32"), ("i64", "i8")):
                    narrowing.append((g, i, rv))
                if (rv[3], rv[4]) in (("i64", "f64"), ("i64", "f32"), ("u64", "f64")):
                    floaty.setdefault(F.bodies[g.path].get("root") or g.path, []).append((g, i))
    seen = {}
    for g, bb, rv in narrowing:
        seen.setdefault(f"{F.bodies[g.path]['name'] or g.path}:{rv[3]}->{rv[4]}", []).append((g, bb))
    for key, lst in sorted(seen.items()):
        g, bb = lst[0]
        R.bad("C05.R2", key, f"a statistic/literal is narrowed {key.split(':')[1]} before being compared: values outside the narrower type wrap, so a row group that can match is pruned", g.loc(bb), dict(sites=len(lst)))
    # i64 -> f64 is exact only below 2^53: a function that converts integer statistics to f64 must also have an exact
    # integer route (an in-crate comparison helper called with i64 bounds and literal, or i64 comparisons) for the
    # integer-statistics / integer-literal case
    for root, lst in sorted(floaty.items()):
        g0 = F.fn(root)
        exact = False
        for h in F.family(root):
            for c in h.calls():
                if c.name in F.bodies and sum(1 for t in c.argtys if t == "i64") >= 3:
                    exact = True
            for i, j, dst, rv, line in h.stmts():
                if rv[0] == "bin" and rv[1] in ("Lt", "Le", "Gt", "Ge", "Eq", "Ne") and rv[4] == "i64" and not op_is_const(rv[2]) and not op_is_const(rv[3]):
                    exact = True
        g, bb = lst[0]
        R.check(exact, "C05.R2", f"{F.bodies[root]['name']}:i64->f64", "integer statistics and literals are compared as f64 only (rounding above 2^53 can 'prove' a row group whose last row fails the predicate, or prune one that matches)", g.loc(bb), dict(float_casts=len(lst)))
    R.ok("C05.R2", "casts-examined", dict(narrowing=len(narrowing), float_conversion_functions=len(floaty)))
    # ---------------- R3
    def fallthrough_classes(path, scrut_suffixes):
        g = F.fn(path)
        out = []
        for m in g.raw["matches"]:
            if m["kind"] != "match":
                continue
            for a in m["arms"]:
                if a["pat"].strip() == "_" or a["pat"].startswith("$") or a["pat"].replace(" ", "") in ("(_,_)",):
                    out.append((m["scrut"], a["cls"], a["span"][0]))
                if a["pat"].endswith("::None") or a["pat"] == "None":
                    out.append((m["scrut"] + "/None", a["cls"], a["span"][0]))
        return g, out
    might = [P + "::row_group_might_match", P + "::check_comparison", P + "::check_i64_stats", P + "::check_i32_stats", P + "::check_f64_stats", P + "::check_utf8_stats",
             P + "::eval_range", P + "::eval_range_i32", P + "::eval_range_f64", P + "::eval_range_str"]
    defin = [P + "::row_group_definitely_matches", P + "::definite_comparison"]
    n = 0
    for path, want in [(p, "true") for p in might] + [(p, "false") for p in defin]:
        g, ft = fallthrough_classes(path, None)
        for scrut, cls, line in ft:
            if scrut.endswith("BinaryOp") and path.endswith(("row_group_might_match", "row_group_definitely_matches")):
                continue  # the `_ =>` arm of the operator match delegates to the comparison helper (checked below)
            if cls == "None":
                continue  # an Option-valued intermediate (e.g. "no integer bounds"), not a verdict
            n += 1
            okc = cls in (f"lit:t:{want}", f"ret:lit:t:{want}") or (scrut.endswith("BinaryOp") and path.endswith("flip_op"))
            nm = F.bodies[path]["name"]
            R.check(okc, "C05.R3", f"{nm}:fallthrough@{scrut.rsplit('::',1)[-1]}#{_idx(ft, (scrut, cls, line))}", f"a 'cannot tell' arm answers {cls} instead of {want}", f"{g.file}:{line}", dict(scrutinee=scrut, cls=cls), nontrivial=False)
    R.floor("C05.R3", "fall-through arms examined", n, 20)
    # monotone combinators: in both recursive functions the And arm evaluates left && right, Or left || right
    for path in (P + "::row_group_might_match", P + "::row_group_definitely_matches"):
        g = F.fn(path)
        ms = [m for m in find_match(g, "planner::logical_expr::BinaryOp")]
        ok = False
        for m in ms:
            a_and, a_or = arm_for(m, "BinaryOp::And"), arm_for(m, "BinaryOp::Or")
            if a_and and a_or:
                def shape(a):
                    cs = [c for c in calls_in_lines(g, a["span"]) if c.name == path]
                    if len(cs) != 2:
                        return None
                    first, second = sorted(cs, key=lambda c: (c.line, c.bb))
                    # short-circuit: the second call is reached only on one edge of a bool switch on the first result
                    for sb in range(g.n):
                        si = g.switch_info(sb)
                        if si and si[0] == "bool" and si[1] and origin(g, "c:" + si[1]) == ("call", first):
                            t_reach = second.bb in g.reachable(si[2][True], avoid=frozenset([sb]))
                            f_reach = second.bb in g.reachable(si[2][False], avoid=frozenset([sb]))
                            if t_reach and not f_reach:
                                return "and"
                            if f_reach and not t_reach:
                                return "or"
                    return None
                ok = shape(a_and[0]) == "and" and shape(a_or[0]) == "or"
        R.check(ok, "C05.R3", f"{F.bodies[path]['name']}:And=&&,Or=||", "AND/OR of sub-predicates are not combined with &&/|| respectively", g.loc(), dict())
    mm = F.fn(P + "::row_group_might_match")
    nots = [c for c in mm.calls() if c.name == P + "::row_group_definitely_matches"]
    okn = False
    for c in nots:
        for i, j, dst, rv, line in mm.stmts():
            if rv[0] == "un" and rv[1] == "Not" and origin(mm, rv[2]) == ("call", c) and dst == "0":
                okn = True
    R.check(okn, "C05.R3", "might_match:Not=!definitely", "NOT p is not answered by !definitely_matches(p)", mm.loc(), dict(calls=len(nots)))
    # ---------------- R5 logical-type awareness: Parquet stores DECIMAL(p,s) columns as unscaled INT32/INT64 statistics
    R.rule("C05.R5", "K2 co-occurrence", "a function that compares integer statistics with a literal consults the column's logical (Arrow/Parquet) type first, so unscaled decimal statistics are never compared with a plain integer literal")
    TYPEQ = ("data_type", "logical_type", "converted_type", "column_descr", "scale", "precision", "is_decimal")
    for nm in ("check_comparison", "definite_comparison"):
        g = F.fn(P + "::" + nm)
        consult = []
        for c in g.calls():
            last = c.name.rsplit("::", 1)[-1]
            if last in TYPEQ:
                consult.append(c)
            elif c.name.startswith(P + "::") and c.name in F.bodies and g.local_ty(place_local(c.dest)) == "bool" and \
                    any(x.name.rsplit("::", 1)[-1] in TYPEQ for x in F.fam_calls(c.name)):
                consult.append(c)     # a helper of this module that answers from the column's logical type
        stats = [c for c in g.calls() if c.name.rsplit("::", 1)[-1] == "statistics"]
        ok5 = bool(consult) and bool(stats) and all(any(g.dominates(q.bb, st.bb) for q in consult) for st in stats)
        R.check(ok5, "C05.R5", f"{nm}:logical-type-consulted", "integer statistics are compared with the literal without looking at the column's logical type first: a DECIMAL column (unscaled integer statistics) compared with an integer literal is pruned/declared matching at the wrong scale", g.loc(), dict(type_consults=len(consult), statistics_reads=len(stats)))
    # ---------------- R4
    cmp_blocks = [i for i, j, dst, rv, line in d.stmts() if rv[0] == "bin" and rv[1] in ("Lt", "Le", "Gt", "Ge", "Eq", "Ne") and rv[4] == "f64"]
    cmp_blocks += [c.bb for c in d.calls() if c.name == P + "::definite_range"]
    R.floor("C05.R4", "definite comparisons in definite_comparison", len(cmp_blocks), 2)
    bad4 = []
    for bb in sorted(set(cmp_blocks)):
        gs = guards.guards_of(d, bb, require_err=False)
        ok = any("null_count_opt(" in cond and "#0" in cond.replace(" ", "") or ("null_count_opt(" in cond and "Some" in cond) for sb, cond, val in gs)
        if not ok:
            bad4.append(bb)
    R.check(not bad4, "C05.R4", "definite_comparison:null-guard", "a 'definitely matches' comparison is reachable without the zero-null-count refusal (a NULL row fails every comparison)", d.loc(bad4[0]) if bad4 else d.loc(), dict(comparison_blocks=len(set(cmp_blocks))))


    # ---------------- R6 single source of truth for "every row matches"
    R.rule("C05.R6", "K5 provenance", "row_group_definitely_matches' result derives only from constants, recursion and definite_comparison; no negation, no may-match call")
    dm = F.fn(P + "::row_group_definitely_matches")
    allowed = {dm.path, P + "::definite_comparison"}
    seen, work, bad6, ncalls = set(), ["0"], [], 0
    for sb in range(dm.n):
        si = dm.switch_info(sb)
        if si and si[0] == "bool" and si[1]:
            work.append(si[1])     # short-circuit operands decide the result through control flow
    defs = dm.defs()
    while work:
        pl = work.pop()
        l = place_local(pl)
        if l in seen:
            continue
        seen.add(l)
        for bb, kind, payload in defs.get(l, []):
            if kind == "call":
                ncalls += 1
                if payload.name not in allowed:
                    bad6.append((bb, f"the result of {payload.name.rsplit('::', 1)[-1]}()"))
            else:
                dst, rv, line = payload
                if rv[0] == "un" and rv[1] == "Not":
                    bad6.append((bb, "a negation"))
                    continue
                for o_ in ([rv[1]] if rv[0] == "use" else [rv[2]] if rv[0] in ("ref", "cast", "un") else rv[2:4] if rv[0] == "bin" else []):
                    if not isinstance(o_, dict):
                        q = op_place(o_) if (len(o_) > 1 and o_[1] == ":") else o_
                        if q:
                            work.append(q)
    R.floor("C05.R6", "calls feeding row_group_definitely_matches' result", ncalls, 7)
    R.check(not bad6, "C05.R6", "definitely_matches:single-source", "'every row of the group matches' is derived from " + "; ".join(sorted({w for b_, w in bad6})) + ": a may-match answer (or its negation) says nothing about NULL rows, which fail every predicate - the row filter is dropped for a group that still holds non-matching rows", dm.loc(bad6[0][0]) if bad6 else dm.loc(), dict(result_calls=ncalls))
    import splitid
    splitid.run(F, R, "C05.R7")
    effective_operator(F, R, "C05.R8")


def effective_operator(F, R, rid):
    R.rule(rid, "K5 provenance", "operators used by check_comparison / definite_comparison derive from flip_op (the effective operator)")
    n = 0
    FL = P + "::flip_op"
    for nm in ("check_comparison", "definite_comparison"):
        g = F.fn(P + "::" + nm)
        isflip = lambda kk, x: (kk == "call" and x.name == FL and x) or None
        k_ = 0
        for c in sorted(g.calls(), key=lambda c: (c.line, c.bb)):
            if not c.name.startswith(P + "::") or c.name == FL:
                continue
            for i, t in enumerate(c.argtys):
                if "BinaryOp" in t:
                    n += 1
                    k_ += 1
                    R.check(bool(derives_from(g, [c.args[i]], isflip)), rid, f"{nm}:{c.name.rsplit('::', 1)[-1]}#{k_}:effective-op", f"{c.name.rsplit('::', 1)[-1]}() is handed the predicate's raw operator: for a literal-first comparison (`L <= col`) the range test is made for the wrong direction, so a row group is pruned / 'proved' on the wrong bound", g.loc(c.bb), dict())
        for i, j, dst, rv, line in g.stmts():
            if rv[0] == "discr" and len(rv) > 2 and rv[2].endswith("BinaryOp"):
                n += 1
                R.check(bool(derives_from(g, ["c:" + rv[1]], isflip)), rid, f"{nm}:dispatch-on-effective-op", "the function dispatches on the predicate's raw operator instead of the flipped one", g.loc(i), dict(), nontrivial=False)
    R.floor(rid, "operator uses in the comparison functions", n, 9)


def _idx(lst, item):
    same = [x for x in lst if x[0] == item[0]]
    return same.index(item)
