"""K8: abstract evaluation of comparison-only functions over an order domain.

A function (or the tail of one, from a given block) that touches its inputs only through comparisons, boolean
connectives and a switch on an enum discriminant is evaluated from its MIR over every assignment of small ranks to its
symbolic inputs (which enumerates every weak ordering of them).  Anything else in the evaluated region raises Undecided.
Floats may additionally take the abstract element NAN, compared with IEEE semantics (every ordered comparison false,
!= true) because that is what the code under analysis executes.
"""
from qe import *


class Undecided(Exception):
    pass


class _Nan:
    def __repr__(self):
        return "NaN"


NAN = _Nan()


def _cmp(op, a, b):
    if a is NAN or b is NAN:
        return op == "Ne"
    return {"Eq": a == b, "Ne": a != b, "Lt": a < b, "Le": a <= b, "Gt": a > b, "Ge": a >= b}[op]


class _Top:
    def __repr__(self):
        return "TOP"


TOP = _Top()


def evaluate(fn, env, start=0, discr=None, max_steps=500, stop_at=None, want=None, lenient=False):
    """env: {local: value}; discr: {local: variant_value} for enum-typed locals whose discriminant is read.
    Returns the value of _0 at return."""
    env = dict(env)
    discr = discr or {}
    bb = start
    steps = 0

    def val(op):
        if isinstance(op, dict):
            if "v" in op:
                return op["v"]
            raise Undecided(f"constant {op}")
        pl = op_place(op)
        base = place_local(pl)
        # look through derefs of references we modelled as the value itself
        rest = [p for p in pl.split("|")[1:] if p != "*"]
        if rest:
            if rest == ["f:0:()"] or rest == ["f:1:()"]:
                v = env.get(base)
                if isinstance(v, tuple):
                    return v[int(rest[0].split(":")[1])]
            raise Undecided(f"projection {pl}")
        if base not in env:
            raise Undecided(f"read of unset local _{base}")
        return env[base]

    while steps < max_steps:
        steps += 1
        if stop_at is not None and bb in stop_at and steps > 1:
            return env.get(want) if want is not None else env
        bl = fn.blocks[bb]
        for s in bl["s"]:
            dst, rv = s[0], s[1]
            if "|" in dst:
                if lenient:
                    continue
                raise Undecided(f"store to {dst}")
            d = int(dst)
            k = rv[0]
            if lenient:
                try:
                    _probe = None
                    if k == "use":
                        _probe = val(rv[1])
                    elif k == "bin":
                        _probe = (val(rv[2]), val(rv[3]))
                    elif k == "un":
                        _probe = val(rv[2])
                    if _probe is TOP or (isinstance(_probe, tuple) and TOP in _probe):
                        env[d] = TOP
                        continue
                except Undecided:
                    env[d] = TOP
                    continue
                if k not in ("use", "bin", "un", "discr", "ref"):
                    env[d] = TOP
                    continue
                if k == "ref":
                    try:
                        pl_ = rv[2]
                        while pl_.endswith("|*"):
                            pl_ = pl_[:-2]
                        env[d] = val("c:" + pl_) if "|" not in pl_ else TOP
                    except Undecided:
                        env[d] = TOP
                    continue
                if k == "discr" and place_local(rv[1]) not in discr:
                    env[d] = TOP
                    continue
            if k == "use":
                env[d] = val(rv[1])
            elif k == "ref":
                pl = rv[2]
                while pl.endswith("|*"):
                    pl = pl[:-2]
                if "|" in pl:
                    raise Undecided(f"ref {rv[2]}")
                env[d] = val("c:" + pl)
            elif k == "bin":
                a, b = val(rv[2]), val(rv[3])
                if rv[1] in ("Eq", "Ne", "Lt", "Le", "Gt", "Ge"):
                    env[d] = _cmp(rv[1], a, b)
                elif rv[1] == "BitAnd":
                    env[d] = bool(a) and bool(b)
                elif rv[1] == "BitOr":
                    env[d] = bool(a) or bool(b)
                else:
                    raise Undecided(f"binop {rv[1]}")
            elif k == "un":
                if rv[1] == "Not":
                    env[d] = not val(rv[2])
                else:
                    raise Undecided(f"unop {rv[1]}")
            elif k == "discr":
                l = place_local(rv[1])
                if l not in discr:
                    raise Undecided(f"discriminant of _{l}")
                env[d] = discr[l]
            else:
                raise Undecided(f"rvalue {k}")
        t = bl["t"]
        if t[0] == "goto":
            bb = t[1]
        elif t[0] == "switch":
            v = val(t[1])
            if v is TOP:
                raise Undecided("branch on a value outside the abstract domain")
            if isinstance(v, bool):
                v = 1 if v else 0
            nxt = t[3]
            for tv, tg in t[2]:
                if tv == v:
                    nxt = tg
            bb = nxt
        elif t[0] == "ret":
            return env.get(0)
        elif t[0] == "call":
            nm = (t[1].get("res") or t[1].get("fn") or "").rsplit("::", 1)[-1]
            m = {"lt": "Lt", "le": "Le", "gt": "Gt", "ge": "Ge", "eq": "Eq", "ne": "Ne"}
            if nm in m and len(t[2]) == 2 and "|" not in t[3]:
                env[int(t[3])] = _cmp(m[nm], val(t[2][0]), val(t[2][1]))
                bb = t[4]
            elif lenient and t[4] is not None and "|" not in t[3]:
                env[int(t[3])] = TOP
                bb = t[4]
            else:
                raise Undecided(f"call {t[1].get('fn')}")
        elif t[0] == "drop":
            bb = t[2]
        else:
            raise Undecided(f"terminator {t[0]}")
    raise Undecided("step limit")
