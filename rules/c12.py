"""C12 Byte-balanced assignment is a deterministic partition within the LPT bound — 'this code is Graham's LPT'."""
from qe import *
import k9
import detk

CLAIMS = ("R1 the processing order is sorted by (bytes descending, canonical key ascending) and canonical_key is (table,file,row_group,row_offset); "
          "R2 the node choice is a strict-< argmin scan over ascending node index starting from node 0 (lowest index wins ties); "
          "R3 each iteration pushes the split index to exactly the chosen node and adds that split's bytes and rows to the same node, unconditionally; "
          "R4 assign_lpt's in-crate call closure contains no nondeterminism source.")
NOT_DECIDED = "the 4/3-1/(3N) bound numerically (it follows from Graham's theorem once R1-R3 hold; the theorem is trusted, not re-proved)."

A = "distributed::splits::assign_lpt"
SPLIT = "distributed::splits::Split"


def run(F, R):
    R.rule("C12.R1", "K9 comparator evaluation", "order.sort_by evaluates to [(splits[i].bytes, desc), (canonical_key(splits[i]), asc)] and dominates the assignment loop")
    R.rule("C12.R2", "K8/K3", "best starts at 0 and is only reassigned to n under node_bytes[n] < node_bytes[best] inside `for n in 1..nodes`")
    R.rule("C12.R3", "K3", "per_node[best].push(idx), node_bytes[best] += splits[idx].bytes, node_rows[best] += splits[idx].num_rows all lie on every path through the loop body")
    R.rule("C12.R4", "K-DET", "no clock/env/RNG/hash-iteration in the in-crate closure of assign_lpt")
    f = F.fn(A)
    # ---- the outer loop: push(index_mut(V, B), X)
    pushes = []
    for c in f.calls():
        if c.name.endswith("Vec::<T, A>::push"):
            o = origin(f, c.args[0])
            if o[0] == "call" and o[1].name.endswith("::index_mut") and "Vec<std::vec::Vec<usize>>" in o[1].self_ty:
                pushes.append((c, o[1]))
    R.floor("C12.R3", "per_node[..].push sites", len(pushes), 1)
    if len(pushes) != 1:
        R.bad("C12.R3", "single-push", f"expected exactly one push into per_node[..], found {len(pushes)}", f.loc())
        return
    push, pidx = pushes[0]
    best_o = origin(f, pidx.args[1])
    idx_o = origin(f, push.args[1])
    if best_o[0] not in ("multi", "named") or idx_o[0] != "place":
        R.undecided("C12.R3", "loop-shape", f"cannot identify the chosen-node local / split index ({best_o[0]}, {idx_o[0]})", f.loc(push.bb)); return
    best = best_o[1]
    # idx = Some payload of next() over the sorted order
    nxt = derives_from(f, [push.args[1]], lambda k, x: x if (k == "call" and x.name.endswith("::next")) else None)
    sort = [c for c in f.calls() if c.name.endswith("::sort_by") or c.name.endswith("::sort_unstable_by")]
    order_ok = False
    keys = None
    for s in sort:
        try:
            keys = k9.sort_call_keys(F, f, s)
        except k9.Undecided as e:
            R.undecided("C12.R1", "order-comparator", str(e), f.loc(s.bb)); return
        # sorted vector is the one iterated by the loop
        sv = derives_from(f, [s.args[0]], lambda k, x: ("L", place_local(x)) if (k == "place" and "|" not in x and f.local_name(int(x))) else None, through_calls=True)
        it = derives_from(f, [nxt.args[0]], lambda k, x: ("L", place_local(x)) if (k == "place" and "|" not in x and sv and place_local(x) == sv[1]) else None) if nxt else None
        if sv and it and f.dominates(s.bb, nxt.bb):
            order_ok = True
            want = [("⟨1⟩.splits[•].bytes", "desc"), (SPLIT + "::canonical_key(⟨1⟩.splits[•])", "asc")]
            R.check(keys == want, "C12.R1", "order-comparator", f"processing order is {keys}, not (bytes desc, canonical key asc)", f.loc(s.bb), dict(evaluated=keys, expected=want))
    if not order_ok:
        R.bad("C12.R1", "order-comparator", "the assignment loop does not iterate a vector sorted by sort_by beforehand", f.loc(push.bb), dict(keys=keys))
    ck = F.fn(SPLIT + "::canonical_key")
    ke = k9.kexpr(ck, "c:0")
    R.check(ke == "(⟨1⟩.table,⟨1⟩.file,⟨1⟩.row_group,⟨1⟩.row_offset)", "C12.R1", "canonical_key-shape", f"canonical_key is {ke}", ck.loc(), dict(evaluated=ke))

    # ---- R2 argmin scan
    bdefs = f.defs().get(best, [])
    inits = [d for d in bdefs if d[1] == "stmt" and d[2][1][0] == "use" and isinstance(d[2][1][1], dict)]
    reassign = [d for d in bdefs if d not in inits]
    ok_init = len(inits) == 1 and op_const(inits[0][2][1][1]) == 0 and f.dominates(inits[0][0], push.bb)
    R.check(ok_init, "C12.R2", "best-init-0", "the scan does not start from node 0", f.loc(inits[0][0]) if inits else f.loc(), dict(defs=len(bdefs)))
    R.check(len(reassign) == 1, "C12.R2", "best-single-reassign", f"{len(reassign)} reassignments of the chosen node", f.loc(), nontrivial=False)
    for d in reassign:
        bb = d[0]
        if d[1] != "stmt":
            R.bad("C12.R2", "best-reassign-shape", "chosen node assigned from a call", f.loc(bb)); continue
        src = d[2][1]
        n_o = origin(f, src[1]) if src[0] == "use" else ("?",)
        # n = Some payload of Range::next
        rng = derives_from(f, [src[1]], lambda k, x: x if (k == "call" and x.name.endswith("::next") and c_self_range(x)) else None) if src[0] == "use" else None
        ok_rng = False
        if rng:
            ro = derives_from(f, [rng.args[0]], lambda k, x: None)
            # the range literal feeding the iterator
            lit = None
            for i, j, dst, rv, line in f.stmts():
                if rv[0] == "agg" and rv[1] == "adt:std::ops::Range" and derives_from(f, [rng.args[0]], lambda k, x, dst=dst: (k == "place" and x == dst) or None):
                    lit = rv
            if lit:
                start = op_const(lit[2][0]) if isinstance(lit[2][0], dict) else None
                end_o = k9.kexpr(f, lit[2][1])
                nodes_e = k9.kexpr(f, "c:" + str(f.locals_named("nodes")[-1])) if f.locals_named("nodes") else None
                ok_rng = start == 1 and end_o == nodes_e
                R.check(ok_rng, "C12.R2", "scan-range-1..nodes", f"scan range is {start}..{end_o}", f.loc(bb), dict(start=start, end=end_o))
        if not rng:
            R.bad("C12.R2", "scan-range-1..nodes", "candidate node does not come from an ascending Range iteration", f.loc(bb))
        # guard: Lt(node_bytes[n], node_bytes[best]) true edge
        gs = controlling(f, bb)
        okg = False
        for sb, val in gs:
            si = f.switch_info(sb)
            if si[0] != "bool":
                continue
            o = origin(f, "c:" + si[1])
            if o[0] == "rv" and o[1][0] == "bin":
                opk = o[1][1]
                a, b = k9.kexpr(f, o[1][2]), k9.kexpr(f, o[1][3])
                n_e = k9.kexpr(f, src[1])
                lhs = a.endswith(f"[{n_e}]") and b.endswith(f"[?{best}]") and a.rsplit("[", 1)[0] == b.rsplit("[", 1)[0]
                rhs = b.endswith(f"[{n_e}]") and a.endswith(f"[?{best}]") and a.rsplit("[", 1)[0] == b.rsplit("[", 1)[0]
                if (opk == "Lt" and lhs and val is True) or (opk == "Gt" and rhs and val is True) or (opk == "Ge" and lhs and val is False) or (opk == "Le" and rhs and val is False):
                    # compares loads (bytes vector = the one updated with +=)
                    okg = True
                    R.extra.setdefault("c12_guard", f"{opk}({a},{b}) on edge {val}")
        R.check(okg, "C12.R2", "strict-less-guard", "chosen node is replaced under a condition other than load[n] < load[best] (strict): ties would not go to the lowest index", f.loc(bb), dict(guards=[(sb, str(v)) for sb, v in gs]))

    # ---- R3 unconditional updates with the same index
    adds = []
    for i, j, dst, rv, line in f.stmts():
        if dst.endswith("|*") and rv[0] == "use":
            o = origin(f, rv[1])
            if o[0] == "rv" and o[1][0] == "bin" and o[1][1].startswith("Add"):
                tgt = origin(f, "c:" + dst.split("|")[0])
                if tgt[0] == "call" and tgt[1].name.endswith("::index_mut"):
                    adds.append((i, tgt[1], o[1]))
    R.floor("C12.R3", "indexed += updates", len(adds), 2)
    body_entry = None
    if nxt:
        for sb in range(f.n):
            si = f.switch_info(sb)
            if si and si[0] == "enum" and si[1][0] == nxt.dest and "Some" in si[2]:
                body_entry = si[2]["Some"]
    if body_entry is None:
        R.undecided("C12.R3", "loop-body", "cannot find the loop body entry", f.loc(push.bb)); return
    def on_every_iteration(bb):
        return not (nxt.bb in f.reachable(body_entry, avoid=frozenset([bb])))
    R.check(on_every_iteration(push.bb), "C12.R3", "push-unconditional", "a split can pass through the loop without being pushed to a node", f.loc(push.bb), dict(body_entry=body_entry))
    want_fields = {"bytes": "u64", "num_rows": "i64"}
    seen_fields = {}
    for bb, im, binrv in adds:
        i_e = k9.kexpr(f, im.args[1])
        val_e = k9.kexpr(f, binrv[3])
        fld = val_e.rsplit(".", 1)[-1]
        same_idx = i_e == f"?{best}"
        from_idx = val_e == f"⟨1⟩.splits[{k9.kexpr(f, push.args[1])}].{fld}"
        uncond = on_every_iteration(bb)
        seen_fields[fld] = (same_idx, from_idx, uncond)
    for fld in want_fields:
        t = seen_fields.get(fld)
        R.check(bool(t) and all(t), "C12.R3", f"node-total-{fld}", f"per-node {fld} total is not updated with splits[idx].{fld} at the chosen node on every iteration ({t})", f.loc(push.bb), dict(found=t))
    # the Assignment literal takes the three vectors
    for i, j, dst, rv, line in f.stmts():
        if rv[0] == "agg" and rv[1] == "adt:distributed::splits::Assignment":
            m = dict(zip(rv[3], rv[2]))
            okv = origin(f, m["per_node"])[0] in ("named", "multi", "call") and k9.kexpr(f, m["total_bytes"]) == "⟨1⟩.total_bytes"
            R.check(okv, "C12.R3", "assignment-literal", "Assignment is not built from the loop's vectors / set.total_bytes", f.loc(i), nontrivial=False)

    # ---- R4
    nd = detk.nondet_sites(F, [A])
    R.check(not nd, "C12.R4", "assign_lpt-deterministic", f"nondeterminism in closure: {[(str(c), k) for c, k in nd][:4]}", f.loc(), dict(closure=sorted(F.closure_of([A]))))


def c_self_range(c):
    return c.self_ty.startswith("std::ops::Range<")


def controlling(f, b):
    from c15 import controlling_switches
    return controlling_switches(f, b)
