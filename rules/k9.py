"""K9: symbolic evaluation of comparator closures / sort keys from MIR into a lexicographic key list.

kexpr(fn, operand) renders the value of an operand as a canonical expression over the function's
parameters (⟨n⟩ = parameter local n, U<i> = closure upvar i), looking through moves, borrows, derefs,
clones, tuple construction/projection and Index calls.  cmp_eval(F, closure_fn) returns
[(key_expr_with_•, 'asc'|'desc'), ...] or raises Undecided.
"""
from qe import *


class Undecided(Exception):
    pass


TRANSPARENT = ("deref", "deref_mut", "borrow", "borrow_mut", "as_ref", "as_mut", "clone", "as_str", "as_slice", "into", "to_owned", "as_deref", "copied", "cloned")


def kexpr(fn, op, env=None, depth=0):
    if depth > 60:
        return "?deep"
    if isinstance(op, dict):
        if "fn" in op:
            return "fn:" + op["fn"]
        return "#" + str(op.get("v", op.get("p")))
    pl = op_place(op) if (isinstance(op, str) and len(op) > 1 and op[1] == ":") else op
    parts = pl.split("|")
    base = int(parts[0])
    e = _local(fn, base, env, depth)
    for part in parts[1:]:
        if part == "*":
            continue
        if part.startswith("f:"):
            _, name, adt = part.split(":", 2)
            if adt == "{closure}" and base == 1 and e == "⟨1⟩":
                e = (env or {}).get(int(name), f"U{name}")
            elif adt == "()" and e.startswith("(") and e.endswith(")"):
                comps = _split_top(e[1:-1])
                i = int(name)
                e = comps[i] if i < len(comps) else e + "." + name
            else:
                e = e + "." + name
        elif part.startswith("v:"):
            e = e + "@" + part[2:]
        elif part.startswith("[") and part[1:-1].isdigit():
            e = e + "[" + _local(fn, int(part[1:-1]), env, depth + 1) + "]"
        else:
            e = e + part
    return e


def _split_top(s):
    out, d, cur = [], 0, ""
    for ch in s:
        if ch in "([":
            d += 1
        elif ch in ")]":
            d -= 1
        if ch == "," and d == 0:
            out.append(cur)
            cur = ""
        else:
            cur += ch
    if cur:
        out.append(cur)
    return out


def _local(fn, l, env, depth):
    if 1 <= l <= fn.raw["nargs"]:
        return f"⟨{l}⟩"
    ds = fn.defs().get(l, [])
    if len(ds) != 1:
        return f"?{l}"
    bb, kind, payload = ds[0]
    if kind == "call":
        c = payload
        nm = c.name.rsplit("::", 1)[-1]
        args = [kexpr(fn, a, env, depth + 1) for a in c.args]
        if nm in TRANSPARENT and len(args) == 1:
            return args[0]
        if nm in ("index", "index_mut") and len(args) == 2:
            return f"{args[0]}[{args[1]}]"
        short = c.name if c.name in fn.F.bodies else nm
        return f"{short}({','.join(args)})"
    dst, rv, line = payload
    k = rv[0]
    if k == "use":
        return kexpr(fn, rv[1], env, depth + 1)
    if k == "ref":
        return kexpr(fn, rv[2], env, depth + 1)
    if k == "cast":
        return kexpr(fn, rv[2], env, depth + 1)
    if k == "agg":
        if rv[1] == "tuple":
            return "(" + ",".join(kexpr(fn, o, env, depth + 1) for o in rv[2]) + ")"
        if rv[1].startswith("closure:"):
            return "closure:" + rv[1][8:]
        return rv[1][4:] + "{" + ",".join(kexpr(fn, o, env, depth + 1) for o in rv[2]) + "}"
    if k == "bin":
        return f"{rv[1]}({kexpr(fn, rv[2], env, depth + 1)},{kexpr(fn, rv[3], env, depth + 1)})"
    if k == "un":
        return f"{rv[1]}({kexpr(fn, rv[2], env, depth + 1)})"
    return f"?{l}"


def closure_env(fn, clo_local_op, env=None):
    """captured operands of the closure aggregate defining the operand -> {i: expr}"""
    o = origin(fn, clo_local_op)
    if o[0] == "rv" and o[1][0] == "agg" and o[1][1].startswith("closure:"):
        return o[1][1][8:], {i: kexpr(fn, a, env) for i, a in enumerate(o[1][2])}
    return None, {}


def cmp_eval(F, cf, env=None):
    """comparator closure (params ⟨2⟩, ⟨3⟩) -> [(key, dir)]"""
    return _ord(F, cf, "c:0", env)


def _ord(F, fn, op, env):
    o = origin(fn, op)
    if o[0] == "call":
        c = o[1]
        nm = c.name.rsplit("::", 1)[-1]
        if nm in ("cmp", "total_cmp") or (nm == "partial_cmp"):
            a, b = kexpr(fn, c.args[0], env), kexpr(fn, c.args[1], env)
            return [_key(a, b)]
        if nm in ("unwrap", "unwrap_or", "expect") and c.args:
            return _ord(F, fn, c.args[0], env)
        if nm == "then":
            return _ord(F, fn, c.args[0], env) + _ord(F, fn, c.args[1], env)
        if nm == "then_with":
            first = _ord(F, fn, c.args[0], env)
            path, cenv = closure_env(fn, c.args[1], env)
            if not path:
                raise Undecided("then_with argument is not a closure literal")
            return first + _ord(F, F.fn(path), "c:0", cenv)
        if nm == "reverse":
            return [(k, "desc" if d == "asc" else "asc") for k, d in _ord(F, fn, c.args[0], env)]
        raise Undecided(f"comparator uses {c.name}")
    raise Undecided(f"comparator result comes from {o[0]}")


def _key(a, b):
    if "⟨2⟩" in a and "⟨3⟩" not in a and b == a.replace("⟨2⟩", "⟨3⟩"):
        return (a.replace("⟨2⟩", "•"), "asc")
    if "⟨3⟩" in a and "⟨2⟩" not in a and b == a.replace("⟨3⟩", "⟨2⟩"):
        return (a.replace("⟨3⟩", "•"), "desc")
    raise Undecided(f"cmp operands are not the same key of the two parameters: {a} vs {b}")


def key_eval(F, kf, env=None):
    """sort_by_key closure (param ⟨2⟩) -> key expr"""
    return kexpr(kf, "c:0", env).replace("⟨2⟩", "•")


def sort_call_keys(F, fn, call):
    """for a sort_by / sort_unstable_by / sort_by_key / sort_by_cached_key call: [(key, dir)]"""
    nm = call.name.rsplit("::", 1)[-1]
    path, env = closure_env(fn, call.args[1])
    if not path:
        raise Undecided("sort closure is not a literal")
    cf = F.fn(path)
    if nm in ("sort_by", "sort_unstable_by"):
        return cmp_eval(F, cf, env)
    if nm in ("sort_by_key", "sort_unstable_by_key", "sort_by_cached_key"):
        return [(key_eval(F, cf, env), "asc")]
    raise Undecided(nm)


def vec_literal_elems(fn, op):
    """elements of a `vec![a, b, ..]` literal feeding operand `op` (MIR: box new_uninit, array store, into_vec), as kexprs; None if not such a literal"""
    o = origin(fn, op)
    if o[0] != "call" or not o[1].name.endswith("box_assume_init_into_vec_unsafe"):
        return None
    base = o[1].args[0]
    seen = 0
    while seen < 10:
        seen += 1
        pl = op_place(base)
        if pl is None:
            return None
        l = place_local(pl)
        ds = fn.defs().get(l, [])
        if len(ds) == 1 and ds[0][1] == "stmt" and ds[0][2][1][0] == "use":
            base = ds[0][2][1][1]
            continue
        break
    for i, j, dst, rv, line in fn.stmts():
        if dst.startswith(f"{l}|*") and rv[0] == "agg" and rv[1] == "array":
            return [kexpr(fn, e) for e in rv[2]]
    return None
