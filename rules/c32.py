"""C32 Join reordering never introduces a cross product — structural clauses."""
from qe import *
import k9
import guards

CLAIMS = ("R1 the rule-name literal that splits the rule list into loop rules and run-once-after rules equals PackedJoinKeys::name(), the split keeps `!=` in the loop, the run-once rules are applied outside the fix-point loop, and every rule-name literal compared in Optimizer::optimize equals exactly one rule's name(); "
          "R2 in JoinReorder, conditions collected because they did not become join edges (and non-equi conjuncts) are re-applied as Filters on every path to the normal return; "
          "R3 a Cross JoinNode literal inside join_reorder.rs occurs only on the no-connecting-edge branch.")
NOT_DECIDED = "that the 'no edge' branch is unreachable for every connected join graph, and the DP enumerator's connectivity invariant (graph algorithms over run-time data)."

OR = "optimizer::OptimizerRule"
OPT = "optimizer::Optimizer"


def rule_names(F):
    out = {}
    for im in F.impls_of(OR):
        mp = dict(im["methods"]).get("name")
        if mp and mp in F.bodies:
            lits = [l[0][2:] for l in F.bodies[mp]["lits"] if l[0].startswith("s:")]
            if len(lits) == 1:
                out[im["self_ty"]] = lits[0]
    return out


def rule_order(F, R, rid):
    R.rule(rid, "K6 table agreement + K3", "partition literal == PackedJoinKeys::name(); loop keeps `!=`; final rules run outside the fix-point loop; every compared rule-name literal is some rule's name()")
    names = rule_names(F)
    R.floor(rid, "OptimizerRule impls with a literal name()", len(names), 12)
    pjk = [v for k, v in names.items() if k.endswith("::PackedJoinKeys")]
    if len(pjk) != 1:
        raise Broken("PackedJoinKeys::name() literal not found")
    ow = OPT + "::optimize_with_rules"
    fam = F.family(ow)
    cmp_lits = [(g, l) for g in fam for l in g.raw["lits"] if l[0].startswith("s:") and l[1] in ("bin:!=", "bin:==")]
    part = [(g, l) for g, l in cmp_lits if F.bodies[g.path]["kind"] == "closure"]
    ok = len(part) == 1 and part[0][1][0][2:] == pjk[0] and part[0][1][1] == "bin:!="
    # the closure is the argument of Iterator::partition, whose first output is iterated inside the fix-point loop
    f = F.fn(ow)
    pc = [c for c in f.calls() if c.name.rsplit("::", 1)[-1] == "partition"]
    ok = ok and len(pc) == 1 and origin(f, pc[0].args[1])[0] == "rv" and origin(f, pc[0].args[1])[1][1] == "closure:" + part[0][0].path if part else False
    R.check(ok, rid, "partition-literal==PackedJoinKeys::name()", f"the rule list is split on {[l[0] for g, l in part]} with {[l[1] for g, l in part]}, PackedJoinKeys::name() is {pjk[0]!r}", f.loc(), dict(literal=[l[0] for g, l in part], name=pjk[0]))
    # final rules applied outside the iteration loop
    opt_calls = [c for c in f.calls() if c.callee == OR + "::optimize"]
    R.floor(rid, "rule.optimize call sites in optimize_with_rules", len(opt_calls), 2)
    iters = [c for c in f.calls() if c.name.endswith("::next") and c.self_ty.startswith("std::ops::Range<usize>")]
    if pc and iters:
        hdr = iters[0]
        for c in opt_calls:
            recv = k9.kexpr(f, c.args[0])
            in_loop = hdr.bb in f.reachable(c.bb) and f.dominates(hdr.bb, c.bb)
            from_final = ".1" in recv.split("partition(")[1][:400] if "partition(" in recv else None
            # decide by tuple component: loop_rules = partition(..).0, final_rules = .1
            comp = None
            if "partition(" in recv:
                tail = recv[recv.index("partition("):]
                depth = 0
                for i, ch in enumerate(tail):
                    if ch == "(":
                        depth += 1
                    elif ch == ")":
                        depth -= 1
                        if depth == 0:
                            comp = tail[i + 1:i + 3]
                            break
            if comp == ".1":
                R.check(not in_loop, rid, "final-rules-after-fixpoint", "the run-once rules (PackedJoinKeys) are applied inside the fix-point loop: JoinReorder would rebuild the join graph minus the packed edge", f.loc(c.bb), dict(receiver=recv[:100]))
            elif comp == ".0":
                R.check(in_loop, rid, "loop-rules-in-fixpoint", "loop rules are not applied in the fix-point loop", f.loc(c.bb), nontrivial=False)
            else:
                R.undecided(rid, f"optimize-call@{c.line}", f"cannot tell which partition {recv[:80]} belongs to", f.loc(c.bb))
    o = F.family(OPT + "::optimize")
    cl = [(g, l) for g in o for l in g.raw["lits"] if l[0].startswith("s:") and l[1] in ("bin:!=", "bin:==")]
    R.floor(rid, "rule-name comparisons in Optimizer::optimize", len(cl), 5)
    for g, l in cl:
        v = l[0][2:]
        n = list(names.values()).count(v)
        R.check(n == 1, rid, f"optimize:literal:{v}", f"rule-name literal {v!r} matches {n} rules' name()", f"{g.file}:{l[2][0]}", dict(literal=v), nontrivial=False)


def run(F, R):
    rule_order(F, R, "C32.R1")
    import c32b
    c32b.run(F, R)
