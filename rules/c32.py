"""C32 Join reordering never introduces a cross product — structural clauses."""
from qe import *
import k9
import guards

CLAIMS = ("R1 the rule-name literal that splits the rule list into loop rules and run-once-after rules equals PackedJoinKeys::name(), the split keeps `!=` in the loop, no loop rule is applied (directly or through a helper that is handed the loop rules) on any path after a run-once rule has been applied, and every rule-name literal compared in Optimizer::optimize equals exactly one rule's name(); "
          "R2 in JoinReorder, conditions collected because they did not become join edges (and non-equi conjuncts) are re-applied as Filters on every path to the normal return; "
          "R3 a Cross JoinNode literal inside join_reorder.rs occurs only on the no-connecting-edge branch; "
          "R4 the column collector that decides which relation each side of an equality belongs to adds a bare column name only for an unqualified reference (a qualified reference must resolve to exactly one relation, or its equality never becomes a join edge).")
NOT_DECIDED = "that the 'no edge' branch is unreachable for every connected join graph, and the DP enumerator's connectivity invariant (graph algorithms over run-time data)."

OR = "optimizer::OptimizerRule"
OPT = "optimizer::Optimizer"


def rule_names(F):
    out = {}
    for im in F.impls_of(OR):
        mp = dict(im["methods"]).get("name")
        if mp and mp in F.bodies:
            lits = [l[0][2:] for l in F.bodies[mp]["lits"] if l[0].startswith("s:")]
            if len(lits) == 1:
                out[im["self_ty"]] = lits[0]
    return out


def rule_order(F, R, rid):
    R.rule(rid, "K6 table agreement + K3", "partition literal == PackedJoinKeys::name(); loop keeps `!=`; final rules run outside the fix-point loop; every compared rule-name literal is some rule's name()")
    names = rule_names(F)
    R.floor(rid, "OptimizerRule impls with a literal name()", len(names), 12)
    pjk = [v for k, v in names.items() if k.endswith("::PackedJoinKeys")]
    if len(pjk) != 1:
        raise Broken("PackedJoinKeys::name() literal not found")
    ow = OPT + "::optimize_with_rules"
    fam = F.family(ow)
    cmp_lits = [(g, l) for g in fam for l in g.raw["lits"] if l[0].startswith("s:") and l[1] in ("bin:!=", "bin:==")]
    part = [(g, l) for g, l in cmp_lits if F.bodies[g.path]["kind"] == "closure"]
    ok = len(part) == 1 and part[0][1][0][2:] == pjk[0] and part[0][1][1] == "bin:!="
    # the closure is the argument of Iterator::partition, whose first output is iterated inside the fix-point loop
    f = F.fn(ow)
    pc = [c for c in f.calls() if c.name.rsplit("::", 1)[-1] == "partition"]
    ok = ok and len(pc) == 1 and origin(f, pc[0].args[1])[0] == "rv" and origin(f, pc[0].args[1])[1][1] == "closure:" + part[0][0].path if part else False
    R.check(ok, rid, "partition-literal==PackedJoinKeys::name()", f"the rule list is split on {[l[0] for g, l in part]} with {[l[1] for g, l in part]}, PackedJoinKeys::name() is {pjk[0]!r}", f.loc(), dict(literal=[l[0] for g, l in part], name=pjk[0]))
    # ordering: once a run-once rule (PackedJoinKeys) has been applied, no loop rule (JoinReorder, the pushdowns) runs again.
    # An "application site" of a rule set is a direct `rule.optimize(..)` whose receiver comes out of that partition
    # component, or a call of a helper of this module that is handed that component and applies OptimizerRule::optimize.
    def component(op):
        e = k9.kexpr(f, op)
        if "partition(" not in e:
            return None
        tail = e[e.index("partition("):]
        depth = 0
        for i_, ch in enumerate(tail):
            if ch == "(":
                depth += 1
            elif ch == ")":
                depth -= 1
                if depth == 0:
                    return tail[i_ + 1:i_ + 3]
        return None
    sites = {".0": [], ".1": []}
    for c in f.calls():
        if c.callee == OR + "::optimize":
            comp = component(c.args[0])
            if comp in sites:
                sites[comp].append(c)
            else:
                R.undecided(rid, f"optimize-call@{_n(f, c)}", f"cannot tell which partition {k9.kexpr(f, c.args[0])[:80]} belongs to", f.loc(c.bb))
        elif c.name in F.bodies and c.name.startswith("optimizer::") and any(x.callee == OR + "::optimize" for x in F.fam_calls(c.name)):
            for a in c.args:
                comp = component(a)
                if comp in sites:
                    sites[comp].append(c)
    R.floor(rid, "application sites of the loop rules", len(sites[".0"]), 1)
    R.floor(rid, "application sites of the run-once rules", len(sites[".1"]), 1)
    again = [(a.line, b.line) for a in sites[".1"] for b in sites[".0"] if f.path_exists(a.bb, b.bb)]
    R.check(not again, rid, "final-rules-after-fixpoint", "a loop rule can run after (or interleaved with) the run-once rules: JoinReorder then sees PackedJoinKeys' packed ON pair, whose one side spans two relations, finds no edge for it and falls back to a cross join", f.loc(sites[".1"][0].bb) if sites[".1"] else f.loc(), dict(loop_sites=len(sites[".0"]), final_sites=len(sites[".1"])))
    # the loop rules are applied in a fix-point loop (here or in the helper)
    def in_range_loop(fn, c):
        return any(x.name.endswith("::next") and x.self_ty.startswith("std::ops::Range<usize>") and fn.dominates(x.bb, c.bb) and fn.path_exists(c.bb, x.bb) for x in fn.calls())
    loop_ok = False
    for c in sites[".0"]:
        if c.callee == OR + "::optimize":
            loop_ok = loop_ok or in_range_loop(f, c)
        else:
            h = F.fn(c.name)
            loop_ok = loop_ok or any(in_range_loop(h, x) for x in h.calls() if x.callee == OR + "::optimize")
    R.check(loop_ok, rid, "loop-rules-in-fixpoint", "loop rules are not applied in a fix-point loop", f.loc(), nontrivial=False)
    o = F.family(OPT + "::optimize")
    cl = [(g, l) for g in o for l in g.raw["lits"] if l[0].startswith("s:") and l[1] in ("bin:!=", "bin:==")]
    R.floor(rid, "rule-name comparisons in Optimizer::optimize", len(cl), 5)
    for g, l in cl:
        v = l[0][2:]
        n = list(names.values()).count(v)
        R.check(n == 1, rid, f"optimize:literal:{v}", f"rule-name literal {v!r} matches {n} rules' name()", f"{g.file}:{l[2][0]}", dict(literal=v), nontrivial=False)


def _n(f, c):
    same = sorted([x for x in f.calls() if x.name == c.name], key=lambda x: (x.line, x.bb))
    return same.index(c)


def run(F, R):
    rule_order(F, R, "C32.R1")
    import c32b
    c32b.run(F, R)
