"""C09 A distributed answer equals the single-node answer — structural clauses."""
from qe import *
import k9
import guards

CLAIMS = ("R1 the three aggregate-decomposition tables of distributed/plan.rs agree with each other and with the exact table COUNT->(COUNT,SUM), SUM->(SUM,SUM), MIN->(MIN,MIN), MAX->(MAX,MAX), AVG->((SUM,COUNT), SUM/SUM); nothing else is supported and the plan-level net refuses every other aggregate and every DISTINCT; "
          "R2 in rewrite_function the supported-aggregate rewrite is reached only past the OVER / FILTER / parameters / DISTINCT / in-argument ORDER BY refusals; "
          "R3 plan_topn pre-truncates each shard to LIMIT + OFFSET (both read on that path, combined by addition) and only when a limit exists; "
          "R4 execute_any_distributed falls to the gather path only from the NotImplemented arm (other planning errors propagate), and merge() refuses the Gather shape; "
          "R5 shard-safety only ever decreases while the capability check walks the plan: the shard_safe flag handed to a child is the incoming flag or false, never a fresh true; per join type the null-supplying / build side gets false (LEFT, SEMI, ANTI: right; RIGHT: left; FULL and the internal kinds: both); a scan becomes shard-eligible only under `!in_subquery && shard_safe`; "
          "R6 (= C05.R7) Split::file never keys a lookup.")
NOT_DECIDED = "correctness of the rewritten SQL text for arbitrary statements; row-order questions."

P = "distributed::plan"
EXPECT = {"COUNT": ({"COUNT"}, ["SUM"]), "AVG": ({"SUM", "COUNT"}, ["SUM", "SUM"])}


def lits_in(fn, span, role_prefix=None):
    out = []
    for v, role, sp in fn.raw["lits"]:
        if v.startswith("s:") and span_contains(span, sp) and (role_prefix is None or role.startswith(role_prefix)):
            out.append((v[2:], sp))
    return out


WF = "distributed::plan::WalkFlags"
JN = "planner::logical_plan::JoinNode"
# which sides may inherit the incoming flag: (left, right)
SIDE_TABLE = {"Inner": (True, True), "Cross": (True, True), "Left": (True, False), "Semi": (True, False), "Anti": (True, False), "Right": (False, True), "Full": (False, False)}


def shard_safety(F, R):
    R.rule("C09.R5", "K5 monotone flag + K4 arm table + K3 guard", "shard_safe handed to children = incoming flag or false; join-type table; scan eligibility guarded by !in_subquery && shard_safe")
    wc = F.fn(P + "::walk_census")
    fam = [g for g in F.family(wc.path)] + [g for g in F.family(P + "::census_expr")]
    n = 0
    for g in fam:
        for i, j, dst, rv, line in g.stmts():
            if rv[0] == "agg" and rv[1] == "adt:" + WF:
                n += 1
                m = dict(zip(rv[3], rv[2]))
                fresh = derives_from(g, [m["shard_safe"]], lambda k, x: (k == "const" and x.get("v") is True and x) or None, through_calls=False)
                R.check(not fresh, "C09.R5", f"{F.bodies[g.path]['name']}:shard_safe-monotone#{n}", "a child of the plan walk is handed shard_safe = true regardless of the incoming flag: a table below the null-supplying side of an outer join (or the build side of a semi/anti join) becomes shard-eligible again, and every shard then emits the preserved side's unmatched rows", g.loc(i), dict())
    R.floor("C09.R5", "WalkFlags literals in the census walk", n, 3)
    # join-type table
    ms = [m for m in wc.raw["matches"] if m["kind"] == "match" and m["scrut"].endswith("::JoinType")]
    if len(ms) != 1:
        raise Broken(f"walk_census: {len(ms)} matches on JoinType")
    # which tuple component feeds which side
    comp = {}
    for c in wc.calls():
        if c.name != wc.path:
            continue
        side = derives_from(wc, [c.args[0]], lambda k, x: (k == "place" and [f_ for f_, a in place_fields(x) if a == JN and f_ in ("left", "right")]) or None)
        fl = origin(wc, c.args[2])
        if side and fl[0] == "rv" and fl[1][0] == "agg" and fl[1][1] == "adt:" + WF:
            m = dict(zip(fl[1][3], fl[1][2]))
            o = origin(wc, m["shard_safe"])
            if o[0] == "place":
                parts = o[1].split("|")
                if len(parts) == 2 and parts[1].startswith("f:"):
                    comp[side[0]] = (place_local(o[1]), int(parts[1].split(":")[1]))
    if set(comp) != {"left", "right"} or comp["left"][0] != comp["right"][0]:
        R.undecided("C09.R5", "join-side-table:shape", f"cannot relate the per-side flags to the recursive calls ({comp})", wc.loc())
        return
    tl = comp["left"][0]
    arms_seen = 0
    for a in ms[0]["arms"]:
        heads = [pat_head(x).rsplit("::", 1)[-1] for x in pat_alternatives(a["pat"])]
        tuples = [(i, rv) for i, j, dst, rv, line in wc.stmts() if dst == str(tl) and rv[0] == "agg" and rv[1] == "tuple" and len(rv[2]) == 2 and a["span"][0] <= line <= a["span"][2]]
        if len(tuples) != 1:
            R.undecided("C09.R5", f"join-side-table:{'|'.join(heads)}", f"{len(tuples)} side tuples in this arm", f"{wc.file}:{a['span'][0]}")
            continue
        i, rv = tuples[0]
        isfalse = [isinstance(o, dict) and o.get("v") is False for o in rv[2]]
        lf, rf_ = isfalse[comp["left"][1]], isfalse[comp["right"][1]]
        for h in heads:
            arms_seen += 1
            allow_l, allow_r = SIDE_TABLE.get(h, (False, False))
            ok = (allow_l or lf) and (allow_r or rf_)
            R.check(ok, "C09.R5", f"join-side-table:{h if h in SIDE_TABLE else 'other'}", f"join type {h}: the {'left' if not (allow_l or lf) else 'right'} input may inherit shard-safety although it is the null-supplying / build side: sharding a table under it duplicates (outer) or multiplies (semi/anti) rows across shards", f"{wc.file}:{a['span'][0]}", dict(left_forced_false=lf, right_forced_false=rf_))
    R.floor("C09.R5", "join-type arms examined", arms_seen, 7)
    # scan eligibility
    TC = "distributed::plan::TableCensus"
    stores = [i for i, j, dst, rv, line in wc.stmts() if place_fields(dst)[-1:] == [("eligible_once", TC)] and isinstance(rv[1], dict) and rv[1].get("v") is True]
    R.floor("C09.R5", "eligible_once = true stores", len(stores), 1)
    for i in stores:
        gs = guards.guards_of(wc, i, require_err=False)
        g_safe = any("shard_safe" in cd and v is True for sb, cd, v in gs)
        g_sub = any("in_subquery" in cd and ((cd.startswith("Not(") and v is True) or (not cd.startswith("Not(") and v is False)) for sb, cd, v in gs)
        R.check(g_safe and g_sub, "C09.R5", "scan:eligible-only-when-safe-and-not-in-subquery", "a scan is marked shard-eligible without both guards (!in_subquery && shard_safe)", wc.loc(i), dict(guards=[(cd, v) for sb, cd, v in gs]))


def run(F, R):
    R.rule("C09.R1", "K6 table agreement", "is_supported_aggregate == arms of rewrite_function == allow-arm of check_agg_decomposable == the exact decomposition table")
    R.rule("C09.R2", "K3", "refusals dominate the supported-aggregate rewrite")
    R.rule("C09.R3", "K7/K5", "shard LIMIT = limit + offset")
    R.rule("C09.R4", "K4", "gather only from NotImplemented; merge refuses Gather")
    sup = F.fn(P + "::is_supported_aggregate")
    supset = {v[2:] for v, role, sp in sup.raw["lits"] if role == "pat" and v.startswith("s:")}
    want = {"COUNT", "SUM", "MIN", "MAX", "AVG"}
    R.check(supset == want, "C09.R1", "is_supported_aggregate:set", f"supported set is {sorted(supset)}", sup.loc(), dict(set=sorted(supset)))
    rf = F.fn(P + "::Rewriter::rewrite_function")
    ms = [m for m in rf.raw["matches"] if m["kind"] == "match" and m["scrut"] == "str" and len(m["arms"]) >= 3]
    if len(ms) != 1:
        raise Broken(f"rewrite_function: {len(ms)} matches on the aggregate name")
    arms = ms[0]["arms"]
    covered = set()
    calls_add = [c for c in rf.calls() if c.name == P + "::Rewriter::add_partial"]
    for a in arms:
        names = [x.strip()[3:] for x in pat_alternatives(a["pat"]) if x.strip().startswith("#s:")]
        if not names:
            cls = a["cls"]
            R.check(cls in ("panic", "Err", "ret:Err"), "C09.R1", "rewrite_function:fallthrough", f"an aggregate outside the table falls through to {cls}", f"{rf.file}:{a['span'][0]}", dict(), nontrivial=False)
            continue
        covered |= set(names)
        call_lits = lits_in(rf, a["span"], "arg:0:" + P + "::call")
        adds = [c for c in calls_add if span_contains(a["span"], c.span) or a["span"][0] <= c.line <= a["span"][2]]
        partial = [v for v, sp in call_lits if any(span_contains(c.span, sp) for c in adds)]
        final = [v for v, sp in call_lits if not any(span_contains(c.span, sp) for c in adds)]
        key = "|".join(names)
        if key in EXPECT:
            ep, ef = EXPECT[key]
            ok = set(partial) == ep and len(partial) == len(ep) and sorted(final) == sorted(ef)
            if key == "AVG":
                div = any(rv[0] == "agg" and rv[1].endswith("BinaryOperator::Divide") for i, j, dst, rv, line in rf.stmts() if a["span"][0] <= line <= a["span"][2])
                ok = ok and div
            R.check(ok, "C09.R1", f"rewrite_function:{key}", f"{key} is decomposed as partial {partial} / final {final}, expected partial {sorted(ep)} / final {ef}", f"{rf.file}:{a['span'][0]}", dict(partial=partial, final=final))
        else:
            # same-function aggregates: partial and final both use the matched name itself (no literal), one partial
            same = not call_lits and len(adds) == 1
            ncalls = [c for c in calls_in_lines(rf, a["span"]) if c.name == P + "::call"]
            samearg = len(ncalls) == 2 and all(".name" in k9.kexpr(rf, c.args[0]) or "to_uppercase" in k9.kexpr(rf, c.args[0]) for c in ncalls)
            R.check(set(names) == {"SUM", "MIN", "MAX"} and same and samearg, "C09.R1", f"rewrite_function:{key}", f"{key}: expected partial = final = the same function; got literals {call_lits} with {len(adds)} partials", f"{rf.file}:{a['span'][0]}", dict(names=names))
    R.check(covered == supset, "C09.R1", "rewrite_function:arms==supported-set", f"arms cover {sorted(covered)} but is_supported_aggregate admits {sorted(supset)}", rf.loc(), dict())
    cad = F.fn(P + "::check_agg_decomposable")
    allow = set()
    for g in F.family(cad.path):
        for m in g.raw["matches"]:
            if m["kind"] == "match" and m["scrut"].endswith("AggregateFunction"):
                for a in m["arms"]:
                    heads = [pat_head(x).rsplit("::", 1)[-1] for x in pat_alternatives(a["pat"])]
                    sets_bad_uncond = False
                    if set(heads) >= {"Count", "Sum"}:
                        allow = set(heads)
                    if a["pat"].startswith("$") or a["pat"].strip() == "_":
                        # the catch-all must refuse: it assigns `bad`
                        refuses = any(rv[0] == "agg" and rv[1] == "adt:std::option::Option::Some" for i, j, dst, rv, line in g.stmts() if a["span"][0] <= line <= a["span"][2])
                        R.check(a["cls"] in ("()", "other") and refuses, "C09.R1", "check_agg_decomposable:catch-all-refuses", "the plan-level net's catch-all arm does not refuse", f"{g.file}:{a['span'][0]}", dict(), nontrivial=False)
    R.check({x.upper() for x in allow} == want, "C09.R1", "check_agg_decomposable:allow-set", f"the plan-level net allows {sorted(allow)}", cad.loc(), dict(allow=sorted(allow)))
    # ---- R2
    rw = [c for c in rf.calls() if c.name == P + "::is_supported_aggregate"]
    R.floor("C09.R2", "is_supported_aggregate call in rewrite_function", len(rw), 1)
    if rw:
        gs = guards.guards_of(rf, rw[0].bb)
        conds = [(c, str(v)) for s, c, v in gs]
        need = {"over": False, "filter": False, "parameters": False}
        for c, v in conds:
            for k in need:
                if f".{k}" in c:
                    need[k] = True
        R.check(all(need.values()), "C09.R2", "rewrite_function:refusals-before-rewrite", f"the aggregate rewrite is reachable without the refusals for {[k for k, v in need.items() if not v]}", rf.loc(rw[0].bb), dict(guards=[c[:60] for c, v in conds]))
        # DISTINCT and in-argument clauses refused inside the supported branch, before add_partial
        for c in calls_add:
            gs2 = guards.guards_of(rf, c.bb)
            # distinct is a control-derived bool (matches!) and clauses.is_empty()
            # `let (distinct, args, clauses) = match &func.args {..}`: distinct is component .0 and clauses component .2
            # of one tuple; both refusals must guard the partial
            tup = [cd[len("is_empty("):-3] for s, cd, v in gs2 if cd.startswith("is_empty(") and cd.endswith(".2)") and v is True]
            okc = bool(tup)
            okd = any(cd == t + ".0" and v is False for t in tup for s, cd, v in gs2) or any(("distinct" in cd.lower() or "Distinct" in cd) and v in (False, "None") for s, cd, v in gs2)
            R.check(okd and okc, "C09.R2", f"add_partial#{calls_add.index(c)}:distinct+clauses-refused", "a partial aggregate is emitted without the DISTINCT / in-argument ORDER BY refusals", rf.loc(c.bb), dict(guards=[cd[:60] for s, cd, v in gs2][-6:]))
    # ---- R3
    pt = F.fn(P + "::plan_topn")
    OL = P + "::OrderLimit"
    lim_lit = [l for l in pt.raw["lits"] if l[0].startswith("bs:") and "LIMIT" in l[0] or (l[0].startswith("s:") and "LIMIT" in l[0])]
    adds = [(i, rv) for i, j, dst, rv, line in pt.stmts() if rv[0] == "bin" and rv[1].startswith("Add") and rv[4] in ("u64", "usize")]
    ok3 = False
    for i, rv in adds:
        a, b = k9.kexpr(pt, rv[2]), k9.kexpr(pt, rv[3])
        if ".limit" in a and ".offset" in b or (".limit" in b and ".offset" in a):
            ok3 = True
    reads = {fld for bb, acc, fld, a, line in pt.field_accesses() if a == OL}
    R.check(ok3 and {"limit", "offset"} <= reads and bool(lim_lit), "C09.R3", "plan_topn:keep=limit+offset", "the per-shard LIMIT is not limit + offset: a shard's contribution to the global top-N can be cut short", pt.loc(), dict(adds=len(adds), fields=sorted(reads)))
    # the shard LIMIT is emitted only when a limit exists
    some = False
    for sb in range(pt.n):
        si = pt.switch_info(sb)
        if si and si[0] == "enum" and ".limit" in k9.kexpr(pt, "c:" + si[1][0]) and "Some" in si[2]:
            some = all(pt.dominates(si[2]["Some"], i) for i, rv in adds if ".limit" in k9.kexpr(pt, rv[2]) + k9.kexpr(pt, rv[3]))
    R.check(some, "C09.R3", "plan_topn:truncate-only-with-limit", "shards are truncated although the statement has no LIMIT", pt.loc(), dict(), nontrivial=False)
    # ---- R4
    ea = F.fn("distributed::coordinator::execute_any_distributed::{closure#0}")
    pg = [c for c in ea.calls() if c.name == "distributed::gather::plan_gather"]
    pd = [c for c in ea.calls() if c.name == P + "::plan_distributed"]
    R.floor("C09.R4", "plan_gather/plan_distributed calls", len(pg) + len(pd), 2)
    ok4 = False
    m4 = [m for m in ea.raw["matches"] if m["kind"] == "match" and m["scrut"] == "std::result::Result"]
    for m in m4:
        for a in m["arms"]:
            if "NotImplemented" in a["pat"] and a["pat"].startswith(("std::prelude::v1::Err(", "std::result::Result::Err(")):
                if pg and span_contains(a["span"], pg[0].span):
                    others = [x for x in m["arms"] if x is not a and "Err(" in x["pat"]]
                    ok4 = all(x["cls"] == "Err" for x in others) and bool(others)
    R.check(ok4, "C09.R4", "execute_any_distributed:gather-only-on-NotImplemented", "a planning error other than NotImplemented can fall through to the gather path (or is swallowed)", ea.loc(), dict())
    mg = F.fn("distributed::coordinator::merge::{closure#0}")
    ms = [m for m in mg.raw["matches"] if m["kind"] == "match" and m["scrut"].endswith("MergeShape")]
    okm = False
    shapes = {v["name"] for v in F.adt(P + "::MergeShape")["variants"]}
    for m in ms:
        if len(m["arms"]) < 3:
            continue
        covered = set()
        g_ok = False
        for a in m["arms"]:
            for alt in pat_alternatives(a["pat"]):
                covered.add(pat_head(alt).rsplit("::", 1)[-1])
            if "Gather" in a["pat"]:
                g_ok = a["cls"] in ("ret:Err", "Err")
        okm = g_ok and shapes <= covered
    R.check(okm, "C09.R4", "merge:every-shape-handled,Gather-refused", "merge() does not handle every MergeShape explicitly or accepts Gather", mg.loc(), dict(shapes=sorted(shapes)))
    shard_safety(F, R)
    import splitid
    splitid.run(F, R, "C09.R6")
