"""C18 Parquet table statistics are sound bounds — structural clauses."""
from qe import *
import k9
import guards

CLAIMS = ("R1 (= C03.R1) values documented as estimates (ndv_est, ndv_str, min_f64, max_f64) never flow untouched into a comparison that decides a rewrite's validity; "
          "R2 in ParquetTable::compute_statistics: row_count is increased by num_rows() of every row group of every file unconditionally; a chunk without statistics or without null_count makes null_count None; min is folded with min() and max with max() of the previous value; Int32 bounds are widened (never narrowed) to i64; "
          "R3 a column chunk that contributes no (min,max) must invalidate the bounds accumulated so far (otherwise values of that chunk may lie outside the reported min/max, which PackedGroupKeys/PackedJoinKeys trust).")
NOT_DECIDED = "that the footers themselves are truthful; byte-array/float statistics (not reported as bounds)."

CS = "storage::parquet::ParquetTable::compute_statistics"
ACC = CS + "::ColAcc"


def run(F, R):
    R.rule("C18.R2", "K3/K4/K5", "total_rows += num_rows unconditionally per row group; null_count poisoning; min/max folds; Int32 widening")
    R.rule("C18.R3", "K7 path obligation", "every path through the per-chunk loop body either folds the chunk's bounds into ColAcc.min_i64/max_i64 or poisons them")
    f = F.fn(CS)
    # ---- total_rows
    tr = f.locals_named("total_rows")
    adds = []
    for l in tr:
        for d in f.defs().get(l, []):
            if d[1] == "stmt" and d[2][1][0] == "use":
                o = origin(f, d[2][1][1])
                if o[0] == "rv" and o[1][0] == "bin" and o[1][1].startswith("Add"):
                    adds.append((d[0], o[1]))
    R.floor("C18.R2", "total_rows += sites", len(adds), 1)
    for bb, rv in adds:
        e = k9.kexpr(f, rv[3])
        from_rows = "num_rows(" in e and "row_groups(" in e
        # loop: the row-group iterator's next() Some edge -> every path back to next passes through bb
        nx = [c for c in f.calls() if c.name.endswith("::next") and "RowGroupMetaData" in c.self_ty and f.dominates(c.bb, bb)]
        uncond = False
        if nx:
            hdr = nx[-1]
            for sb in range(f.n):
                si = f.switch_info(sb)
                if si and si[0] == "enum" and si[1][0] == hdr.dest and "Some" in si[2]:
                    uncond = hdr.bb not in f.reachable(si[2]["Some"], avoid=frozenset([bb]))
        R.check(from_rows and uncond, "C18.R2", "row_count:every-row-group", "row_count is not increased by num_rows() of every row group unconditionally", f.loc(bb), dict(expr=e[:120], unconditional=uncond))
    # files loop covers self.files
    it = [c for c in f.calls() if c.name.rsplit("::", 1)[-1] in ("into_iter", "iter") and k9.kexpr(f, c.args[0]).endswith(".files")]
    R.check(bool(it), "C18.R2", "iterates-self.files", "statistics do not iterate self.files", f.loc(), nontrivial=False)
    # ---- null_count poisoning
    st = [c for c in f.calls() if c.name.endswith("ColumnChunkMetaData::statistics")]
    nco = [c for c in f.calls() if c.name.endswith("Statistics::null_count_opt")]
    R.floor("C18.R2", "statistics()/null_count_opt() sites", len(st) + len(nco), 2)
    null_writes = [(i, rv) for i, j, dst, rv, line in f.stmts() if place_fields(dst)[-1:] == [("null_count", ACC)]]
    for name, c in (("statistics", st[0] if st else None), ("null_count_opt", nco[0] if nco else None)):
        if c is None:
            continue
        ok = False
        for sb in range(f.n):
            si = f.switch_info(sb)
            if si and si[0] == "enum" and si[1][1] == "std::option::Option" and origin(f, "c:" + si[1][0]) == ("call", c):
                t = si[2].get("None", si[3])
                # on the None edge a write null_count = None happens before the loop continues
                reach = f.reachable(t, avoid=frozenset([sb]))
                def is_none(rv):
                    if rv[0] == "agg":
                        return rv[1] == "adt:std::option::Option::None"
                    if rv[0] == "use":
                        o = origin(f, rv[1])
                        return o[0] == "rv" and o[1][0] == "agg" and o[1][1] == "adt:std::option::Option::None"
                    return False
                ok = any(i in reach and is_none(rv) and (f.dominates(t, i) or i == t) for i, rv in null_writes)
        R.check(ok, "C18.R2", f"null_count-poisoned-when-{name}-absent", f"a chunk without {name} leaves null_count looking exact", f.loc(c.bb), dict())
    # ---- folds
    for fld, fn_name in (("min_i64", "min"), ("max_i64", "max")):
        ws = [(i, rv) for i, j, dst, rv, line in f.stmts() if place_fields(dst)[-1:] == [(fld, ACC)]]
        ok = False
        for i, rv in ws:
            if rv[0] != "use":
                continue
            e = k9.kexpr(f, rv[1])
            # Some(map_or(prev, new, closure)) with closure calling Ord::min/max
            w = derives_from(f, [rv[1]], lambda k, x: x if (k == "call" and x.name.rsplit("::", 1)[-1] in ("map_or", "map_or_else", "map", "min", "max")) else None)
            if w:
                names = set()
                for a in w.args:
                    o = origin(f, a)
                    if o[0] == "rv" and o[1][0] == "agg" and o[1][1].startswith("closure:"):
                        names |= {c.name.rsplit("::", 1)[-1] for c in F.fam_calls(o[1][1][8:])}
                names.add(w.name.rsplit("::", 1)[-1])
                prev = f".{fld}" in e
                ok = ok or (fn_name in names and ({"min", "max"} - {fn_name}).isdisjoint(names) and prev)
        R.check(ok, "C18.R2", f"{fld}:folded-with-{fn_name}", f"{fld} is not folded with {fn_name}(previous, chunk value)", f.loc(), dict(writes=len(ws)))
    # ---- casts
    casts = [(i, rv) for g in F.family(CS) for i, j, dst, rv, line in g.stmts() if rv[0] == "cast" and rv[1].startswith("IntToInt")]
    narrowing = [(rv[3], rv[4]) for i, rv in casts if (rv[3], rv[4]) in (("i64", "i32"), ("u64", "u32"), ("i64", "i16"), ("i64", "i8"), ("u64", "i32"))]
    widen = [(rv[3], rv[4]) for i, rv in casts if (rv[3], rv[4]) == ("i32", "i64")]
    R.check(not narrowing and len(widen) >= 2, "C18.R2", "int32-bounds-widened", f"statistics pass through narrowing casts {narrowing} (or Int32 bounds are not widened)", f.loc(), dict(widening=len(widen)))

    # ---- R3 poison obligation
    cn = [c for c in f.calls() if c.name.endswith("::next") and "ColumnChunkMetaData" in c.self_ty]
    if len(cn) < 1:
        raise Broken("per-chunk loop not found")
    hdr = cn[0]
    body = None
    for sb in range(f.n):
        si = f.switch_info(sb)
        if si and si[0] == "enum" and si[1][0] == hdr.dest and "Some" in si[2]:
            body = si[2]["Some"]
    if body is None:
        raise Broken("per-chunk loop body not found")
    bound_writes = {i for i, j, dst, rv, line in f.stmts() if place_fields(dst)[-1:] in ([("min_i64", ACC)], [("max_i64", ACC)])}
    flag_writes = {i for i, j, dst, rv, line in f.stmts() if place_fields(dst)[-1:] and place_fields(dst)[-1][1] == ACC and place_fields(dst)[-1][0] not in ("min_i64", "max_i64", "null_count", "has_int_stats")}
    # exclude the entry(..).or_insert(ColAcc{..}) initialisation (aggregate literal, not a field store)
    # excused: the edge on which the chunk is proved all-NULL (null_count == num_values): it holds no value at all
    excused = set()
    for sb in range(f.n):
        si = f.switch_info(sb)
        if si and si[0] == "bool" and si[1]:
            e = k9.kexpr(f, "c:" + si[1])
            if "null_count_opt(" in e and "num_values(" in e:
                if e.startswith(("Ne(", "ne(")) or "::ne(" in e:
                    excused.add(si[2][False])
                elif e.startswith(("Eq(", "eq(")) or "::eq(" in e:
                    excused.add(si[2][True])
    silent = hdr.bb in f.reachable(body, avoid=frozenset(bound_writes | flag_writes | excused))
    R.check(not silent, "C18.R3", "compute_statistics:chunk-without-bounds-does-not-poison",
            "a column chunk without statistics (or without min/max) leaves the bounds folded from other chunks in place: its values may lie outside the reported min_i64/max_i64, which PackedGroupKeys/PackedJoinKeys trust as exact bounds",
            f.loc(body), dict(bound_write_blocks=sorted(bound_writes), poison_flag_blocks=sorted(flag_writes)))
    import c03
    c03.estimates_rule(F, R, "C18.R1")
