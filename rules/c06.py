"""C06 Compiled predicates are indistinguishable from the interpreter — structural clauses."""
from qe import *
import k9
import guards

CLAIMS = ("R1 the two evaluators use the same logic class for AND/OR: if the interpreter is Kleene the compiled path must decline nullable AND/OR programs (or not admit them); if the interpreter is null-strict the compiled validity (AND of leaf validities) agrees; "
          "R2 no primitive IEEE comparison (<,<=,>,>=,==,!=) on f64 operands is executed inside the compiled evaluator, because the interpreter's arrow kernels compare floats in the total order (NaN greatest, -0.0 < +0.0); "
          "R3 the compiler refuses what the interpreter would coerce: a comparison instruction is pushed only past `ta != tb => None`, and evaluate() downcasts a column only past the `data_type() != dt => None` test; "
          "R4 QE_COMPILE is read only in compilation_enabled(), and every CompiledPredicate::compile call is dominated by it; "
          "R5 the compiler emits the operation the expression names: the `op` of every arithmetic instruction comes from the expression node being compiled (never a constant chosen by the compiler), and a literal instruction carries the expression's literal untouched by arithmetic (no strength reduction such as x / c -> x * (1/c): the interpreter's kernels round differently).")
NOT_DECIDED = "bit-equality of masks for every batch (a value property); arithmetic result equality."

CE = "physical::compiled_expr"


def compiled_logic_class(F):
    """'declines-nullable-logic' when evaluate() has a None return guarded by a test on Instr::And/Or presence and nulls,
    'no-logic' when the compiler never emits And/Or, else 'null-strict'"""
    comp = F.fn(CE + "::Compiler::boolean")
    emits = any(rv[0] == "agg" and rv[1].startswith("adt:" + CE + "::Instr::") and rv[1].rsplit("::", 1)[-1] in ("And", "Or") for i, j, dst, rv, line in comp.stmts())
    if not emits:
        return "no-logic"
    ev = F.fn(CE + "::CompiledPredicate::evaluate")
    for g in F.family(ev.path):
        for m in g.raw["matches"]:
            for a in m["arms"]:
                if any(pat_head(x).endswith(("Instr::And", "Instr::Or")) for x in pat_alternatives(a["pat"])):
                    return "declines-nullable-logic"
    return "null-strict"


def logic_agreement(F, R, rid):
    import c02
    R.rule(rid, "K6 class agreement", "interpreter logic class (strict|Kleene per site) vs compiled class")
    sites = c02.interpreter_sites(F)
    classes = set()
    for key, f, calls, want in sites:
        strict, kleene = c02.logic_class(F, calls)
        classes.add("strict" if strict else ("kleene" if kleene else "none"))
    cc = compiled_logic_class(F)
    if classes == {"strict"}:
        ok = cc in ("null-strict", "no-logic")
    elif classes == {"kleene"}:
        ok = cc in ("declines-nullable-logic", "no-logic")
    else:
        ok = False
    R.check(ok, rid, "logic-class-agreement", f"interpreter AND/OR sites are {sorted(classes)} but the compiled path is {cc}: with compilation on and off a nullable AND/OR predicate keeps different rows", F.fn(CE + "::CompiledPredicate::evaluate").loc(), dict(interpreter=sorted(classes), compiled=cc))


def run(F, R):
    logic_agreement(F, R, "C06.R1")
    R.rule("C06.R2", "K5/K6 comparison class", "no f64 Lt/Le/Gt/Ge/Eq/Ne in compiled_expr's evaluator functions")
    R.rule("C06.R3", "K3", "type-equality refusals dominate the Cmp push and the column downcasts")
    R.rule("C06.R4", "K1", "QE_COMPILE read only in compilation_enabled; compile() callers dominated by it")
    # ---- R2
    ieee = []
    nfun = 0
    for g in F.in_file("src/physical/compiled_expr.rs"):
        root = F.bodies[g.path].get("root") or g.path
        if not (root.startswith(CE + "::CompiledPredicate::") or root.startswith(CE + "::Cmp::") or root.startswith(CE + "::f64_") or "eval" in root):
            continue
        nfun += 1
        for i, j, dst, rv, line in g.stmts():
            if rv[0] == "bin" and rv[1] in ("Lt", "Le", "Gt", "Ge", "Eq", "Ne") and rv[4] in ("f64", "f32"):
                ieee.append((g, i, rv[1]))
        for c in g.calls():
            if c.name.rsplit("::", 1)[-1] in ("lt", "le", "gt", "ge", "eq", "ne", "partial_cmp") and any(t in ("f64", "&f64") for t in c.argtys):
                ieee.append((g, c.bb, c.name.rsplit("::", 1)[-1]))
    R.floor("C06.R2", "compiled evaluator functions examined", nfun, 3)
    by = {}
    for g, bb, op in ieee:
        by.setdefault(F.bodies[g.path].get("root") or g.path, []).append((g, bb, op))
    for root, lst in sorted(by.items()):
        g, bb, op = lst[0]
        R.bad("C06.R2", f"{root}:ieee-f64-compare", f"f64 values are compared with IEEE operators ({sorted({x[2] for x in lst})}) where the interpreter uses the total order: NaN and -0.0 rows are kept differently with compilation on and off", g.loc(bb), dict(sites=len(lst)))
    if not by:
        R.ok("C06.R2", "no-ieee-f64-compare", dict(functions=nfun))
    # ---- R3
    comp = F.fn(CE + "::Compiler::boolean")
    pushes = []
    for i, j, dst, rv, line in comp.stmts():
        if rv[0] == "agg" and rv[1].startswith("adt:" + CE + "::Instr::Cmp"):
            pushes.append((i, rv[1].rsplit("::", 1)[-1]))
    R.floor("C06.R3", "Cmp instruction constructions", len(pushes), 3)
    for bb, nm in pushes:
        gs = guards.guards_of(comp, bb)
        ok = any(("::ne(" in cd or cd.startswith(("ne(", "Ne("))) and "DataType" in " ".join(comp.local_ty(place_local(op_place(a))) if op_place(a) else "" for a in (origin(comp, "c:" + comp.switch_info(sb)[1])[1].args if origin(comp, "c:" + comp.switch_info(sb)[1])[0] == "call" else [])) and v is False for sb, cd, v in gs if comp.switch_info(sb)[0] == "bool" and comp.switch_info(sb)[1])
        R.check(ok, "C06.R3", f"boolean:{nm}:same-type-guard", "a typed comparison is compiled without refusing operands of different arrow types (the interpreter would coerce them)", comp.loc(bb), dict(guards=[cd[:50] for s, cd, v in gs][-5:]))
    ev = F.fn(CE + "::CompiledPredicate::evaluate")
    dcs = [c for c in ev.calls() if c.name.rsplit("::", 1)[-1] == "downcast_ref"]
    R.floor("C06.R3", "column downcasts in evaluate", len(dcs), 3)
    badd = []
    for c in dcs:
        gs = guards.guards_of(ev, c.bb)
        if not any("data_type(" in cd and ("ne(" in cd or "Ne(" in cd) and v is False for sb, cd, v in gs):
            badd.append(c)
    R.check(not badd, "C06.R3", "evaluate:dtype-guard-before-downcast", "a batch column is downcast without the `data_type() != dt => None` refusal", ev.loc(badd[0].bb) if badd else ev.loc(), dict(downcasts=len(dcs)))
    # ---- R4
    envs = [c for c in F.callers_matching(lambda n: n in ("std::env::var", "std::env::var_os")) if any("QE_COMPILE" in l[0] for l in c.fn.raw["lits"])]
    R.floor("C06.R4", "reads of QE_COMPILE", len(envs), 1)
    for c in envs:
        root = F.bodies[c.fn.path].get("root") or c.fn.path
        R.check(root == CE + "::compilation_enabled", "C06.R4", f"QE_COMPILE-read:{root}", "QE_COMPILE is consulted outside compilation_enabled()", c.fn.loc(c.bb), nontrivial=False)
    cp = F.fn(CE + "::CompiledPredicate::compile")
    work = [c for c in cp.calls() if c.name.startswith(CE + "::Compiler::")]
    R.floor("C06.R4", "compiler invocations inside CompiledPredicate::compile", len(work), 1)
    for c in work:
        gs = guards.guards_of(cp, c.bb)
        ok = any(CE + "::compilation_enabled(" in cd and ((cd.startswith("Not(") and v is False) or (not cd.startswith("Not(") and v is True)) for sb, cd, v in gs)
        R.check(ok, "C06.R4", f"compile:{c.name.rsplit('::', 1)[-1]}#{[x for x in work if x.name == c.name].index(c)}:gated", "the compiler runs without consulting compilation_enabled(): QE_COMPILE=0 would not restore the interpreter", cp.loc(c.bb), dict(guards=[cd[:60] for s, cd, v in gs][-3:]))
    # nobody constructs a CompiledPredicate except compile()
    makers = [g.path for g in F.fns_building("adt:" + CE + "::CompiledPredicate")]
    R.check(set(makers) <= {cp.path}, "C06.R4", "CompiledPredicate:only-built-by-compile", f"CompiledPredicate is constructed in {makers}", "", nontrivial=False)
    operator_fidelity(F, R)

def operator_fidelity(F, R):
    R.rule("C06.R5", "K5 provenance of instruction fields", "Instr::Arith.op derives from the compiled expression's op; Instr::LitF64.v has no arithmetic in its slice")
    n = 0
    for g in F.in_file("src/physical/compiled_expr.rs"):
        b = F.bodies[g.path]
        if b.get("impl_trait"):
            continue        # derives (Clone/Debug)
        for i, j, dst, rv, line in g.stmts():
            if rv[0] != "agg" or "::Instr::" not in rv[1]:
                continue
            var = rv[1].rsplit("::", 1)[-1]
            m = dict(zip(rv[3], rv[2]))
            if var == "Arith" and "op" in m:
                n += 1
                o = origin(g, m["op"])
                from_expr = bool(derives_from(g, [m["op"]], lambda k, x: (k == "place" and any(a.endswith("logical_expr::Expr") for f_, a in place_fields(x)) and x) or None, through_calls=False))
                const_op = (o[0] == "rv" and o[1][0] == "agg" and "BinaryOp::" in o[1][1]) or o[0] == "const"
                R.check(from_expr and not const_op, "C06.R5", f"{b['name']}:Arith.op@{_k(g, i)}", "an arithmetic instruction is emitted with an operator the compiler chose itself instead of the expression's operator: the compiled program computes a different function than the interpreter (e.g. x * (1/c) for x / c differs by one ulp for most c)", g.loc(i), dict(op=str(o)[:80]))
            if var == "LitF64" and "v" in m:
                n += 1
                arith = []
                defs = g.defs()
                seen_, work_ = set(), [m["v"]]
                while work_:
                    o_ = work_.pop()
                    if isinstance(o_, dict):
                        continue
                    q = op_place(o_) if (len(o_) > 1 and o_[1] == ":") else o_
                    if not q:
                        continue
                    l_ = place_local(q)
                    if l_ in seen_:
                        continue
                    seen_.add(l_)
                    for bb_, kind_, pay_ in defs.get(l_, []):
                        if kind_ == "call":
                            if pay_.name.rsplit("::", 1)[-1] in ("recip", "powi", "powf", "sqrt", "mul_add", "div", "mul", "add", "sub"):
                                arith.append(pay_.name.rsplit("::", 1)[-1])
                            continue
                        dst_, rv_, line_ = pay_
                        if rv_[0] == "bin" and rv_[1] in ("Div", "Mul", "Add", "Sub", "Rem"):
                            arith.append(rv_[1])
                        elif rv_[0] == "use":
                            work_.append(rv_[1])
                        elif rv_[0] in ("ref", "cast", "un"):
                            work_.append(rv_[2])
                R.check(not arith, "C06.R5", f"{b['name']}:LitF64.v@{_k(g, i)}", f"a literal instruction carries a value the compiler computed ({sorted(set(arith))}) instead of the expression's literal", g.loc(i), dict())
    R.floor("C06.R5", "Arith / LitF64 instruction constructions in the compiler", n, 2)


def _k(g, bb):
    sites = sorted({i for i, j, dst, rv, line in g.stmts() if rv[0] == "agg" and "::Instr::" in rv[1]})
    return sites.index(bb) if bb in sites else -1
