"""C06 placeholder"""
def logic_agreement(F, R, rid):
    pass
def run(F, R):
    pass
