"""Result collection, known-findings handling, evidence and replay files."""
import json
import os
import time

VERIF = os.path.dirname(os.path.dirname(os.path.abspath(__file__)))

UNITS_ANALYSED = [
    "lib crate query_engine (src/lib.rs and all default-feature modules), non-test cfg",
    "bin crate query_engine (src/main.rs, src/cli/**), non-test cfg",
]
UNITS_NOT_ANALYSED = [
    "code behind --features lance|gpu|pulsar (src/storage/lance*.rs, src/physical/gpu.rs incl. GpuAggExec::execute which "
    "by reading does not call check_partition, src/storage/pulsar.rs): dependency trees not in the offline cache",
    "#[cfg(test)] modules, tests/, benches/, examples/, branching-metastore/",
]


def load_known(pid):
    p = os.path.join(VERIF, "known_findings.jsonl")
    out = {}
    if os.path.exists(p):
        for line in open(p):
            line = line.strip()
            if not line or line.startswith("#"):
                continue
            o = json.loads(line)
            if o.get("property") == pid and o.get("status") == "known":
                out[o["key"]] = o
    return out


class Report:
    def __init__(self, pid, F):
        self.pid = pid
        self.F = F
        self.items = []  # dicts: rule,key,status,what,loc,detail,nontrivial
        self.floors = []
        self.rules = {}
        self.extra = {}

    def rule(self, rid, kind, text):
        self.rules[rid] = {"kind": kind, "text": text}

    def ok(self, rule, key, detail=None, loc="", nontrivial=True):
        self.items.append(dict(rule=rule, key=f"{rule}:{key}", status="pass", what="", loc=loc, detail=detail or {}, nontrivial=nontrivial))

    def bad(self, rule, key, what, loc="", detail=None):
        self.items.append(dict(rule=rule, key=f"{rule}:{key}", status="violation", what=what, loc=loc, detail=detail or {}, nontrivial=True))

    def undecided(self, rule, key, why, loc=""):
        self.items.append(dict(rule=rule, key=f"{rule}:{key}", status="undecided", what=why, loc=loc, detail={}, nontrivial=True))

    def check(self, cond, rule, key, what, loc="", detail=None, nontrivial=True):
        if cond:
            self.ok(rule, key, detail, loc, nontrivial)
        else:
            self.bad(rule, key, what, loc, detail)
        return cond

    def floor(self, rule, name, got, floor):
        self.floors.append(dict(rule=rule, name=name, got=got, floor=floor, ok=got >= floor))

    def finish(self, known, tier, seed, wall, replay_only=False):
        pid = self.pid
        broken = [f for f in self.floors if not f["ok"]]
        undec = [i for i in self.items if i["status"] == "undecided"]
        viol, kn = [], []
        for i in self.items:
            if i["status"] == "violation":
                (kn if i["key"] in known else viol).append(i)
        # duplicate violation keys collapse
        seen = set()
        viol = [v for v in viol if not (v["key"] in seen or seen.add(v["key"]))]
        seen = set()
        kn = [v for v in kn if not (v["key"] in seen or seen.add(v["key"]))]
        stale_known = [k for k in known if k not in {i["key"] for i in kn}]
        for k in kn:
            print(f"KNOWN-FINDING: property={pid} {k['key']} {k['what']} [{k['loc']}]")
        for k in stale_known:
            print(f"note: known finding {k} no longer reported by the rules (repaired or code moved)")
        rc = 0
        if broken or undec:
            for f in broken:
                print(f"BROKEN: {pid} {f['rule']}: floor {f['name']}: examined {f['got']} < {f['floor']}")
            for u in undec:
                print(f"BROKEN: {pid} {u['key']}: UNDECIDED: {u['what']} [{u['loc']}]")
            rc = 2
        rdir = os.path.join(VERIF, "replays", pid)
        if os.path.isdir(rdir) and not replay_only:
            for fn in os.listdir(rdir):
                if fn.endswith(".json"):
                    os.unlink(os.path.join(rdir, fn))
        if viol:
            os.makedirs(rdir, exist_ok=True)
            for n, v in enumerate(viol):
                rp = os.path.join(rdir, f"{n}.json")
                with open(rp, "w") as fh:
                    json.dump(dict(property=pid, rule=v["rule"], key=v["key"], what=v["what"], loc=v["loc"], detail=v["detail"],
                                   rule_text=self.rules.get(v["rule"], {})), fh, indent=1, default=str)
                print(f"{v['loc']}: {v['key']}: {v['what']}")
                print(f"VIOLATION property={pid} replay={rp}")
            rc = 1      # a reported violation decides the exit status even when a floor was also missed
        passes = [i for i in self.items if i["status"] == "pass"]
        nontriv = {i["key"] for i in self.items if i["nontrivial"]}
        samples = []
        per_rule = {}
        for i in self.items:
            per_rule.setdefault(i["rule"], []).append(i)
        for rid, its in sorted(per_rule.items()):
            for i in its[:3]:
                samples.append(dict(rule=rid, key=i["key"], verdict=i["status"] if i["key"] not in known else "known-finding",
                                    loc=i["loc"], what=i["what"], analysed=i["detail"]))
        ev = dict(
            property_id=pid, tier=tier, seed=seed, level="other",
            coverage=dict(
                explanation=("Static analysis of /repo's current working tree: type-resolved MIR (mir_built, pre-borrowck) and HIR "
                             "facts extracted by the rustc_private driver qe-facts under `cargo +nightly check --lib --bins`; the rules "
                             "below were evaluated over every listed function on all CFG paths. Nothing was executed. "
                             "A pass means the structural clauses hold, not that the behavioural property holds."),
                rules={k: v for k, v in sorted(self.rules.items())},
                evaluations=len(self.items),
                distinct_nontrivial=len(nontriv),
                rule="one evaluation = one (rule, site) instance examined; non-trivial = the verdict needed a dominator/reachability "
                     "query, a def-use slice, an arm/callee resolution or an abstract evaluation (not a mere presence test); distinct by key",
                obligations=len(self.items),
                discharged=len(passes),
                known_findings=[k["key"] for k in kn],
                samples=samples,
                floors=self.floors,
                units_analysed=UNITS_ANALYSED,
                units_not_analysed=UNITS_NOT_ANALYSED,
                fact_cache_key=self.F.key,
                facts_extracted_this_run=self.F.extracted_now,
                functions_in_fact_base=len(self.F.bodies),
                exhaustive=False,
                **self.extra,
            ),
            assumptions=[
                "rustc's type checker and the nightly MIR builder are trusted",
                "default-feature, non-test build only",
                "claimed for the listed structural clauses only; a tree can satisfy all of them and still return a wrong row",
            ],
            wall_s=round(wall, 3),
            violations=len(viol),
        )
        if not replay_only:
            os.makedirs(os.path.join(VERIF, "evidence"), exist_ok=True)
            with open(os.path.join(VERIF, "evidence", f"{pid}.json"), "w") as fh:
                json.dump(ev, fh, indent=1, default=str)
        print(f"{pid} {tier}: {len(self.items)} instances, {len(passes)} pass, {len(kn)} known, {len(viol)} violations, "
              f"{len(undec)} undecided, {len(broken)} floors missed ({wall:.1f}s)")
        return rc
