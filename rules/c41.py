"""C41 Chunked metastore responses decode exactly — structural clauses."""
from qe import *
import k9
import guards

CLAIMS = ("R1 in dechunk, a value parsed from the chunk-size line (usize::from_str_radix) reaches an addition only through checked_add/saturating_add (no plain `size + 2` that overflows on a huge hex size); "
          "R2 every slice of the buffer whose bounds derive from the parsed size is dominated by a comparison of the buffer length with a size-derived bound whose failing edge returns None; "
          "R3 the two bytes following a chunk's data are compared (==/!=) with CRLF before being skipped; "
          "R4 http_get turns a dechunk failure into an error (ok_or_else + ?); "
          "R5 what is decoded is everything the peer sent: http_get fills its buffer with read_to_end (propagating its error), or with a read loop that stops only on a zero-length read - never on the buffer's CONTENT (a suffix/needle match knows nothing about chunk framing: the same bytes occur inside chunk data).")
NOT_DECIDED = "chunk extensions (an implementation may skip them without naming `;`), round-trip equality for all chunkings."

D = "metastore::gravitino::dechunk"


VALUE_PRESERVING = ("branch", "ok", "unwrap", "expect", "checked_add", "saturating_add", "wrapping_add", "min", "max", "ok_or", "ok_or_else",
                    "clone", "copied", "from", "into", "try_from", "try_into", "from_residual", "unwrap_or", "unwrap_or_default")


def from_size(f, op):
    """numeric taint: the operand's VALUE derives from the parsed chunk size (not through slicing/len/position, whose results are bounded by the buffer)"""
    return derives_from(f, [op], lambda k, x: x if (k == "call" and x.name.rsplit("::", 1)[-1] == "from_str_radix") else None,
                        stop=lambda c: c.name.rsplit("::", 1)[-1] not in VALUE_PRESERVING)


def run(F, R):
    R.rule("C41.R1", "K5 taint", "from_str_radix-derived operands of +: only via checked_add/saturating_add")
    R.rule("C41.R2", "K3", "size-derived slice bounds dominated by a len-vs-size guard with a None edge")
    R.rule("C41.R3", "K2", "the two bytes after chunk data are compared with a CRLF literal")
    R.rule("C41.R4", "K-ERR", "dechunk's None becomes an Err in http_get")
    f = F.fn(D)
    parses = [c for c in f.calls() if c.name.rsplit("::", 1)[-1] == "from_str_radix"]
    R.floor("C41.R1", "from_str_radix calls in dechunk", len(parses), 1)
    adds = []
    for i, j, dst, rv, line in f.stmts():
        if rv[0] == "bin" and rv[1].startswith(("Add", "Mul", "Shl")):
            if from_size(f, rv[2]) or from_size(f, rv[3]):
                adds.append((i, rv))
    for n, (bb, rv) in enumerate(adds):
        R.bad("C41.R1", f"dechunk:unchecked-{rv[1]}#{n}", f"parsed chunk size flows into unchecked {rv[1]} (a huge hex size overflows, then the slice panics)", f.loc(bb), dict(op=rv[1]))
    if not adds:
        R.ok("C41.R1", "dechunk:no-unchecked-arithmetic-on-size", dict(parse_sites=len(parses)))
    # ---- R2
    PANICKING = ("index", "index_mut", "split_at", "split_at_mut", "split_off", "drain", "truncate", "copy_within", "split_to", "advance")
    idx = [c for c in f.calls() if c.name.rsplit("::", 1)[-1] in PANICKING and len(c.args) > 1 and ("[u8]" in (c.self_ty + " ".join(c.argtys)) or "Vec<u8>" in (c.self_ty + " ".join(c.argtys))) and from_size(f, c.args[1])]
    R.floor("C41.R2", "size-derived slice sites", len(idx), 1)
    for n, c in enumerate(sorted(idx, key=lambda c: (c.line, c.bb))):
        gs = guards.guards_of(f, c.bb)
        ok = False
        for sb, cond, val in gs:
            si = f.switch_info(sb)
            if si[0] != "bool" or si[1] is None:
                continue
            o = origin(f, "c:" + si[1])
            if o[0] == "rv" and o[1][0] == "bin" and o[1][1] in ("Lt", "Le", "Gt", "Ge"):
                a, b = o[1][2], o[1][3]
                la = derives_from(f, [a], lambda k, x: x if (k == "call" and x.name.rsplit("::", 1)[-1] == "len") else None, through_calls=False)
                lb = derives_from(f, [b], lambda k, x: x if (k == "call" and x.name.rsplit("::", 1)[-1] == "len") else None, through_calls=False)
                if (la and from_size(f, b)) or (lb and from_size(f, a)):
                    ok = True
        R.check(ok, "C41.R2", f"dechunk:slice#{n}", "buffer sliced by the parsed size without a dominating length test", f.loc(c.bb), dict(guards=[(cd, str(v)) for s, cd, v in gs][:5]))
    # ---- R3
    cmp_ok = False
    for c in f.calls():
        last = c.name.rsplit("::", 1)[-1]
        if last in ("eq", "ne") and "[u8]" in (c.self_ty + " ".join(c.argtys)):
            for a in c.args:
                ix = derives_from(f, [a], lambda k, x: x if (k == "call" and x.name.rsplit("::", 1)[-1] in ("index", "get")) else None)
                if ix and len(ix.args) > 1 and from_size(f, ix.args[1]):
                    cmp_ok = True
        # or: the remainder after a size-derived split is matched against CRLF with strip_prefix/starts_with
        if last in ("strip_prefix", "starts_with") and "[u8]" in (c.self_ty + " ".join(c.argtys)):
            sp = derives_from(f, [c.args[0]], lambda k, x: x if (k == "call" and x.name.rsplit("::", 1)[-1] in ("split_at", "split_at_checked", "index", "get")) else None)
            if sp and len(sp.args) > 1 and from_size(f, sp.args[1]):
                cmp_ok = True
    crlf = any(l[0] == "bs:\r\n" for l in f.raw["lits"])
    R.check(cmp_ok and crlf, "C41.R3", "dechunk:crlf-after-data", "the two bytes after a chunk's data are skipped without being compared with CRLF (malformed framing is accepted)", f.loc(), dict(size_derived_comparison=cmp_ok, crlf_literal_in_body=crlf))
    # ---- R4
    cs = F.callers_of(D)
    R.floor("C41.R4", "callers of dechunk", len(cs), 1)
    for c in cs:
        ok = False
        for u in uses_of_local(c.fn, place_local(c.dest)):
            if u[0] == "call" and u[1].name.rsplit("::", 1)[-1] in ("ok_or_else", "ok_or"):
                ok = "try" in result_consumers(c.fn, u[1])
        R.check(ok, "C41.R4", f"{c.fn.path}:dechunk-None->Err", "a malformed chunked body is not reported as an error", c.fn.loc(c.bb), dict())
    # ---- R5
    R.rule("C41.R5", "K3 loop exits", "the response buffer is complete before it is decoded: read_to_end, or a read loop left only on n == 0")
    hg = F.fn("metastore::gravitino::http_get")
    dc = [c for c in hg.calls() if c.name == D]
    rte = [c for c in hg.calls() if c.name.rsplit("::", 1)[-1] == "read_to_end"]
    reads = [c for c in hg.calls() if c.name.rsplit("::", 1)[-1] in ("read", "read_buf", "read_exact")]
    CONTENT = ("ends_with", "starts_with", "windows", "contains", "find", "position", "rfind", "strip_suffix", "last", "split")
    if rte and dc and all(any(hg.dominates(r.bb, d.bb) for r in rte) for d in dc) and not reads:
        import kerr
        okp = all(propagates(result_consumers(hg, r)) for r in rte)
        R.check(okp, "C41.R5", "http_get:reads-to-eof", "the error of read_to_end is not propagated", hg.loc(rte[0].bb), dict(read_to_end=len(rte)))
    elif reads:
        # loop exits that depend on the buffer's content
        bad5 = []
        for sb in range(hg.n):
            si = hg.switch_info(sb)
            if not si or si[0] != "bool" or not si[1]:
                continue
            if not any(hg.path_exists(r.bb, sb) and hg.path_exists(sb, r.bb) for r in reads):
                continue       # not inside the read loop
            w = derives_from(hg, ["c:" + si[1]], lambda k, x: (k == "call" and x.name.rsplit("::", 1)[-1] in CONTENT and x) or None)
            if w:
                bad5.append((sb, w.name.rsplit("::", 1)[-1]))
        R.check(not bad5, "C41.R5", "http_get:reads-to-eof", f"the read loop is left on a test of the buffer's content ({sorted({w for b_, w in bad5})}): the terminator's bytes also occur inside chunk data, so a valid response whose TCP segment boundary falls there is cut short and rejected", hg.loc(bad5[0][0]) if bad5 else hg.loc(), dict(read_calls=len(reads)))
    else:
        R.undecided("C41.R5", "http_get:reads-to-eof", "neither read_to_end nor a read loop found", hg.loc())
