"""C20 IPC sidecars are invisible and safe to build concurrently — structural clauses."""
from qe import *
import k9
import guards

CLAIMS = ("R1 build_sidecar writes in the order row-group files -> `.complete` stamp -> rename(staging, final): each step dominates the next, the first two propagate their errors, and a failed step cannot reach the rename; "
          "R2 every file created by ipc_cache is created inside build_sidecar under the per-process staging directory (never under the final directory); "
          "R3 a sidecar directory can only be obtained through ensure_sidecar: the path helpers are private, ensure_sidecar returns Some only past is_fresh()==true or a successful build, and every read_row_group caller takes its `dir` from ensure_sidecar (directly or through a field all of whose writers do); "
          "R4 the in-process BUILD_LOCK guard is held (bound to a local that is not dropped) across the second is_fresh check and the build.")
NOT_DECIDED = "cross-process interleavings around remove_dir_all + rename (schedules); equality of answers with sidecars on/off."

I = "storage::ipc_cache"


def run(F, R):
    R.rule("C20.R1", "K3 ordering", "try_for_each(row groups)? ; fs::write(.complete)? ; fs::rename(staging, final)")
    R.rule("C20.R2", "K1 who-may-write", "File::create / fs::write only in build_sidecar with a staging-derived path")
    R.rule("C20.R3", "K1/K5 provenance", "sidecar dirs come only from ensure_sidecar")
    R.rule("C20.R4", "K3 guard lifetime", "BUILD_LOCK guard lives across re-check and build")
    b = F.fn(I + "::build_sidecar")
    tfe = [c for c in b.calls() if c.name.rsplit("::", 1)[-1] in ("try_for_each", "try_for_each_with", "try_for_each_init")]
    wr = [c for c in b.calls() if c.name == "std::fs::write"]
    rn = [c for c in b.calls() if c.name == "std::fs::rename"]
    R.floor("C20.R1", "build steps (try_for_each, write, rename)", len(tfe) + len(wr) + len(rn), 3)
    if len(tfe) == 1 and len(wr) == 1 and len(rn) == 1:
        t, w, r = tfe[0], wr[0], rn[0]
        order = b.dominates(t.bb, w.bb) and b.dominates(w.bb, r.bb)
        tt, wt = result_consumers(b, t), result_consumers(b, w)
        gs = guards.guards_of(b, r.bb)
        # both `?` guards dominate the rename with an Err edge
        ng = [cond for sb, cond, val in gs if cond.startswith("discr(branch(")]
        okstamp = ".complete" in "".join(l[0] for l in b.raw["lits"]) and k9.kexpr(b, w.args[0]).startswith("join(")
        R.check(order and "try" in tt and "try" in wt and len(ng) >= 2, "C20.R1", "build_sidecar:order", "row-group files, the .complete stamp and the rename are not strictly ordered with error propagation", b.loc(r.bb), dict(order=order, try_for_each=sorted(tt), write=sorted(wt), err_guards=len(ng)))
        # stamp is written INTO the staging dir and rename goes staging -> final
        we = k9.kexpr(b, w.args[0])
        re_from, re_to = k9.kexpr(b, r.args[0]), k9.kexpr(b, r.args[1])
        R.check("with_extension(" in we and "with_extension(" in re_from and re_to.startswith(I + "::sidecar_dir("), "C20.R1", "build_sidecar:stamp-in-staging-then-rename", f"stamp path {we[:60]} / rename {re_from[:40]} -> {re_to[:40]}", b.loc(w.bb), dict(stamp=we[:120]))
        R.check(okstamp, "C20.R1", "build_sidecar:stamp-literal", "the completion stamp is not `.complete`", b.loc(w.bb), nontrivial=False)
    else:
        R.bad("C20.R1", "build_sidecar:order", f"expected one try_for_each/write/rename, found {len(tfe)}/{len(wr)}/{len(rn)}", b.loc())
    # ---- R2
    creators = [c for c in F.callers_matching(lambda n: n in ("std::fs::File::create", "std::fs::write", "std::fs::File::create_new", "std::fs::OpenOptions::open", "std::fs::copy")) if c.fn.file == "src/storage/ipc_cache.rs"]
    R.floor("C20.R2", "file-creating calls in ipc_cache", len(creators), 2)
    for n, c in enumerate(sorted(creators, key=lambda c: (c.line, c.bb))):
        g = c.fn
        root = F.bodies[g.path].get("root") or g.path
        inb = root == b.path
        ok = False
        if inb:
            e = k9.kexpr(g, c.args[0])
            if g.path == b.path:
                ok = "with_extension(" in e
            else:
                # closure: path = rg_path(<upvar>, rg) or join(<upvar>, ..); the upvar must be the staging dir in build_sidecar
                par = b
                for i, j, dst, rv, line in par.stmts():
                    if rv[0] == "agg" and rv[1] == "closure:" + g.path:
                        env = {k: k9.kexpr(par, a) for k, a in enumerate(rv[2])}
                        e2 = k9.kexpr(g, c.args[0], env)
                        ok = "with_extension(" in e2 and (I + "::rg_path(") in e2
        R.check(inb and ok, "C20.R2", f"create#{n}:{c.name.rsplit('::',1)[-1]}", "a sidecar file is created outside build_sidecar's staging directory (a reader could observe it half-written)", g.loc(c.bb), dict(function=g.path))
    # ---- R3
    for h in ("sidecar_dir", "rg_path"):
        vis = F.bodies[I + "::" + h]["vis"]
        R.check(vis != "pub", "C20.R3", f"{h}:private", f"{h} is public: callers can compute a sidecar path without the freshness check", "", dict(vis=vis), nontrivial=False)
    es = F.fn(I + "::ensure_sidecar")
    somes = [i for i, j, dst, rv, line in es.stmts() if dst == "0" and rv[0] == "agg" and rv[1] == "adt:std::option::Option::Some"]
    R.floor("C20.R3", "Some(dir) returns in ensure_sidecar", len(somes), 3)
    for n, bb in enumerate(sorted(somes)):
        gs = guards.guards_of(es, bb, require_err=False)
        fresh = any(cond.startswith(I + "::is_fresh(") and val is True for sb, cond, val in gs)
        built = any("build_sidecar(" in cond and cond.startswith("discr(") and str(val) in ("Ok", "Continue") for sb, cond, val in gs)
        # `if let Err(e) = build_sidecar(..) { return None }` : the Err edge returns None
        if not built:
            for sb, cond, val in gs:
                if "build_sidecar(" in cond and cond.startswith("discr("):
                    built = str(val) != "Err"
        R.check(fresh or built, "C20.R3", f"ensure_sidecar:Some#{n}", "ensure_sidecar can hand out a directory that is neither fresh nor just built", es.loc(bb), dict(guards=[(c, str(v)) for s, c, v in gs][:6]))
    readers = [c for c in F.callers_of(I + "::read_row_group") if not c.fn.path.startswith(I + "::")]
    R.floor("C20.R3", "external read_row_group callers", len(readers), 3)
    for c in sorted(readers, key=lambda c: (c.fn.path, c.line)):
        g = c.fn
        ok, how = _from_ensure(F, g, c.args[0], 0)
        R.check(ok, "C20.R3", f"reader:{F.bodies[g.path].get('root') or g.path}#{_ord(g, c)}", f"read_row_group dir does not come from ensure_sidecar ({how})", g.loc(c.bb), dict(how=how))
    # ---- R5 the completion stamp describes the file the sidecar was BUILT FROM: it is computed from the metadata
    # ensure_sidecar read before the build (the same value is_fresh() judged), never re-read at the end of the build
    R.rule("C20.R5", "K5 provenance", "stamp_value's argument in build_sidecar derives from its parameter; ensure_sidecar passes the metadata it checked with is_fresh; build_sidecar never stats the source itself")
    sv = [c for c in b.calls() if c.name == I + "::stamp_value"]
    restat = [c for g in F.family(b.path) for c in g.calls() if c.name in ("std::fs::metadata", "std::fs::File::metadata", "std::fs::symlink_metadata")]
    okp = bool(sv) and all(origin(b, c.args[0])[0] == "arg" for c in sv) and not restat
    R.check(okp, "C20.R5", "build_sidecar:stamp-from-pre-build-metadata", "the `.complete` stamp is computed from metadata read during/after the build: a file replaced while the build runs gets a sidecar of OLD rows stamped as fresh for the NEW file", b.loc(sv[0].bb) if sv else b.loc(), dict(stamp_calls=len(sv), restats=[str(c) for c in restat][:2]))
    es0 = F.fn(I + "::ensure_sidecar")
    bs = [c for c in es0.calls() if c.name == I + "::build_sidecar"]
    fr = [c for c in es0.calls() if c.name == I + "::is_fresh"]
    oks = bool(bs) and bool(fr)
    for c in bs:
        metas = [a for a, t in zip(c.args, c.argtys) if "Metadata" in t]
        oks = oks and len(metas) == 1 and all(same_origin(es0, metas[0], fc.args[1]) or k9.kexpr(es0, metas[0]) == k9.kexpr(es0, fc.args[1]) for fc in fr)
    R.check(oks, "C20.R5", "ensure_sidecar:same-metadata-checked-and-stamped", "build_sidecar is not handed the metadata that is_fresh() was evaluated against", es0.loc(), dict(builds=len(bs), fresh_checks=len(fr)))

    # ---- R4
    locks = [c for c in es.calls() if c.name.rsplit("::", 1)[-1] == "lock" and "Mutex" in c.self_ty]
    builds = [c for c in es.calls() if c.name == I + "::build_sidecar"]
    fresh2 = [c for c in es.calls() if c.name == I + "::is_fresh"]
    R.floor("C20.R4", "lock/build sites", len(locks) + len(builds), 2)
    if locks and builds:
        bd = builds[0]
        # the builder lock is the lock call closest to the build that dominates it
        doms = [c for c in locks if es.dominates(c.bb, bd.bb)]
        lk = doms[-1] if doms else locks[0]
        # locals holding the guard: forward from lock dest through ok()/?/moves
        held = set()
        work = [place_local(lk.dest)]
        while work:
            l = work.pop()
            if l in held:
                continue
            held.add(l)
            for u in uses_of_local(es, l):
                if u[0] == "stmt" and "|" not in u[2]:
                    work.append(place_local(u[2]))
                elif u[0] == "call" and u[1].name.rsplit("::", 1)[-1] in ("ok", "branch", "unwrap", "expect", "unwrap_or_else", "into_inner"):
                    work.append(place_local(u[1].dest))
        guard_locals = [l for l in held if "MutexGuard" in es.local_ty(l) and not es.local_ty(l).startswith(("std::option::Option", "std::result::Result", "std::ops::ControlFlow"))]
        # mir_built keeps drops of moved-from temporaries (removed later by drop elaboration): only a holder that is
        # never moved out of really releases the lock when dropped
        def moved(l):
            for i, j, dst, rv, line in es.stmts():
                if rv[0] == "use" and rv[1] == f"m:{l}":
                    return True
                if rv[0] == "agg" and f"m:{l}" in rv[2]:
                    return True
            return any(f"m:{l}" in c.args for c in es.calls())
        guard_locals = [l for l in guard_locals if not moved(l)]
        drops = [i for i, bl in enumerate(es.blocks) if bl["t"][0] == "drop" and place_local(bl["t"][1]) in guard_locals and i in es.live_blocks()]
        early = [d for d in drops if es.path_exists(d, bd.bb)]
        after_lock = es.dominates(lk.bb, bd.bb) and any(es.dominates(lk.bb, c.bb) and es.dominates(c.bb, bd.bb) for c in fresh2)
        # one process-wide lock: the mutex is a `static`, not a value looked up per path spelling
        lock_static = k9.kexpr(es, lk.args[0]).startswith("#") or any(isinstance(rv[1], dict) and "static" in rv[1] for i, j, dst, rv, line in es.stmts() if rv[0] == "use" and derives_from(es, [lk.args[0]], lambda k, x, d=dst: (k == "place" and x == d) or None))
        # also fine: a per-file lock looked up under the file's canonical identity (every spelling maps to one lock)
        lock_canonical = bool(derives_from(es, [lk.args[0]], lambda k, x: (k == "call" and x.name.rsplit("::", 1)[-1] == "canonicalize" and x) or None))
        lock_static = lock_static or lock_canonical
        R.check(lock_static, "C20.R4", "ensure_sidecar:lock-is-process-wide-static", "builders are serialised by a lock that is neither one process-wide static nor looked up under the canonicalised path: two spellings of the same file (symlink, `..`) take different locks and build into the same staging directory", es.loc(lk.bb), dict(lock=k9.kexpr(es, lk.args[0])[:80]))
        R.check(bool(guard_locals) and not early and after_lock, "C20.R4", "ensure_sidecar:guard-held-across-build", "the BUILD_LOCK guard is dropped before the re-check/build (or the re-check is missing): two threads can build the same sidecar", es.loc(lk.bb), dict(guard_locals=guard_locals, early_drops=early))


def _ord(g, c):
    same = sorted([x for x in g.calls() if x.name == c.name], key=lambda x: (x.line, x.bb))
    return same.index(c)


def _from_ensure(F, g, op, depth):
    def is_ens(k, x):
        if k == "call":
            if x.name == I + "::ensure_sidecar":
                return ("call", x)
            # closure argument whose body calls ensure_sidecar (map(|f| ensure_sidecar(f)))
            for a in x.args:
                o = origin(g, a)
                if o[0] == "rv" and o[1][0] == "agg" and o[1][1].startswith("closure:"):
                    if any(y.name == I + "::ensure_sidecar" for y in F.fam_calls(o[1][1][8:])):
                        return ("closure", x)
        if k == "place":
            for fld, adt in place_fields(x):
                if fld == "ipc_dirs" or "ipc_dir" in fld:
                    return ("field", (fld, adt))
            # closure upvar: resolve in the parent
            if x.startswith("1|") and "{closure}" in x:
                return ("upvar", x)
        return None
    w = derives_from(g, [op], is_ens)
    if not w:
        # a plain parameter: every caller must pass an ensure_sidecar-derived directory
        o = origin(g, op)
        if o[0] == "arg" and depth <= 2 and F.bodies[g.path]["kind"] in ("fn", "method"):
            callers = F.callers_of(g.path)
            if not callers:
                return False, "parameter of a function without callers"
            for cc in callers:
                ok, how = _from_ensure(F, cc.fn, cc.args[o[1] - 1], depth + 1)
                if not ok:
                    return False, f"caller {cc.fn.path}: {how}"
            return True, f"parameter; all {len(callers)} callers pass an ensure_sidecar-derived dir"
        # reviewed table entry: the streaming scan threads its sidecar map through the `unfold` state tuple into an
        # async closure parameter, which the intra-procedural slice cannot follow.  Checked premise: that family reads
        # the operator's `ipc_dirs` field (whose writers all derive from ensure_sidecar) and contains no call that
        # could fabricate a directory path.
        SP = "physical::operators::streaming_parquet_scan::StreamingParquetScanExec"
        root = F.bodies[g.path].get("root") or g.path
        if root == "<" + SP + " as physical::plan::PhysicalOperator>::execute" and depth <= 3:
            fam = F.family(root)
            reads = any((fld, adt) == ("ipc_dirs", SP) for h in fam for bb, acc, fld, adt, line in h.field_accesses())
            fabricates = [c.name for h in fam for c in h.calls() if c.name.rsplit("::", 1)[-1] in ("with_extension", "with_file_name", "join", "set_extension", "set_file_name") and "Path" in c.self_ty]
            fabricates += [c.name for h in fam for c in h.calls() if c.name in ("std::path::PathBuf::from", "<std::path::PathBuf as std::convert::From<T>>::from")]
            if reads and not fabricates:
                for h in F.fns_building("adt:" + SP):
                    for i, j, dst, rv, line in h.stmts():
                        if rv[0] == "agg" and rv[1] == "adt:" + SP:
                            ok, how = _from_ensure(F, h, dict(zip(rv[3], rv[2]))["ipc_dirs"], depth + 1)
                            if not ok:
                                return False, f"table premise failed: {SP}.ipc_dirs written from something else in {h.path}"
                return True, "table entry StreamingParquetScanExec::execute: family reads self.ipc_dirs (all writers from ensure_sidecar) and constructs no path"
            return False, f"table premise failed: reads ipc_dirs={reads}, path constructions={fabricates[:3]}"
        return False, "no ensure_sidecar in the slice"
    if w[0] in ("call", "closure"):
        return True, "ensure_sidecar in the same function"
    if w[0] == "field":
        fld, adt = w[1]
        if adt == "{closure}" or depth > 2:
            return False, "unresolved closure capture"
        ws = F.fns_building("adt:" + adt)
        if not ws:
            return False, f"no constructor of {adt}"
        for h in ws:
            for i, j, dst, rv, line in h.stmts():
                if rv[0] == "agg" and rv[1] == "adt:" + adt:
                    m = dict(zip(rv[3], rv[2]))
                    ok, how = _from_ensure(F, h, m[fld], depth + 1)
                    if not ok:
                        return False, f"{adt}.{fld} written in {h.path} from something else"
        return True, f"field {adt.rsplit('::',1)[-1]}.{fld}, all writers derive from ensure_sidecar"
    if w[0] == "upvar":
        # find the closure literal in the lexical parent and follow the captured operand
        raw = F.bodies[g.path]
        par = F.fn(raw["lexparent"]) if raw.get("lexparent") in F.bodies else None
        idx = int(w[1].split("|")[-1].split(":")[1]) if w[1].split("|")[-1].startswith("f:") else None
        parts = [p for p in w[1].split("|") if p.startswith("f:") and p.endswith("{closure}")]
        if par is None or not parts:
            return False, "closure capture not resolvable"
        idx = int(parts[0].split(":")[1])
        for i, j, dst, rv, line in par.stmts():
            if rv[0] == "agg" and rv[1] == "closure:" + g.path and idx < len(rv[2]):
                return _from_ensure(F, par, rv[2][idx], depth + 1)
        return False, "closure literal not found in parent"
    return False, "?"
