"""C33 Memory pool accounting is exact under concurrency — structural clauses."""
from qe import *

CLAIMS = ("R1 MemoryPool.used is touched only by atomic load/fetch_add/fetch_sub/compare_exchange (never store/swap/&mut); "
          "R2 try_allocate returns Some(reservation) only on the Ok edge of a compare_exchange whose new value is the one tested against the limit and computed by checked_add from the CAS's expected value; "
          "R3 every MemoryReservation literal is paired with an add of the same size, release is called only from Drop with self.size, resize adjusts by the exact difference on both branches before assigning size.")
NOT_DECIDED = "allocate() (documented to exceed the limit); memory-model arguments beyond the single-RMW linearisation point."

POOL = "execution::memory::MemoryPool"
RES = "execution::memory::MemoryReservation"
ATOMIC_OK = ("load", "fetch_add", "fetch_sub", "compare_exchange", "compare_exchange_weak")


def used_refs(F):
    """every place in the fact base that names MemoryPool.used"""
    out = []
    for f in F.fns_touching("used", POOL):
        for i, j, dst, rv, line in f.stmts():
            places = [(dst, "w")]
            if rv[0] in ("ref", "raw"):
                places.append((rv[2], "ref:" + str(rv[1])))
            elif rv[0] in ("use",):
                pl = op_place(rv[1])
                if pl:
                    places.append((pl, "r"))
            elif rv[0] == "agg":
                continue
            for pl, how in places:
                fs = place_fields(pl)
                if fs and fs[-1] == ("used", POOL):
                    out.append((f, i, dst, how, line))
    return out


def run(F, R):
    R.rule("C33.R1", "K1 who-may-touch", "MemoryPool.used is only borrowed shared and handed to atomic load/fetch_add/fetch_sub/compare_exchange*; never stored, swapped or borrowed mutably")
    R.rule("C33.R2", "K3 dominance", "try_allocate builds Some(MemoryReservation) only on the Ok edge of compare_exchange* whose `new` operand is the value tested against max_memory and computed by checked_add from the CAS's `current`")
    R.rule("C33.R3", "K2 pairing", "every MemoryReservation literal is paired with an add of the same size to `used`; release is called only from Drop; resize adjusts `used` by the difference on both branches before assigning size")
    # ---- R1
    refs = used_refs(F)
    R.floor("C33.R1", "references to MemoryPool.used", len(refs), 7)
    for f, bb, dst, how, line in refs:
        key = f"{f.path}:{how}"
        if how != "ref:shr":
            R.bad("C33.R1", key, f"MemoryPool.used accessed by {how}, not a shared borrow for an atomic op", f.loc(bb))
            continue
        okc, other = [], []
        work, seen = [place_local(dst)], set()
        while work:
            l = work.pop()
            if l in seen:
                continue
            seen.add(l)
            for u in uses_of_local(f, l):
                if u[0] == "call" and u[2] == 0 and u[1].self_ty.startswith("std::sync::atomic::Atomic<") and u[1].name.rsplit("::", 1)[-1] in ATOMIC_OK:
                    okc.append(u)
                elif u[0] == "stmt" and u[3][0] in ("ref", "use") and "|" not in u[2]:
                    work.append(place_local(u[2]))  # reborrow / move of the shared reference
                elif u[0] == "stmt" and u[3][0] == "cast" and u[3][4] == "&dyn std::fmt::Debug":
                    okc.append(("debug", None, None))  # read-only formatting
                else:
                    other.append(u)
        nm = sorted({(u[1].name.rsplit("::", 1)[-1] if u[0] == "call" else u[0]) for u in okc})
        R.check(bool(okc) and not other, "C33.R1", key + ":" + "+".join(nm),
                f"borrow of MemoryPool.used flows to {[str(u[1]) if u[0]=='call' else u[0] for u in other]}", f.loc(bb),
                dict(function=f.path, block=bb, sinks=nm))
    # any function other than constructors that aggregates a MemoryPool
    ctor = [f.path for f in F.fns_building("adt:" + POOL)]
    R.check(set(ctor) == {POOL + "::new"}, "C33.R1", "constructors", f"MemoryPool literal outside MemoryPool::new: {ctor}", "", dict(ctors=ctor), nontrivial=False)

    # ---- R2
    f = F.fn(POOL + "::try_allocate")
    lits = [(i, rv) for i, j, dst, rv, line in f.stmts() if rv[0] == "agg" and rv[1] == "adt:" + RES]
    R.floor("C33.R2", "MemoryReservation literals in try_allocate", len(lits), 1)
    cas = [c for c in f.calls() if c.name.rsplit("::", 1)[-1] in ("compare_exchange", "compare_exchange_weak")]
    R.floor("C33.R2", "CAS calls in try_allocate", len(cas), 1)
    for bb, rv in lits:
        good = False
        why = "no dominating compare_exchange Ok edge"
        for c in cas:
            # find the switch on discr(c.dest)
            for sb in range(f.n):
                si = f.switch_info(sb)
                if not si or si[0] != "enum":
                    continue
                if si[1][0] != c.dest:
                    continue
                ok_t = si[2].get("Ok")
                if ok_t is None:
                    continue
                # Ok edge dominates the literal; and literal not reachable when Ok edge removed
                if not f.dominates(ok_t, bb) or len(f.pred(ok_t)) != 1:
                    why = "literal not dominated by the Ok edge"
                    continue
                # operands of the CAS
                cur, new = c.args[1], c.args[2]
                on = origin(f, new)
                # new must be the Continue payload of Try::branch(checked_add(cur, size))
                chain_ok = False
                if on[0] in ("named", "place", "multi"):
                    # find checked_add call whose result feeds `new`
                    def src(kind, x):
                        if kind == "call" and x.is_("checked_add"):
                            return x
                    w = derives_from(f, [new], src)
                    if w and same_origin(f, w.args[0], cur):
                        chain_ok = True
                    else:
                        why = "CAS `new` is not checked_add(CAS `current`, ..)"
                # the limit test: a bool switch on Gt(new', max_memory) whose false edge dominates the CAS
                lim_ok = False
                for tb in range(f.n):
                    ti = f.switch_info(tb)
                    if not ti or ti[0] != "bool":
                        continue
                    o = origin(f, "c:" + ti[1]) if ti[1] else None
                    if not o or o[0] != "rv" or o[1][0] != "bin":
                        continue
                    opk, a, b = o[1][1], o[1][2], o[1][3]
                    oa, ob = origin(f, a), origin(f, b)
                    is_max = lambda x: x[0] == "place" and place_fields(x[1])[-1:] == [("max_memory", POOL)]
                    if opk == "Gt" and is_max(ob) and same_origin(f, a, new):
                        pass_edge = ti[2][False]
                    elif opk == "Le" and is_max(ob) and same_origin(f, a, new):
                        pass_edge = ti[2][True]
                    elif opk == "Lt" and is_max(oa) and same_origin(f, b, new):
                        pass_edge = ti[2][False]
                    elif opk == "Ge" and is_max(oa) and same_origin(f, b, new):
                        pass_edge = ti[2][True]
                    else:
                        continue
                    fail_edge = [t for k, t in ti[2].items() if t != pass_edge]
                    if f.dominates(pass_edge, c.bb) and len(f.pred(pass_edge)) == 1 and not f.path_exists(fail_edge[0], c.bb, avoid=frozenset([tb])):
                        lim_ok = True
                if not lim_ok:
                    why = "CAS not dominated by the `new > max_memory => None` test on the same value"
                if chain_ok and lim_ok:
                    good = True
        R.check(good, "C33.R2", "try_allocate:Some(MemoryReservation)", why, f.loc(bb), dict(function=f.path, literal_block=bb, cas=[str(c) for c in cas]))

    # ---- R3
    all_lits = []
    for g in F.fns_building("adt:" + RES):
        for i, j, dst, rv, line in g.stmts():
            if rv[0] == "agg" and rv[1] == "adt:" + RES:
                all_lits.append((g, i, rv))
    R.floor("C33.R3", "MemoryReservation literals", len(all_lits), 2)
    for g, bb, rv in all_lits:
        size_op = rv[2][rv[3].index("size")]
        paired = False
        for c in g.calls():
            nm = c.name.rsplit("::", 1)[-1]
            if nm == "fetch_add" and g.dominates(c.bb, bb):
                o = origin(g, c.args[0])
                if o[0] == "place" and place_fields(o[1])[-1:] == [("used", POOL)] and same_origin(g, c.args[1], size_op):
                    paired = True
            if nm in ("compare_exchange", "compare_exchange_weak") and g.dominates(c.bb, bb):
                # new = checked_add(current, size)
                def src(kind, x):
                    if kind == "call" and x.is_("checked_add"):
                        return x
                w = derives_from(g, [c.args[2]], src)
                if w and same_origin(g, w.args[1], size_op):
                    paired = True
        R.check(paired, "C33.R3", f"{g.path}:literal", "MemoryReservation built without adding the same size to MemoryPool.used", g.loc(bb), dict(function=g.path, block=bb))
    # release callers
    cs = F.callers_of(POOL + "::release")
    R.floor("C33.R3", "callers of MemoryPool::release", len(cs), 1)
    for c in cs:
        isdrop = c.fn.path == f"<{RES}<'a> as std::ops::Drop>::drop"
        argok = False
        if isdrop:
            o = origin(c.fn, c.args[1])
            argok = o[0] == "place" and place_fields(o[1])[-1:] == [("size", RES)]
        R.check(isdrop and argok, "C33.R3", f"release-caller:{c.fn.path}", "MemoryPool::release called outside Drop for MemoryReservation or not with self.size", c.fn.loc(c.bb), dict(caller=c.fn.path))
    # subtractions of used: only release (arg = its parameter) and resize
    for c in F.callers_matching(lambda n: n.endswith("::fetch_sub")):
            g = c.fn
            o = origin(g, c.args[0])
            if o[0] == "place" and place_fields(o[1])[-1:] == [("used", POOL)]:
                R.check(g.path in (POOL + "::release", RES + "::<'a>::resize"), "C33.R3", f"fetch_sub:{g.path}", "MemoryPool.used decremented outside release/resize", g.loc(c.bb), nontrivial=False)
    # resize
    g = F.fn(RES + "::<'a>::resize")
    writes = [(i, dst) for i, j, dst, rv, line in g.stmts() if place_fields(dst)[-1:] == [("size", RES)]]
    R.floor("C33.R3", "writes of MemoryReservation.size in resize", len(writes), 1)
    adj = [c for c in g.calls() if c.name.rsplit("::", 1)[-1] in ("fetch_add", "fetch_sub")]
    for wb, dst in writes:
        # no path entry -> write avoiding every adjust call
        free = wb in g.reachable(0, avoid=frozenset(c.bb for c in adj))
        R.check(not free, "C33.R3", "resize:size-write-after-adjust", "self.size assigned on a path that did not adjust MemoryPool.used", g.loc(wb), dict(adjust_blocks=[c.bb for c in adj]))
    # the branch: new_size > self.size => fetch_add(new-size) else fetch_sub(size-new)
    okdir = 0
    for c in adj:
        nm = c.name.rsplit("::", 1)[-1]
        o = origin(g, c.args[1])
        if o[0] == "rv" and o[1][0] == "bin" and o[1][1].startswith("Sub"):
            a, b = origin(g, o[1][2]), origin(g, o[1][3])
            a_is_new = a[0] == "arg" and g.local_name(a[1]) == "new_size" or a == ("arg", 2)
            b_is_new = b == ("arg", 2)
            a_is_size = a[0] == "place" and place_fields(a[1])[-1:] == [("size", RES)]
            b_is_size = b[0] == "place" and place_fields(b[1])[-1:] == [("size", RES)]
            if nm == "fetch_add" and a_is_new and b_is_size:
                okdir += 1
            elif nm == "fetch_sub" and a_is_size and b_is_new:
                okdir += 1
            else:
                R.bad("C33.R3", f"resize:{nm}:operand", f"{nm} operand is not the matching difference", g.loc(c.bb))
        else:
            R.bad("C33.R3", f"resize:{nm}:operand", f"{nm} operand is not a difference of new_size and self.size", g.loc(c.bb))
    R.check(okdir == 2, "C33.R3", "resize:both-directions", "resize does not adjust by (new-size) on grow and (size-new) on shrink", g.loc(), dict(matched=okdir))
