"""K-DET: nondeterminism sources in the in-crate call closure of a function."""
from qe import *

NONDET_CALLEES = (
    "std::time::SystemTime::now", "std::time::Instant::now", "std::env::var", "std::env::var_os", "std::env::vars",
    "rand::thread_rng", "rand::random", "rand::rngs::ThreadRng", "rand::SeedableRng::from_entropy", "rand::rngs::OsRng",
    "std::hash::RandomState::new", "std::collections::hash_map::RandomState::new", "std::process::id", "std::thread::current",
    "uuid::Uuid::new_v4", "std::collections::hash_map::DefaultHasher::new", "std::hash::DefaultHasher::new",
)
HASH_ITER = ("iter", "into_iter", "keys", "values", "drain", "iter_mut", "values_mut", "into_keys", "into_values")


def nondet_sites(F, roots, allow=()):
    """[(Call, kind)] for every nondeterminism source in the transitive in-crate closure of roots."""
    out = []
    for p in sorted(F.closure_of(roots)):
        for c in F.fam_calls(p):
            nm = c.name
            base = c.callee
            kind = None
            for nd in NONDET_CALLEES:
                if nm == nd or base == nd or nm.startswith(nd + "::") or nm.endswith("::" + nd.split("::", 1)[-1]) and nd.split("::")[0] in nm:
                    kind = nd
            last = nm.rsplit("::", 1)[-1]
            if kind is None and ("HashMap" in c.self_ty or "HashSet" in c.self_ty) and last in HASH_ITER and ("std::collections" in c.self_ty or "hashbrown" in c.self_ty):
                kind = "hash-iteration:" + last
            if kind is None and last == "into_iter" and c.argtys and ("HashMap<" in c.argtys[0] or "HashSet<" in c.argtys[0]):
                kind = "hash-iteration:into_iter"
            if kind and not any(a in kind or a in c.fn.path for a in allow):
                out.append((c, kind))
    return out
