"""C21 Aggregates follow SQL NULL and empty-input rules on every path — structural clauses."""
from qe import *
import re
import k9
import guards

CLAIMS = ("R1 in every finaliser table (hash_agg::build_agg_array, hash_agg::build_vectorized_agg_column, morsel AccumulatorState::finalize) each arm for SUM/AVG/MIN/MAX contains a NULL-producing construct (append_null / ScalarValue::Null) so a group with no non-NULL input can yield NULL, each COUNT-family arm contains none (COUNT of nothing is 0), and no aggregate is emitted by a value-only loop outside the table; "
          "R3 NULL grouping keys form one group: the group-key extractor maps an is_null row to its dedicated Null value before any type dispatch; "
          "R5 (= C07.R6) partial MIN states are never merged with Option's ordering; "
          "R6 the group tables compare keys with GROUPING semantics: every row comparator an aggregation function of hash_agg.rs calls to decide 'same group' answers true for two NULLs and false for NULL vs non-NULL (evaluated abstractly over the NULL-ness of both operands); a comparator with join semantics (NULL never matches) splits the NULL group into one group per row; "
          "R7 no aggregate result is a fabricated sentinel: in the aggregate evaluators (hash_agg.rs, morsel_agg.rs) the Option produced by Iterator::min/max/min_by/max_by/reduce over the non-NULL inputs never reaches an array constructor or builder through unwrap_or(<constant>) / unwrap_or_default (MIN/MAX over no rows is NULL, not i64::MAX); "
          "R8 the morsel group table does not infer slot occupancy from slot content: a never-used slot and the group whose key is NULL in every column (with no aggregates, e.g. GROUP BY k / DISTINCT) have identical content (all-Null key, no accumulator that saw data), so a predicate over (key, accumulators) alone must drop that group or emit a phantom one; occupancy has to be recorded; "
          "R9 the 'saw a non-NULL input' flag travels with the sum: wherever a Sum/SumInt accumulator's value is added to through a pattern binding, the same binding site also takes the flag and writes it (true, or OR-ed with the other side's flag) - a value added without the flag finalises to NULL.")
NOT_DECIDED = "numeric results; that the single batch of an empty global aggregate has exactly one row (a value of aggregate_batches*)."

HA = "physical::operators::hash_agg"
NULLABLE = {"Sum", "Avg", "Min", "Max"}
COUNTS = {"Count", "CountDistinct", "CountIf", "RegrCount", "ApproxDistinct"}


def run(F, R):
    R.rule("C21.R1", "K4 arm table", "SUM/AVG/MIN/MAX arms can emit NULL; COUNT arms cannot; no value-only emission outside the table")
    R.rule("C21.R3", "K4", "NULL key -> GroupValue::Null before type dispatch")
    nfin = 0
    for path in (HA + "::build_agg_array", HA + "::build_vectorized_agg_column"):
        g = F.fn(path)
        ms = [m for m in g.raw["matches"] if m["kind"] == "match" and len(m["arms"]) >= 10 and any("AggregateFunction::" in a["pat"] for a in m["arms"])]
        if len(ms) != 1:
            raise Broken(f"{path}: {len(ms)} aggregate dispatch tables")
        m = ms[0]
        nfin += 1
        name = F.bodies[path]["name"]
        for a in m["arms"]:
            if "AggregateFunction::" not in a["pat"]:
                R.check(a["cls"] in ("Err", "ret:Err"), "C21.R1", f"{name}:fallthrough", f"an unsupported (function, type) pair falls through to {a['cls']} instead of an error", f"{g.file}:{a['span'][0]}", dict(), nontrivial=False)
                continue
            import re
            funcs = set(re.findall(r"AggregateFunction::([A-Za-z]+)", a["pat"]))
            dt = re.findall(r"DataType::([A-Za-z0-9]+)", a["pat"])
            names = {c.name.rsplit("::", 1)[-1] for c in calls_in_lines(g, a["span"])}
            can_null = bool(names & {"append_null", "append_option", "new_null_array", "append_nulls"})
            key = f"{name}:{'|'.join(sorted(funcs))}/{'|'.join(dt) or '_'}"
            if funcs & NULLABLE:
                R.check(can_null, "C21.R1", key, f"{sorted(funcs)} over {dt or 'any type'} can never produce NULL: a group whose inputs are all NULL gets a fabricated value", f"{g.file}:{a['span'][0]}", dict(calls=sorted(names & {"append_null", "append_value", "append_option"})))
            elif funcs & COUNTS and funcs <= COUNTS:
                R.check(not can_null, "C21.R1", key, f"{sorted(funcs)} can produce NULL: COUNT over no rows must be 0", f"{g.file}:{a['span'][0]}", dict(), nontrivial=False)
        # emissions outside the table
        tspan = m["span"]
        outside = [c for c in g.calls() if c.name.rsplit("::", 1)[-1] == "append_value" and not span_contains(tspan, c.span)]
        outside_null = [c for c in g.calls() if c.name.rsplit("::", 1)[-1] in ("append_null", "append_option") and not span_contains(tspan, c.span)]
        if outside:
            R.check(bool(outside_null), "C21.R1", f"{name}:pre-table-emission", f"an aggregate (SUM(DISTINCT) special case) is emitted with append_value only, outside the dispatch table: an all-NULL group yields 0 instead of NULL", g.loc(outside[0].bb), dict(value_emissions=len(outside)))
    # morsel finalize
    fz = F.one("AccumulatorState::finalize", file="src/physical/morsel_agg.rs")
    ms = [m for m in fz.raw["matches"] if m["kind"] == "match" and m["scrut"].endswith("AccumulatorState") and len(m["arms"]) >= 5]
    if len(ms) != 1:
        raise Broken(f"morsel AccumulatorState::finalize: {len(ms)} tables")
    nfin += 1
    for a in ms[0]["arms"]:
        head = pat_head(pat_alternatives(a["pat"])[0]).rsplit("::", 1)[-1]
        nulls = [1 for i, j, dst, rv, line in fz.stmts() if a["span"][0] <= line <= a["span"][2] and rv[0] == "agg" and rv[1].endswith("ScalarValue::Null")]
        nulls += [1 for c in calls_in_lines(fz, a["span"]) if c.name.rsplit("::", 1)[-1] in ("unwrap_or", "unwrap_or_else", "unwrap_or_default")]
        if head in ("Sum", "SumInt", "Avg", "Min", "Max"):
            R.check(bool(nulls) or "Null" in a["cls"], "C21.R1", f"morsel.finalize:{head}", f"morsel {head} state can never finalise to NULL", f"{fz.file}:{a['span'][0]}", dict())
        elif head in ("Count",):
            R.check(not nulls and "Null" not in a["cls"], "C21.R1", f"morsel.finalize:{head}", "morsel COUNT can finalise to NULL", f"{fz.file}:{a['span'][0]}", dict(), nontrivial=False)
    R.floor("C21.R1", "finaliser tables examined", nfin, 3)
    # ---- R3
    eg = F.fn(HA + "::extract_group_value")
    isn = [c for c in eg.calls() if c.name.rsplit("::", 1)[-1] == "is_null"]
    dcs = [c for c in eg.calls() if c.name.rsplit("::", 1)[-1] == "downcast_ref"]
    ok3 = False
    if isn:
        for sb in range(eg.n):
            si = eg.switch_info(sb)
            if si and si[0] == "bool" and si[1] and origin(eg, "c:" + si[1]) == ("call", isn[0]):
                t = si[2][True]
                vals = [rv for i, j, dst, rv, line in eg.stmts() if dst == "0" and i in eg.reachable(t, avoid=frozenset([sb])) and not any(eg.path_exists(d.bb, i) for d in dcs if d.bb in eg.reachable(t, avoid=frozenset([sb])))]
                ok3 = bool(vals) and all(rv[0] == "agg" and rv[1].endswith("GroupValue::Null") for rv in vals[:1]) and all(eg.dominates(sb, d.bb) for d in dcs)
    R.check(ok3, "C21.R3", "extract_group_value:null-key-first", "a NULL grouping key is not mapped to GroupValue::Null before the type dispatch (NULL keys would be split by the garbage value under the null slot)", eg.loc(), dict(downcasts=len(dcs)))
    import c07b
    from report import Report
    R2 = Report("C07", F)
    c07b.run(F, R2)
    R.rule("C21.R5", "= C07.R6", "no Option-ordered MIN merge")
    for it in R2.items:
        if it["rule"] == "C07.R6":
            key = it["key"].split(":", 1)[1]
            (R.ok("C21.R5", key, it["detail"], it["loc"]) if it["status"] == "pass" else R.bad("C21.R5", key, it["what"], it["loc"], it["detail"]))
    # ---- R6: grouping comparators
    import nullpair
    R.rule("C21.R6", "abstract evaluation over operand NULL-ness", "row comparators used by group tables: (NULL,NULL) -> same group; (NULL,x) -> different")
    sites = []
    for g in F.in_file("src/physical/operators/hash_agg.rs"):
        for c in g.calls():
            if c.name in F.bodies and len(c.args) == 4 and g.local_ty(place_local(c.dest)) == "bool" and "compare" in c.name.rsplit("::", 1)[-1]:
                sites.append((g, c))
    R.floor("C21.R6", "row-comparator calls in hash_agg.rs", len(sites), 1)
    seen6 = set()
    for g, c in sites:
        # the per-column comparator: the callee itself, or the 4-argument bool function it calls per column
        inner = [x.name for x in F.fam_calls(c.name) if x.name in F.bodies and len(x.args) == 4 and x.fn.local_ty(place_local(x.dest)) == "bool"]
        root = F.bodies[g.path].get("root") or g.path
        if (root, c.name) in seen6:
            continue
        seen6.add((root, c.name))
        b = nullpair.behaviour(F, c.name)
        target = c.name
        if b[(True, True)] == "V" and inner:
            # a wrapper that delegates the NULL decision to its per-column comparator
            target = inner[0]
            b = nullpair.behaviour(F, target)
        ok = b[(True, True)] == "true" and b[(True, False)] == "false" and b[(False, True)] == "false"
        R.check(ok, "C21.R6", f"{root.rsplit('::', 1)[-1]}:{target.rsplit('::', 2)[-2]}::{target.rsplit('::', 1)[-1]}", f"group membership is decided by a comparator with (NULL,NULL) -> {b[(True, True)]}, (NULL,x) -> {b[(True, False)]}: NULL keys never equal each other, so every NULL row becomes its own group (SQL: all NULL keys form one group)", g.loc(c.bb), dict(behaviour={f"{k[0]},{k[1]}": v for k, v in b.items()}))
    # ---- R7: sentinel results
    R.rule("C21.R7", "K4 arm x K5 provenance", "inside a MIN/MAX arm of an aggregate dispatch, the Option of min()/max() is not defaulted to a constant")
    n7 = 0
    bad7 = []
    REDUCE = ("min", "max", "min_by", "max_by", "reduce", "min_by_key", "max_by_key")
    for file in ("src/physical/operators/hash_agg.rs", "src/physical/morsel_agg.rs", "src/physical/operators/morsel_agg.rs", "src/physical/operators/spillable.rs"):
        for g in F.in_file(file):
            if F.bodies[g.path]["kind"] not in ("fn", "method", "closure"):
                continue
            for m in g.raw["matches"]:
                if m["kind"] != "match" or not any("AggregateFunction::" in a["pat"] for a in m["arms"]):
                    continue
                for a in m["arms"]:
                    funcs = set(re.findall(r"AggregateFunction::([A-Za-z]+)", a["pat"]))
                    if not funcs & {"Min", "Max"}:
                        continue
                    for c in calls_in_lines(g, a["span"]):
                        last = c.name.rsplit("::", 1)[-1]
                        if last in REDUCE and c.name.startswith(("std::iter::Iterator::", "core::iter::Iterator::")):
                            n7 += 1
                            for u in uses_of_local(g, place_local(c.dest)):
                                if u[0] != "call":
                                    continue
                                w = u[1]
                                wl = w.name.rsplit("::", 1)[-1]
                                if wl == "unwrap_or_default" or (wl == "unwrap_or" and len(w.args) > 1 and origin(g, w.args[1])[0] == "const"):
                                    tyk = (c.self_ty or "").split("datatypes::")[-1].split(">")[0] if "datatypes::" in (c.self_ty or "") else "?"
                                    bad7.append((g, w, "|".join(sorted(funcs & {"Min", "Max"})), tyk))
    R.floor("C21.R7", "min/max reductions inside MIN/MAX arms", n7, 4)
    seen7 = set()
    for g, w, fn_, tyk in bad7:
        root = F.bodies[g.path].get("root") or g.path
        key = f"{root.rsplit('::', 1)[-1]}:{fn_}/{tyk}:sentinel"
        if key in seen7:
            continue
        seen7.add(key)
        R.bad("C21.R7", key, f"{fn_.upper()} over no non-NULL input yields a fabricated sentinel (unwrap_or of a constant) instead of NULL: `SELECT {fn_.upper()}(v) FROM t WHERE false` returns i64::MIN / i64::MAX", g.loc(w.bb), dict())
    R.ok("C21.R7", "min/max-results-keep-their-Option", dict(reductions=n7, sentinels=len(seen7)))
    # ---- R8: occupancy by content
    R.rule("C21.R8", "K1 inputs of the occupancy predicate", "slot_has_data decides from a recorded occupancy value, not only from (key, accumulators)")
    sh = F.one("AggregationState::slot_has_data", file="src/physical/morsel_agg.rs")
    argt = [sh.local_ty(i) for i in range(1, sh.raw["nargs"] + 1)]
    reads = sorted({(fld, a.rsplit("::", 1)[-1]) for bb, acc, fld, a, line in sh.field_accesses()})
    content_only = all(("GroupKey" in t or "AccumulatorState" in t) for t in argt) and all(a in ("GroupKey", "AccumulatorState") or a.startswith("AccumulatorState") for f_, a in reads)
    R.check(not content_only, "C21.R8", "slot_has_data:occupancy-inferred-from-content", "the perfect-hash table tells a used slot from a free one by looking at the slot's key and accumulators only; for GROUP BY without aggregates the all-NULL-key group is indistinguishable from a free slot and is dropped (`SELECT k FROM t GROUP BY k` over Parquet loses the NULL group)", sh.loc(), dict(parameters=argt, fields_read=reads))
    # ---- R9: value and seen-flag are updated together
    R.rule("C21.R9", "K2 pairing", "Sum/SumInt: every value += through a binding is paired with a write of the seen flag of the same accumulator")
    n9 = 0
    for file in ("src/physical/morsel_agg.rs", "src/physical/operators/morsel_agg.rs"):
        for g in F.in_file(file):
            refs = {}
            for i, j, dst, rv, line in g.stmts():
                if rv[0] == "ref" and rv[1] == "mut" and "|" not in dst:
                    m_ = re.search(r"^(.*)\|v:(Sum|SumInt)\|f:(\d):", rv[2])
                    if m_:
                        refs.setdefault((m_.group(1), m_.group(2)), {}).setdefault(int(m_.group(3)), []).append((place_local(dst), i, line))
            for (base, var), d in sorted(refs.items()):
                for l, i, line in d.get(0, []):
                    wr = [ii for ii, j, dst, rv, ln in g.stmts() if dst == f"{l}|*"]
                    wr += [c.bb for c in g.calls() if c.name.rsplit("::", 1)[-1] == "add_assign" and c.args and op_place(c.args[0]) and place_local(op_place(c.args[0])) == l]
                    if not wr:
                        continue
                    n9 += 1
                    flagw = []
                    for l1, i1, line1 in d.get(1, []):
                        flagw += [ii for ii, j, dst, rv, ln in g.stmts() if dst == f"{l1}|*"]
                        flagw += [c.bb for c in g.calls() if c.name.rsplit("::", 1)[-1] in ("bitor_assign",) and c.args and op_place(c.args[0]) and place_local(op_place(c.args[0])) == l1]
                    root = F.bodies[g.path].get("root") or g.path
                    R.check(bool(flagw), "C21.R9", f"{root.rsplit('::', 1)[-1]}:{var}@{_nth(g, i)}", f"a {var} accumulator's value is added to without its 'saw an input' flag being written at the same site: a group whose first state was created by an all-NULL batch keeps flag = false and SUM finalises to NULL although real inputs were added", g.loc(wr[0]), dict(value_writes=len(wr), flag_writes=len(flagw)))
    R.floor("C21.R9", "Sum/SumInt value-accumulation sites through bindings", n9, 6)


def _nth(g, bb):
    """ordinal of the block among the function's Sum-binding sites (stable under line shifts)"""
    sites = sorted({i for i, j, dst, rv, line in g.stmts() if rv[0] == "ref" and rv[1] == "mut" and re.search(r"\|v:(Sum|SumInt)\|f:0:", rv[2])})
    return sites.index(bb) if bb in sites else -1
