"""C21 Aggregates follow SQL NULL and empty-input rules on every path — structural clauses."""
from qe import *
import k9
import guards

CLAIMS = ("R1 in every finaliser table (hash_agg::build_agg_array, hash_agg::build_vectorized_agg_column, morsel AccumulatorState::finalize) each arm for SUM/AVG/MIN/MAX contains a NULL-producing construct (append_null / ScalarValue::Null) so a group with no non-NULL input can yield NULL, each COUNT-family arm contains none (COUNT of nothing is 0), and no aggregate is emitted by a value-only loop outside the table; "
          "R3 NULL grouping keys form one group: the group-key extractor maps an is_null row to its dedicated Null value before any type dispatch; "
          "R5 (= C07.R6) partial MIN states are never merged with Option's ordering.")
NOT_DECIDED = "numeric results; that the single batch of an empty global aggregate has exactly one row (a value of aggregate_batches*)."

HA = "physical::operators::hash_agg"
NULLABLE = {"Sum", "Avg", "Min", "Max"}
COUNTS = {"Count", "CountDistinct", "CountIf", "RegrCount", "ApproxDistinct"}


def run(F, R):
    R.rule("C21.R1", "K4 arm table", "SUM/AVG/MIN/MAX arms can emit NULL; COUNT arms cannot; no value-only emission outside the table")
    R.rule("C21.R3", "K4", "NULL key -> GroupValue::Null before type dispatch")
    nfin = 0
    for path in (HA + "::build_agg_array", HA + "::build_vectorized_agg_column"):
        g = F.fn(path)
        ms = [m for m in g.raw["matches"] if m["kind"] == "match" and len(m["arms"]) >= 10 and any("AggregateFunction::" in a["pat"] for a in m["arms"])]
        if len(ms) != 1:
            raise Broken(f"{path}: {len(ms)} aggregate dispatch tables")
        m = ms[0]
        nfin += 1
        name = F.bodies[path]["name"]
        for a in m["arms"]:
            if "AggregateFunction::" not in a["pat"]:
                R.check(a["cls"] in ("Err", "ret:Err"), "C21.R1", f"{name}:fallthrough", f"an unsupported (function, type) pair falls through to {a['cls']} instead of an error", f"{g.file}:{a['span'][0]}", dict(), nontrivial=False)
                continue
            import re
            funcs = set(re.findall(r"AggregateFunction::([A-Za-z]+)", a["pat"]))
            dt = re.findall(r"DataType::([A-Za-z0-9]+)", a["pat"])
            names = {c.name.rsplit("::", 1)[-1] for c in calls_in_lines(g, a["span"])}
            can_null = bool(names & {"append_null", "append_option", "new_null_array", "append_nulls"})
            key = f"{name}:{'|'.join(sorted(funcs))}/{'|'.join(dt) or '_'}"
            if funcs & NULLABLE:
                R.check(can_null, "C21.R1", key, f"{sorted(funcs)} over {dt or 'any type'} can never produce NULL: a group whose inputs are all NULL gets a fabricated value", f"{g.file}:{a['span'][0]}", dict(calls=sorted(names & {"append_null", "append_value", "append_option"})))
            elif funcs & COUNTS and funcs <= COUNTS:
                R.check(not can_null, "C21.R1", key, f"{sorted(funcs)} can produce NULL: COUNT over no rows must be 0", f"{g.file}:{a['span'][0]}", dict(), nontrivial=False)
        # emissions outside the table
        tspan = m["span"]
        outside = [c for c in g.calls() if c.name.rsplit("::", 1)[-1] == "append_value" and not span_contains(tspan, c.span)]
        outside_null = [c for c in g.calls() if c.name.rsplit("::", 1)[-1] in ("append_null", "append_option") and not span_contains(tspan, c.span)]
        if outside:
            R.check(bool(outside_null), "C21.R1", f"{name}:pre-table-emission", f"an aggregate (SUM(DISTINCT) special case) is emitted with append_value only, outside the dispatch table: an all-NULL group yields 0 instead of NULL", g.loc(outside[0].bb), dict(value_emissions=len(outside)))
    # morsel finalize
    fz = F.one("AccumulatorState::finalize", file="src/physical/morsel_agg.rs")
    ms = [m for m in fz.raw["matches"] if m["kind"] == "match" and m["scrut"].endswith("AccumulatorState") and len(m["arms"]) >= 5]
    if len(ms) != 1:
        raise Broken(f"morsel AccumulatorState::finalize: {len(ms)} tables")
    nfin += 1
    for a in ms[0]["arms"]:
        head = pat_head(pat_alternatives(a["pat"])[0]).rsplit("::", 1)[-1]
        nulls = [1 for i, j, dst, rv, line in fz.stmts() if a["span"][0] <= line <= a["span"][2] and rv[0] == "agg" and rv[1].endswith("ScalarValue::Null")]
        nulls += [1 for c in calls_in_lines(fz, a["span"]) if c.name.rsplit("::", 1)[-1] in ("unwrap_or", "unwrap_or_else", "unwrap_or_default")]
        if head in ("Sum", "SumInt", "Avg", "Min", "Max"):
            R.check(bool(nulls) or "Null" in a["cls"], "C21.R1", f"morsel.finalize:{head}", f"morsel {head} state can never finalise to NULL", f"{fz.file}:{a['span'][0]}", dict())
        elif head in ("Count",):
            R.check(not nulls and "Null" not in a["cls"], "C21.R1", f"morsel.finalize:{head}", "morsel COUNT can finalise to NULL", f"{fz.file}:{a['span'][0]}", dict(), nontrivial=False)
    R.floor("C21.R1", "finaliser tables examined", nfin, 3)
    # ---- R3
    eg = F.fn(HA + "::extract_group_value")
    isn = [c for c in eg.calls() if c.name.rsplit("::", 1)[-1] == "is_null"]
    dcs = [c for c in eg.calls() if c.name.rsplit("::", 1)[-1] == "downcast_ref"]
    ok3 = False
    if isn:
        for sb in range(eg.n):
            si = eg.switch_info(sb)
            if si and si[0] == "bool" and si[1] and origin(eg, "c:" + si[1]) == ("call", isn[0]):
                t = si[2][True]
                vals = [rv for i, j, dst, rv, line in eg.stmts() if dst == "0" and i in eg.reachable(t, avoid=frozenset([sb])) and not any(eg.path_exists(d.bb, i) for d in dcs if d.bb in eg.reachable(t, avoid=frozenset([sb])))]
                ok3 = bool(vals) and all(rv[0] == "agg" and rv[1].endswith("GroupValue::Null") for rv in vals[:1]) and all(eg.dominates(sb, d.bb) for d in dcs)
    R.check(ok3, "C21.R3", "extract_group_value:null-key-first", "a NULL grouping key is not mapped to GroupValue::Null before the type dispatch (NULL keys would be split by the garbage value under the null slot)", eg.loc(), dict(downcasts=len(dcs)))
    import c07b
    from report import Report
    R2 = Report("C07", F)
    c07b.run(F, R2)
    R.rule("C21.R5", "= C07.R6", "no Option-ordered MIN merge")
    for it in R2.items:
        if it["rule"] == "C07.R6":
            key = it["key"].split(":", 1)[1]
            (R.ok("C21.R5", key, it["detail"], it["loc"]) if it["status"] == "pass" else R.bad("C21.R5", key, it["what"], it["loc"], it["detail"]))
