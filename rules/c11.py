"""C11 Split enumeration covers every row exactly once, canonically — structural clauses."""
from qe import *
import k9
import detk

CLAIMS = ("R1 SplitSet::digest and Split::canonical_key never read Split.path; digest reads SplitSet.table and every other field of Split (computed from the type, so a new field that is not fed is reported); "
          "R2 enumerate_parquet sorts the files by file_key before reading footers and sorts the splits by canonical_key after the last push, and returns that vector; "
          "R3 enumerate_parquet, target_split_bytes, digest have no nondeterminism source in their in-crate closure (metadata-cache reads excepted); "
          "R4 a function that maps a set of paths to canonical file keys must compare/deduplicate those keys (two files with one name cannot otherwise be told apart); "
          "R6 the row-group number of a split is the row group's position in the footer (enumerate over the unfiltered row_groups()), with rows/bytes of that same row group; "
          "R5 per row group the running row offset starts at 0 and is advanced by exactly the rows of the split just pushed, on every iteration that pushes; the last piece takes the bytes left and every piece's bytes are subtracted from the remainder; every inventoried row group adds its bytes and rows to the table totals.")
NOT_DECIDED = "the arithmetic identities themselves (sums, exact coverage) for run-time quantities; truthfulness of footers."

S = "distributed::splits"
SPLIT = S + "::Split"


def run(F, R):
    R.rule("C11.R1", "K1/K6 field-set agreement", "digest reads table + all Split fields except path/table; canonical_key reads (table,file,row_group,row_offset); neither reads path")
    R.rule("C11.R2", "K3/K9", "files sorted by file_key before the footer loop; splits sorted by canonical_key ascending after every push; the sorted vector is returned")
    R.rule("C11.R3", "K-DET", "no clock/env/RNG/hash-iteration in the closure of enumerate_parquet/target_split_bytes/digest")
    R.rule("C11.R4", "K2", "file_key values must flow into an equality test / set insert / dedup in enumerate_parquet")
    R.rule("C11.R5", "K3", "offset advance paired with push; last piece takes bytes_left; totals updated for every inventoried row group")
    adt = F.adt(SPLIT)
    fields = [f[0] for f in adt["variants"][0]["fields"]]
    dg = F.family(S + "::SplitSet::digest")
    read = set()
    for g in dg:
        for bb, acc, fld, a, line in g.field_accesses():
            if a == SPLIT:
                read.add(fld)
    want = set(fields) - {"path", "table"}
    R.check("path" not in read, "C11.R1", "digest:no-path", "digest reads the mount path", dg[0].loc(), dict(fields_read=sorted(read)))
    R.check(want <= read, "C11.R1", "digest:all-canonical-fields", f"digest does not feed Split fields {sorted(want - read)}", dg[0].loc(), dict(fields_of_Split=fields, fields_read=sorted(read)))
    tbl = any((fld, a) == ("table", S + "::SplitSet") for g in dg for bb, acc, fld, a, line in g.field_accesses())
    R.check(tbl, "C11.R1", "digest:table", "digest does not feed the table name", dg[0].loc(), nontrivial=False)
    # every feed call receives bytes derived from exactly one field: count feed calls >= len(want)+1
    ck = F.fn(SPLIT + "::canonical_key")
    ke = k9.kexpr(ck, "c:0")
    R.check(ke == "(⟨1⟩.table,⟨1⟩.file,⟨1⟩.row_group,⟨1⟩.row_offset)", "C11.R1", "canonical_key-shape", f"canonical_key is {ke}", ck.loc(), dict(evaluated=ke))

    f = F.fn(S + "::enumerate_parquet")
    # ---- R2
    sorts = [c for c in f.calls() if c.name.rsplit("::", 1)[-1] in ("sort_by", "sort_by_key", "sort_unstable_by", "sort_unstable_by_key", "sort", "sort_unstable")]
    md = [c for c in f.calls() if c.name == "storage::metadata_cache::cached_metadata"]
    R.floor("C11.R2", "footer reads in enumerate_parquet", len(md), 1)
    file_sorted = False
    split_sorted = None
    for s in sorts:
        try:
            keys = k9.sort_call_keys(F, f, s) if len(s.args) > 1 else [("•", "asc")]
        except k9.Undecided as e:
            R.undecided("C11.R2", f"sort@{s.line}", str(e), f.loc(s.bb)); continue
        if keys == [(S + "::file_key(•)", "asc")] and all(f.dominates(s.bb, m.bb) for m in md):
            # the loop iterates the sorted vector
            it = [c for c in f.calls() if c.name.endswith("::next") and f.dominates(c.bb, md[0].bb)]
            sv = k9.kexpr(f, s.args[0])
            if any(k9.kexpr(f, c.args[0]).find(sv.split("(")[-1].rstrip(")")) >= 0 for c in it):
                file_sorted = True
        if keys == [(SPLIT + "::canonical_key(•)", "asc")]:
            split_sorted = s
    R.check(file_sorted, "C11.R2", "files-sorted-by-file_key", "footers are not read in file_key order of the input", f.loc(), dict(sorts=[(c.line, c.name.rsplit('::', 1)[-1]) for c in sorts]))
    lits = [(i, rv) for i, j, dst, rv, line in f.stmts() if rv[0] == "agg" and rv[1] == "adt:" + SPLIT]
    pushes = []
    for c in f.calls():
        if c.name.endswith("Vec::<T, A>::push"):
            o = origin(f, c.args[1])
            if o[0] == "rv" and o[1][0] == "agg" and o[1][1] == "adt:" + SPLIT:
                pushes.append(c)
    R.floor("C11.R2", "Split pushes", len(pushes), 1)
    if split_sorted is None:
        R.bad("C11.R2", "splits-sorted-canonically", "no sort of the splits by canonical_key", f.loc())
    else:
        s = split_sorted
        after = all(f.path_exists(p.bb, s.bb) and not f.path_exists(s.bb, p.bb) for p in pushes)
        vec_push = {k9.kexpr(f, p.args[0]) for p in pushes}
        same_vec = k9.kexpr(f, s.args[0]) in vec_push or len(vec_push) == 1
        ret = [(i, rv) for i, j, dst, rv, line in f.stmts() if rv[0] == "agg" and rv[1] == "adt:" + S + "::SplitSet"]
        dom = all(f.dominates(s.bb, i) for i, rv in ret) and bool(ret)
        retvec = all(origin(f, dict(zip(rv[3], rv[2]))["splits"])[0] in ("call", "named", "multi") for i, rv in ret)
        R.check(after and same_vec and dom and retvec, "C11.R2", "splits-sorted-canonically", "the returned splits are not sorted by canonical_key after the last push", f.loc(s.bb), dict(after_all_pushes=after, dominates_return=dom))

    # ---- R3
    nd = detk.nondet_sites(F, [S + "::enumerate_parquet", S + "::target_split_bytes", S + "::SplitSet::digest"], allow=("storage::metadata_cache",))
    R.check(not nd, "C11.R3", "enumeration-deterministic", f"nondeterminism: {[(str(c), k) for c, k in nd][:4]}", f.loc(), dict(functions=len(F.closure_of([S + '::enumerate_parquet']))))

    st = F.statics_of([S + "::enumerate_parquet", S + "::target_split_bytes", S + "::SplitSet::digest"])
    foreign = {k: v for k, v in st.items() if not k.startswith("storage::metadata_cache::") and "__CALLSITE" not in k and "::META" not in k}
    R.check(not foreign, "C11.R3", "enumeration-stateless", f"enumeration/digest depends on process-global state {sorted(foreign)} (only the validated footer cache is allowed)", f.loc(), dict(statics=sorted(st)))
    # every Ok(..) the function returns carries the SplitSet literal built (after the sort) in this very call
    okrets = [(i, rv) for i, j, dst, rv, line in f.stmts() if dst == "0" and rv[0] == "agg" and rv[1] == "adt:std::result::Result::Ok"]
    R.floor("C11.R2", "Ok(..) returns of enumerate_parquet", len(okrets), 1)
    for i, rv in okrets:
        o = origin(f, rv[2][0])
        fresh = o[0] == "rv" and o[1][0] == "agg" and o[1][1] == "adt:" + S + "::SplitSet"
        if not fresh:
            # let set = SplitSet{..}; ...; Ok(set)
            w = derives_from(f, [rv[2][0]], lambda k, x: None)
            ds = f.defs().get(place_local(op_place(rv[2][0])), []) if op_place(rv[2][0]) else []
            fresh = len(ds) == 1 and ds[0][1] == "stmt" and ds[0][2][1][0] == "agg" and ds[0][2][1][1] == "adt:" + S + "::SplitSet"
        R.check(fresh, "C11.R2", f"return#{okrets.index((i, rv))}:computed-in-this-call", "enumerate_parquet can return a split set that was not computed from the footers in this call", f.loc(i), dict(origin=o[0]))

    # ---- R4
    fk = [c for c in F.fam_calls(f.path) if c.name == S + "::file_key"]
    R.floor("C11.R4", "file_key calls in enumerate_parquet", len(fk), 1)
    compared = False
    for g in F.family(f.path):
        for c in g.calls():
            last = c.name.rsplit("::", 1)[-1]
            if last in ("dedup", "dedup_by", "dedup_by_key", "insert", "contains", "eq", "ne", "windows", "binary_search", "entry", "contains_key") and c.fn.path == f.path:
                if any(derives_from(g, [a], lambda k, x: x if (k == "call" and x.name == S + "::file_key") else None) for a in c.args):
                    compared = True
    R.check(compared, "C11.R4", "enumerate_parquet:duplicate-file-names", "two input files with the same file name get identical canonical keys and are never compared: order (and so the path->split mapping) then depends on input order", f.loc(), dict(file_key_calls=len(fk)))

    # ---- R5
    for bb, rv in lits:
        m = dict(zip(rv[3], rv[2]))
        off = origin(f, m["row_offset"])
        nrows = origin(f, m["num_rows"])
        byt = origin(f, m["bytes"])
        push = [p for p in pushes if origin(f, p.args[1]) == ("rv", rv, bb)]
        if off[0] != "multi" or not push:
            R.undecided("C11.R5", "offset-shape", f"row_offset operand is {off[0]}", f.loc(bb)); continue
        push = push[0]
        L = off[1]
        ds = f.defs()[L]
        init = [d for d in ds if d[1] == "stmt" and isinstance(d[2][1][1], dict)]
        adv = [d for d in ds if d not in init]
        ok_init = len(init) == 1 and op_const(init[0][2][1][1]) == 0
        # inner loop header = nearest Range::next call dominating the push
        nx = [c for c in f.calls() if c.name.endswith("::next") and c.self_ty.startswith("std::ops::Range<") and f.dominates(c.bb, push.bb)]
        if not nx:
            R.undecided("C11.R5", "piece-loop", "piece loop not found", f.loc(bb)); continue
        hdr = max(nx, key=lambda c: len([1 for d in nx if f.dominates(d.bb, c.bb)]))
        if init:
            ib = init[0][0]
            inner_cycle_skips_init = any(hdr.bb in f.reachable(sx, avoid=frozenset([ib])) for sx in f.succ(hdr.bb))
            in_outer_loop = any(ib in f.reachable(sx) for sx in f.succ(ib))
            ok_init = ok_init and f.dominates(ib, hdr.bb) and inner_cycle_skips_init and in_outer_loop
        else:
            ok_init = False
        R.check(ok_init, "C11.R5", "offset-starts-at-0-per-row-group", "row offset is not reset to 0 before each row group's piece loop", f.loc(init[0][0]) if init else f.loc(), dict(inits=len(init)))
        ok_adv = False
        if len(adv) == 1 and adv[0][1] == "stmt":
            abb = adv[0][0]
            o = origin(f, adv[0][2][1][1]) if adv[0][2][1][0] == "use" else ("?",)
            if o[0] == "rv" and o[1][0] == "bin" and o[1][1].startswith("Add"):
                a, b = origin(f, o[1][2]), origin(f, o[1][3])
                uses_n = (a == off and same_origin(f, o[1][3], m["num_rows"])) or (b == off and same_origin(f, o[1][2], m["num_rows"]))
                paired = f.dominates(push.bb, abb) and not (hdr.bb in f.reachable(push.bb, avoid=frozenset([abb])))
                ok_adv = uses_n and paired
        R.check(ok_adv, "C11.R5", "offset-advanced-by-pushed-rows", "row offset is not advanced by exactly num_rows of the split just pushed on every pushing iteration", f.loc(push.bb), dict(advances=len(adv)))
        # bytes: last piece takes bytes_left; bytes_left -= bytes before the push
        okb = False
        if byt[0] == "multi":
            bds = f.defs()[byt[1]]
            for d in bds:
                if d[1] == "stmt" and d[2][1][0] == "use":
                    src = origin(f, d[2][1][1])
                    if src[0] == "multi":  # bytes_left
                        left = src[1]
                        gpush = set(ctrl(f, push.bb))
                        gs = [g for g in ctrl(f, d[0]) if g not in gpush]
                        last_guard = len(gs) == 1 and _is_last_piece(f, gs[0][0], gs[0][1])
                        sub = [c for c in f.calls() if c.name.endswith("saturating_sub") or c.name.endswith("wrapping_sub") or c.name.endswith("checked_sub")]
                        subok = any(origin(f, c.args[0]) == ("multi", left) and origin(f, c.args[1]) == byt and f.dominates(c.bb, push.bb) and any(dd[1] == "stmt" and origin(f, dd[2][1][1]) == ("call", c) for dd in f.defs()[left] if dd[1] == "stmt" and dd[2][1][0] == "use") for c in sub)
                        okb = last_guard and subok
        R.check(okb, "C11.R5", "last-piece-takes-bytes-left", "the last piece of a row group does not take the remaining bytes, or a piece's bytes are not subtracted from the remainder (pieces would not sum to the row group)", f.loc(bb), dict(bytes_operand=byt[0]))
    # ---- R6 the row-group number recorded for a split is the row group's position in the footer
    R.rule("C11.R6", "K5 provenance", "RowGroup.index is the enumerate() position over the unfiltered footer row_groups() (no filter/skip adaptor before enumerate), rows/bytes come from the same item, and Split.{row_group,path,file} are copied from that inventory entry")
    rgl = [(i, rv) for i, j, dst, rv, line in f.stmts() if rv[0] == "agg" and rv[1] == "adt:" + S + "::enumerate_parquet::RowGroup"]
    R.floor("C11.R6", "inventory literals", len(rgl), 1)
    for i, rv in rgl:
        m = dict(zip(rv[3], rv[2]))
        ie, re_, be = k9.kexpr(f, m["index"]), k9.kexpr(f, m["rows"]), k9.kexpr(f, m["bytes"])
        base = ie[:-2] if ie.endswith("@Some.0.0") else None
        okpos = base is not None and (base.startswith("next(into_iter(enumerate(iter(row_groups(") or base.startswith("next(enumerate(iter(row_groups(")) 
        oksame = base is not None and re_ == f"num_rows({base}.1)" and f"total_byte_size({base}.1)" in be
        R.check(okpos, "C11.R6", "inventory:index-is-footer-position", f"the recorded row-group number is not the position in the footer's row_groups(): {ie[:120]}", f.loc(i), dict(index=ie[:200]))
        R.check(oksame, "C11.R6", "inventory:rows-bytes-of-same-row-group", "rows/bytes are not taken from the enumerated row group itself", f.loc(i), dict(rows=re_[:120]))
    for bb, rv in lits:
        m = dict(zip(rv[3], rv[2]))
        e = {k: k9.kexpr(f, m[k]) for k in ("row_group", "path", "file")}
        base = e["row_group"][:-len(".index")] if e["row_group"].endswith(".index") else None
        ok = base is not None and e["path"] in (f"{base}.path", base + ".path") and e["file"] == f"{base}.file"
        R.check(ok, "C11.R6", "split:identity-from-one-inventory-entry", f"Split.row_group/path/file are not copied from one inventory entry: {e}", f.loc(bb), dict(exprs={k: v[-60:] for k, v in e.items()}))

    # pass 1: totals
    inv = [c for c in f.calls() if c.name.endswith("Vec::<T, A>::push") and c not in pushes and origin(f, c.args[1])[0] == "rv" and origin(f, c.args[1])[1][1].startswith("adt:" + S + "::enumerate_parquet::RowGroup")]
    R.floor("C11.R5", "inventory pushes", len(inv), 1)
    for p in inv:
        rgl = origin(f, p.args[1])[1]
        m = dict(zip(rgl[3], rgl[2]))
        for total, fld in (("total_bytes", "bytes"), ("total_rows", "rows")):
            L = f.locals_named(total)
            ok = False
            for l in L:
                for d in f.defs().get(l, []):
                    if d[1] == "stmt" and d[2][1][0] == "use":
                        o = origin(f, d[2][1][1])
                        if o[0] == "rv" and o[1][0] == "bin" and o[1][1].startswith("Add") and (same_origin(f, o[1][3], m[fld]) or same_origin(f, o[1][2], m[fld])):
                            if f.dominates(d[0], p.bb) or f.dominates(p.bb, d[0]):
                                # same control region: neither can happen without the other before the next iteration
                                ok = True
            R.check(ok, "C11.R5", f"inventory:{total}", f"{total} is not increased by the {fld} of every inventoried row group", f.loc(p.bb), nontrivial=True)


def ctrl(f, b):
    from c15 import controlling_switches
    return controlling_switches(f, b)


def _is_last_piece(f, sb, val):
    si = f.switch_info(sb)
    if si[0] != "bool" or si[1] is None:
        return False
    e = k9.kexpr(f, "c:" + si[1])
    # Eq(AddWithOverflow(piece,#1), pieces)
    return e.startswith("Eq(Add") and ",#1)" in e and val is True
