"""C42 CPU lists parse to the set they denote — structural clauses."""
import itertools
import re
from qe import *
import k9

CLAIMS = ("R1 in parse_cpulist sort_unstable and dedup are applied to the output vector after every push and before the return; "
          "R2 parse failures are ignored by matching on Ok (never unwrap/expect), and every pushed value derives from a parsed number: the a..=b range arm pushes the range's items, the singleton arm pushes the number; "
          "R3 workers_for, evaluated over all orderings of (work, max, 1), returns a value <= max(max,1), <= max(work,1) and >= 1.")
NOT_DECIDED = "that the parsed set equals the denoted set for all strings (string-level semantics of split/trim/parse are trusted); resource use on absurd ranges."

T = "execution::topology"


def run(F, R):
    R.rule("C42.R1", "K3 ordering", "push* ; sort_unstable ; dedup ; return on every path")
    R.rule("C42.R2", "K-ERR (inverted) + provenance", "parse::<usize> results are matched, never unwrapped; pushed values derive from them")
    R.rule("C42.R3", "K8 order-domain evaluation", "workers_for over {0..3}x{0..3}: 1 <= r <= max(max,1) and r <= max(work,1)")
    f = F.fn(T + "::parse_cpulist")
    WRITERS = ("push", "extend", "extend_from_slice", "append", "insert", "extend_from_within", "resize")
    # the output vector = what is returned
    outv = origin(f, "c:0")
    def on_out(c):
        if not c.args:
            return False
        o = origin(f, c.args[0])
        return o == outv or (o[0] == outv[0] == "call" and o[1] is outv[1])
    pushes = [c for c in f.calls() if c.name.rsplit("::", 1)[-1] in WRITERS and "Vec" in (c.self_ty or "") and on_out(c)]
    sorts = [c for c in f.calls() if c.name.rsplit("::", 1)[-1] in ("sort_unstable", "sort") and _recv_is(f, c, outv)]
    dedups = [c for c in f.calls() if c.name.rsplit("::", 1)[-1] == "dedup" and _recv_is(f, c, outv)]
    R.floor("C42.R1", "writes into the output vector of parse_cpulist", len(pushes), 1)
    rets = f.return_blocks()
    ok = bool(sorts) and bool(dedups) and bool(pushes)
    why = "no sort/dedup of the returned vector"
    if ok:
        # some dedup dominates every return, a sort dominates that dedup, and no write can follow the sort
        d = [x for x in dedups if all(f.dominates(x.bb, r) for r in rets)]
        s_ = [x for x in sorts if d and f.dominates(x.bb, d[0].bb)]
        late = [p_ for p_ in pushes if s_ and f.path_exists(s_[0].bb, p_.bb)]
        ok = bool(d) and bool(s_) and not late
        why = ("the de-duplication does not run on every path to the return (it is conditional)" if not d else
               "the sort does not precede the de-duplication on every path" if not s_ else "elements are added after the sort")
    R.check(ok, "C42.R1", "parse_cpulist:sorted-deduped", f"the result is not sorted and de-duplicated on every path: {why} - a list with a repeated or overlapping part then yields the CPU twice", f.loc(), dict(writes=len(pushes), sorts=len(sorts), dedups=len(dedups)))
    # returned vector is the pushed one
    parses = [c for c in f.calls() if c.name.rsplit("::", 1)[-1] == "parse"]
    R.floor("C42.R2", "parse calls", len(parses), 3)
    for n, c in enumerate(sorted(parses, key=lambda c: (c.line, c.bb))):
        tags = result_consumers(f, c)
        bad = [t for t in tags if t in ("method:unwrap", "method:expect", "method:unwrap_or", "method:unwrap_or_default", "method:unwrap_or_else")]
        R.check(not bad and ("match" in tags), "C42.R2", f"parse#{n}:matched-not-unwrapped", f"a parse failure is not ignored by matching ({sorted(tags)})", f.loc(c.bb), dict(consumers=sorted(tags)))
    for n, p in enumerate(sorted(pushes, key=lambda c: (c.line, c.bb))):
        if len(p.args) < 2:
            continue
        w = derives_from(f, [p.args[1]], lambda k, x: x if (k == "call" and x.name.rsplit("::", 1)[-1] == "parse") else None)
        R.check(bool(w), "C42.R2", f"push#{n}:from-parsed-number", "a pushed CPU id does not derive from a parsed number", f.loc(p.bb), dict())
    # the range arm iterates RangeInclusive::new(a, b) with both bounds parsed
    ri = [c for c in f.calls() if c.name.endswith("RangeInclusive::<Idx>::new")]
    okr = bool(ri) and all(all(derives_from(f, [a], lambda k, x: x if (k == "call" and x.name.rsplit("::", 1)[-1] == "parse") else None) for a in c.args) for c in ri)
    distinct = bool(ri) and k9.kexpr(f, ri[0].args[0]) != k9.kexpr(f, ri[0].args[1])
    R.check(okr and distinct, "C42.R2", "range-arm:a..=b", "the range arm does not iterate a..=b over the two parsed bounds", f.loc(ri[0].bb) if ri else f.loc(), dict(n=len(ri)))

    # ---- R3
    w = F.fn(T + "::workers_for")
    e = k9.kexpr(w, "c:0")
    try:
        viol = []
        for work, mx in itertools.product(range(0, 4), range(0, 4)):
            r = _eval(e, {1: work, 2: mx})
            if not (1 <= r <= max(mx, 1) and r <= max(work, 1)):
                viol.append((work, mx, r))
        R.check(not viol, "C42.R3", "workers_for:bounds", f"workers_for violates its bounds at (work,max,result) = {viol[:4]}", w.loc(), dict(expression=e, points_evaluated=16))
    except ValueError as ex:
        # outside the comparison-only fragment (arithmetic on the inputs): the finite-orderings argument does not apply.
        # Fall back to "bounded by construction": every returned value is the result of min/clamp with the pool bound, or is
        # returned under a dominating `work <= max` guard.  Anything else is reported as undecidable, not as a violation.
        import guards
        bounded = True
        for i, j, dst, rv, line in w.stmts():
            if dst != "0":
                continue
            o = origin(w, rv[1]) if rv[0] == "use" else ("rv", rv)
            byc = o[0] == "call" and o[1].name.rsplit("::", 1)[-1] in ("min", "clamp")
            gs = guards.guards_of(w, i, require_err=False)
            byg = any(cd.startswith(("Le(", "Lt(")) and v is True for sb, cd, v in gs)
            if not (byc or byg):
                bounded = False
        for c in w.calls():
            if c.dest == "0" and c.name.rsplit("::", 1)[-1] not in ("min", "clamp"):
                gs = guards.guards_of(w, c.bb, require_err=False)
                if not any(cd.startswith(("Le(", "Lt(")) and v is True for sb, cd, v in gs):
                    bounded = False
        if bounded:
            R.ok("C42.R3", "workers_for:bounds", dict(expression=e, method="bounded by construction (min/clamp or a dominating <= guard on every return)"), w.loc())
        else:
            R.undecided("C42.R3", "workers_for:bounds", f"workers_for is no longer built from comparisons only ({ex}) and its result is not bounded by construction: the bound r <= max(max,1) cannot be decided statically", w.loc())


def _recv_is(f, c, outv):
    if not c.args:
        return False
    o = origin(f, c.args[0])
    n_ = 0
    while o[0] == "call" and o[1].name.rsplit("::", 1)[-1] in ("deref_mut", "deref", "as_mut_slice", "as_mut") and n_ < 3:
        o = origin(f, o[1].args[0])
        n_ += 1
    return o == outv or (o[0] == outv[0] == "call" and o[1] is outv[1])


def _eval(e, env):
    e = e.strip()
    m = re.fullmatch(r"⟨(\d+)⟩", e)
    if m:
        return env[int(m.group(1))]
    m = re.fullmatch(r"#(-?\d+)", e)
    if m:
        return int(m.group(1))
    m = re.fullmatch(r"([A-Za-z_:<> ]+)\((.*)\)", e)
    if not m:
        raise ValueError(e)
    fn, args = m.group(1).rsplit("::", 1)[-1], [_eval(a, env) for a in k9._split_top(m.group(2))]
    if fn == "clamp":
        if args[1] > args[2]:
            raise ValueError("clamp min > max")
        return min(max(args[0], args[1]), args[2])
    if fn == "max":
        return max(args)
    if fn == "min":
        return min(args)
    raise ValueError(fn)
