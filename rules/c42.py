"""C42 CPU lists parse to the set they denote — structural clauses."""
import itertools
import re
from qe import *
import k9

CLAIMS = ("R1 in parse_cpulist sort_unstable and dedup are applied to the output vector after every push and before the return; "
          "R2 parse failures are ignored by matching on Ok (never unwrap/expect), and every pushed value derives from a parsed number: the a..=b range arm pushes the range's items, the singleton arm pushes the number; "
          "R3 workers_for, evaluated over all orderings of (work, max, 1), returns a value <= max(max,1), <= max(work,1) and >= 1.")
NOT_DECIDED = "that the parsed set equals the denoted set for all strings (string-level semantics of split/trim/parse are trusted); resource use on absurd ranges."

T = "execution::topology"


def run(F, R):
    R.rule("C42.R1", "K3 ordering", "push* ; sort_unstable ; dedup ; return on every path")
    R.rule("C42.R2", "K-ERR (inverted) + provenance", "parse::<usize> results are matched, never unwrapped; pushed values derive from them")
    R.rule("C42.R3", "K8 order-domain evaluation", "workers_for over {0..3}x{0..3}: 1 <= r <= max(max,1) and r <= max(work,1)")
    f = F.fn(T + "::parse_cpulist")
    pushes = [c for c in f.calls() if c.name.endswith("Vec::<T, A>::push")]
    sorts = [c for c in f.calls() if c.name.rsplit("::", 1)[-1] in ("sort_unstable", "sort")]
    dedups = [c for c in f.calls() if c.name.rsplit("::", 1)[-1] == "dedup"]
    R.floor("C42.R1", "push sites in parse_cpulist", len(pushes), 2)
    rets = f.return_blocks()
    ok = bool(sorts) and bool(dedups)
    if ok:
        s, d = sorts[0], dedups[0]
        vec = k9.kexpr(f, pushes[0].args[0])
        same = all(k9.kexpr(f, p.args[0]) == vec for p in pushes) and vec in k9.kexpr(f, s.args[0]) and vec in k9.kexpr(f, d.args[0])
        order = all(f.postdominates(s.bb, p.bb) and not f.path_exists(s.bb, p.bb) for p in pushes) and f.dominates(s.bb, d.bb) and all(f.dominates(d.bb, r) for r in rets)
        retv = k9.kexpr(f, "c:0") if False else None
        ok = same and order
    R.check(ok, "C42.R1", "parse_cpulist:sorted-deduped", "the result is not sorted and de-duplicated after the last push on every path", f.loc(), dict(pushes=len(pushes), sorts=len(sorts), dedups=len(dedups)))
    # returned vector is the pushed one
    parses = [c for c in f.calls() if c.name.rsplit("::", 1)[-1] == "parse"]
    R.floor("C42.R2", "parse calls", len(parses), 3)
    for n, c in enumerate(sorted(parses, key=lambda c: (c.line, c.bb))):
        tags = result_consumers(f, c)
        bad = [t for t in tags if t in ("method:unwrap", "method:expect", "method:unwrap_or", "method:unwrap_or_default", "method:unwrap_or_else")]
        R.check(not bad and ("match" in tags), "C42.R2", f"parse#{n}:matched-not-unwrapped", f"a parse failure is not ignored by matching ({sorted(tags)})", f.loc(c.bb), dict(consumers=sorted(tags)))
    for n, p in enumerate(sorted(pushes, key=lambda c: (c.line, c.bb))):
        w = derives_from(f, [p.args[1]], lambda k, x: x if (k == "call" and x.name.rsplit("::", 1)[-1] == "parse") else None)
        R.check(bool(w), "C42.R2", f"push#{n}:from-parsed-number", "a pushed CPU id does not derive from a parsed number", f.loc(p.bb), dict())
    # the range arm iterates RangeInclusive::new(a, b) with both bounds parsed
    ri = [c for c in f.calls() if c.name.endswith("RangeInclusive::<Idx>::new")]
    okr = bool(ri) and all(all(derives_from(f, [a], lambda k, x: x if (k == "call" and x.name.rsplit("::", 1)[-1] == "parse") else None) for a in c.args) for c in ri)
    distinct = bool(ri) and k9.kexpr(f, ri[0].args[0]) != k9.kexpr(f, ri[0].args[1])
    R.check(okr and distinct, "C42.R2", "range-arm:a..=b", "the range arm does not iterate a..=b over the two parsed bounds", f.loc(ri[0].bb) if ri else f.loc(), dict(n=len(ri)))

    # ---- R3
    w = F.fn(T + "::workers_for")
    e = k9.kexpr(w, "c:0")
    try:
        viol = []
        for work, mx in itertools.product(range(0, 4), range(0, 4)):
            r = _eval(e, {1: work, 2: mx})
            if not (1 <= r <= max(mx, 1) and r <= max(work, 1)):
                viol.append((work, mx, r))
        R.check(not viol, "C42.R3", "workers_for:bounds", f"workers_for violates its bounds at (work,max,result) = {viol[:4]}", w.loc(), dict(expression=e, points_evaluated=16))
    except ValueError as ex:
        R.undecided("C42.R3", "workers_for:bounds", f"cannot evaluate {e}: {ex}", w.loc())


def _eval(e, env):
    e = e.strip()
    m = re.fullmatch(r"⟨(\d+)⟩", e)
    if m:
        return env[int(m.group(1))]
    m = re.fullmatch(r"#(-?\d+)", e)
    if m:
        return int(m.group(1))
    m = re.fullmatch(r"([A-Za-z_:<> ]+)\((.*)\)", e)
    if not m:
        raise ValueError(e)
    fn, args = m.group(1).rsplit("::", 1)[-1], [_eval(a, env) for a in k9._split_top(m.group(2))]
    if fn == "clamp":
        if args[1] > args[2]:
            raise ValueError("clamp min > max")
        return min(max(args[0], args[1]), args[2])
    if fn == "max":
        return max(args)
    if fn == "min":
        return min(args)
    raise ValueError(fn)
