"""K-ERR: audit how Results of the repository's fallible layer are consumed inside given functions."""
import re
from qe import *

CORE_ERR = ("error::QueryError", "std::io::Error", "arrow::error::ArrowError", "arrow_schema::ArrowError", "parquet::errors::ParquetError")


def result_err_type(ty):
    """error type of a `Result<T, E>` (also inside Future Output=...) or None"""
    if ty.startswith("std::result::Result<"):
        i = 0
    elif ty.startswith("std::option::Option<std::result::Result<"):
        i = len("std::option::Option<")
    else:
        i = ty.find("Output = std::result::Result<")
        if i < 0:
            return None
        i += len("Output = ")
    # take the last top-level generic argument of that Result<...>
    j = i + len("std::result::Result<")
    depth, start, args = 1, j, []
    k = j
    while k < len(ty) and depth > 0:
        ch = ty[k]
        if ch in "<([":
            depth += 1
        elif ch in ">)]":
            depth -= 1
            if depth == 0:
                args.append(ty[start:k])
        elif ch == "," and depth == 1:
            args.append(ty[start:k])
            start = k + 1
        k += 1
    if depth != 0:
        # truncated type string: fall back to a textual probe
        for e in CORE_ERR:
            if e in ty[i:]:
                return e
        return "?"
    return args[-1].strip() if len(args) >= 2 else None


def audit(F, fn, err_types=CORE_ERR, skip=lambda c: False):
    """[(call, tags, ok)] for every call in fn whose value is a Result (or a future of one) with a core error type"""
    out = []
    for c in fn.calls():
        ty = fn.local_ty(place_local(c.dest)) if "|" not in c.dest else ""
        if c.dest == "0":
            ty = ""  # tail call result returned directly
            continue
        et = result_err_type(ty)
        if et is None or not any(e in et for e in err_types):
            continue
        last = c.name.rsplit("::", 1)[-1]
        # adaptors on an existing Result are not producers
        if last in ("map_err", "map", "and_then", "or_else", "branch", "from_residual", "into_future", "poll", "ok_or_else", "ok_or", "clone", "transpose", "collect", "unwrap_or_else", "new_unchecked", "join", "join_all", "inspect_err", "unwrap", "expect"):
            if last == "collect":
                pass  # collect::<Result<..>>() IS a producer of a Result
            else:
                continue
        if skip(c) or last in ("remove_file", "remove_dir_all", "remove_dir"):
            continue  # best-effort cleanup of temporary files carries no data
        tags = result_consumers(fn, c)
        if ty.startswith("std::option::Option<std::result::Result<"):
            # an iterator item: the Some/None test is not an inspection of the Result
            tags = {t for t in tags if t != "match"}
            out.append((c, tags, ("try" in tags or "returned" in tags) and propagates(tags | {"try"} if "try" in tags else tags)))
            continue
        out.append((c, tags, propagates(tags)))
    return out
