"""C35 The SQL front door decides and encodes consistently — structural clauses."""
from qe import *
import k9
import guards
import kerr

CLAIMS = ("R1 inside execute_statement's worker the local engine (ExecutionContext::sql) is reachable only on the `!distribute` edge and never after the distributed call: an execution failure of the distributed path is propagated, not answered locally; "
          "R2 /sql, /fragment and the Flight service reach the engine only past state.context() being Some (not-ready nodes refuse); "
          "R3 in Auto mode `distribute` is true only under members.len() >= 2 and plan_distributed(..) = Ok, Off never distributes, Force always does; "
          "R4 participants() keeps only this node and peers whose status is Up; "
          "R5 every fallible step of execute_statement's worker is propagated.")
NOT_DECIDED = "encoder fidelity of the Arrow/JSON/CSV bodies (values)."

SV = "distributed::server"


def run(F, R):
    R.rule("C35.R1", "K3", "no local fallback after a distributed attempt")
    R.rule("C35.R2", "K3", "engine reached only past state.context() = Some")
    R.rule("C35.R3", "K4/K3", "Auto distributes only with >= 2 members and an exact plan")
    R.rule("C35.R4", "K1", "participants = self or Up")
    R.rule("C35.R5", "K-ERR", "worker propagates errors")
    es = F.fn(SV + "::execute_statement::{closure#0}")
    worker = [g for g in F.family(SV + "::execute_statement") if g.path.startswith(es.path + "::{closure#")]
    w = None
    for g in worker:
        if any(c.name == "distributed::coordinator::execute_any_distributed" for c in g.calls()):
            w = g
    if w is None:
        raise Broken("execute_statement worker block not found")
    loc_sql = [c for c in w.calls() if c.name == "execution::context::ExecutionContext::sql"]
    dist = [c for c in w.calls() if c.name == "distributed::coordinator::execute_any_distributed"]
    R.floor("C35.R1", "local/distributed engine calls in the worker", len(loc_sql) + len(dist), 2)
    ok1 = bool(loc_sql) and bool(dist)
    for l in loc_sql:
        for d in dist:
            if w.path_exists(d.bb, l.bb):
                ok1 = False
    # the two are on opposite edges of one switch on the captured `distribute` flag
    sw_ok = False
    for sb in range(w.n):
        si = w.switch_info(sb)
        if si and si[0] == "bool" and si[1]:
            e = k9.kexpr(w, "c:" + si[1])
            tr, fl = w.reachable(si[2][True], avoid=frozenset([sb])), w.reachable(si[2][False], avoid=frozenset([sb]))
            if loc_sql and dist:
                a = loc_sql[0].bb in tr and dist[0].bb in fl and loc_sql[0].bb not in fl and dist[0].bb not in tr
                b = loc_sql[0].bb in fl and dist[0].bb in tr and loc_sql[0].bb not in tr and dist[0].bb not in fl
                if a or b:
                    sw_ok = True
                    R.extra["c35_switch"] = e[:60]
    R.check(ok1 and sw_ok, "C35.R1", "execute_statement:no-local-fallback", "the local engine is reachable after (or alongside) the distributed attempt: a failed distributed execution could be answered locally", w.loc(), dict(local=len(loc_sql), distributed=len(dist)))
    n = 0
    for c, tags, ok in kerr.audit(F, w):
        n += 1
        R.check(ok, "C35.R5", f"worker:{c.name.rsplit('::', 1)[-1]}#{n}", f"error swallowed ({sorted(tags)})", w.loc(c.bb), dict(consumers=sorted(tags)))
    R.floor("C35.R5", "fallible calls in the worker", n, 2)

    # ---- R2
    def gated(fnpath, targets_pred, key):
        g = F.fn(fnpath)
        tg = [c for c in g.calls() if targets_pred(c)]
        # async spawn: the engine call sits in a nested closure created in g: use the closure construction block
        blocks = [c.bb for c in tg]
        for i, j, dst, rv, line in g.stmts():
            if rv[0] == "agg" and rv[1].startswith("closure:") and any(targets_pred(x) for x in F.fam_calls(rv[1][8:])):
                blocks.append(i)
        if not blocks:
            R.undecided("C35.R2", key, "no engine call found", g.loc()); return
        okall = True
        for bb in blocks:
            gs = guards.guards_of(g, bb, require_err=False)
            ok = any(("::context(" in cd or "context(" in cd) and cd.startswith("discr(") and str(v) == "Some" for sb, cd, v in gs) or \
                 any("context(" in cd and "is_none(" in cd and v is False for sb, cd, v in gs) or any("context(" in cd and "is_some(" in cd and v is True for sb, cd, v in gs)
            okall = okall and ok
        R.check(okall, "C35.R2", key, "the engine is reachable while tables are not loaded (state.context() is None)", g.loc(blocks[0]), dict(sites=len(blocks)))
    eng = lambda c: c.name in ("execution::context::ExecutionContext::sql", "distributed::coordinator::execute_any_distributed", "distributed::coordinator::execute_fragment", "distributed::plan::plan_distributed")
    gated(es.path, eng, "execute_statement:context-ready")
    gated(SV + "::fragment::{closure#0}", eng, "fragment:context-ready")
    # /sql handler refuses before reading the body
    sq = F.fn(SV + "::sql::{closure#0}")
    calls_es = [c for c in sq.calls() if c.name == SV + "::execute_statement"]
    R.floor("C35.R2", "execute_statement calls in /sql", len(calls_es), 1)
    for c in calls_es:
        gs = guards.guards_of(sq, c.bb, require_err=False)
        ok = any("context(" in cd and (("is_none(" in cd and v is False) or ("is_some(" in cd and v is True) or (cd.startswith("discr(") and str(v) == "Some")) for sb, cd, v in gs)
        R.check(ok, "C35.R2", "sql-handler:context-ready", "/sql reaches execute_statement on a not-ready node without the 503 refusal", sq.loc(c.bb), dict())

    # ---- R3: the (distribute, reason) tuple per mode
    tuples = []
    for i, j, dst, rv, line in es.stmts():
        if rv[0] == "agg" and rv[1] == "tuple" and len(rv[2]) == 2 and es.local_ty(place_local(dst)).startswith("(bool, std::option::Option<std::string::String>"):
            tuples.append((i, rv))
    R.floor("C35.R3", "(distribute, reason) decisions", len(tuples), 5)
    for n, (bb, rv) in enumerate(sorted(tuples)):
        flag = op_const(rv[2][0])
        gs = guards.guards_of(es, bb, require_err=False)
        conds = [(cd, str(v)) for sb, cd, v in gs]
        mode = [v for cd, v in conds if cd.startswith("discr(") and v in ("Off", "Force", "Auto")]
        if flag is True and mode and mode[-1] == "Auto":
            ge2 = any(("len(" in cd and (cd.startswith("Lt(") and cd.rstrip(")").endswith("#2") and v == "False")) or (cd.startswith("Ge(") and cd.rstrip(")").endswith("#2") and v == "True") for cd, v in conds)
            planned = any("plan_distributed(" in cd and cd.startswith("discr(") and v == "Ok" for cd, v in conds)
            R.check(ge2 and planned, "C35.R3", "auto:true-needs-2-members-and-plan", "Auto mode distributes without `members.len() >= 2` and `plan_distributed(..) is Ok`", es.loc(bb), dict(guards=[c[:50] + "=" + v for c, v in conds][-5:]))
        elif mode and mode[-1] == "Off":
            R.check(flag is False, "C35.R3", "off:never-distributes", "distributed=0 can distribute", es.loc(bb), dict(), nontrivial=False)
        elif mode and mode[-1] == "Force":
            R.check(flag is True, "C35.R3", "force:always-distributes", "distributed=1 does not distribute", es.loc(bb), dict(), nontrivial=False)
        elif flag is True:
            R.bad("C35.R3", f"decision#{n}:true-outside-auto-force", "a distribute=true decision is not under Force or the Auto conditions", es.loc(bb), dict(guards=[c[:50] + "=" + v for c, v in conds][-5:]))
    # ---- R4
    pa = F.fn(SV + "::participants")
    flt = [c for c in pa.calls() if c.name.rsplit("::", 1)[-1] == "filter"]
    ok4 = False
    for c in flt:
        path, env = k9.closure_env(pa, c.args[1])
        if path:
            cf = F.fn(path)
            rd = {fld for bb, acc, fld, a, line in cf.field_accesses()}
            eqs = [x for x in cf.calls() if x.name.rsplit("::", 1)[-1] in ("eq", "ne") and "PeerStatus" in x.self_ty + " ".join(x.argtys)]
            up = any(rv[0] == "agg" and rv[1].endswith("PeerStatus::Up") for i, j, dst, rv, line in cf.stmts())
            ok4 = {"is_self", "status"} <= rd and bool(eqs) and up and eqs[0].name.endswith("::eq")
    src_members = any(c.name == "distributed::membership::Membership::members" for c in pa.calls())
    R.check(ok4 and src_members, "C35.R4", "participants:self-or-Up", "participants are not filtered to `is_self || status == Up` of Membership::members()", pa.loc(), dict(filters=len(flt)))
