"""C19 Rewritten files are never served from a stale cache — structural clauses."""
from qe import *
import k9
import guards

CLAIMS = ("R1 every cache validator is an EQUALITY test on a stamp that includes both the source file's full-resolution modification time and its length: cached_metadata and cached_reader_builder_with_schema return a cached footer only when the stored stamp equals a fresh (modified(), len()); the sidecar stamp is built from len() and modified() without a precision-reducing call (as_secs/as_millis) and compared with ==; sidecar_dict_cols hits only when the stored `.complete` stamp equals the current one; "
          "R2 every cache insert stores the stamp that was read BEFORE the file was parsed (so a concurrent rewrite cannot be recorded under the new stamp); "
          "R3 ensure_sidecar hands out a sidecar directory only when it is known to hold the current file's data: each Some(dir) return is either dominated by is_fresh(dir, src_meta) == true, or follows a successful build_sidecar whose publication step unconditionally removes the previous final directory before renaming the staging directory into place (a stale, complete directory can then not survive a rebuild).")
NOT_DECIDED = "a replacement that preserves both mtime and length (undetectable by any stat-based validator); content-level staleness."

MC = "storage::metadata_cache"
IC = "storage::ipc_cache"


def stamp_sources(F, g, op, depth=0):
    """which fs::Metadata accessors feed this operand (following in-crate helper calls one level)"""
    out = set()
    def src(k, x):
        if k == "call":
            last = x.name.rsplit("::", 1)[-1]
            if "Metadata" in x.self_ty and last in ("modified", "len", "created", "accessed"):
                out.add(last)
            if last in ("as_secs", "as_millis", "as_secs_f64", "subsec_nanos", "as_secs_f32", "as_micros"):
                out.add("LOSSY:" + last)
            if last == "as_nanos":
                out.add("as_nanos")
            if x.name in F.bodies and depth < 2:
                h = F.fn(x.name)
                for hh in F.family(x.name):
                    for c in hh.calls():
                        l2 = c.name.rsplit("::", 1)[-1]
                        if "Metadata" in c.self_ty and l2 in ("modified", "len"):
                            out.add(l2)
                        if l2 in ("as_secs", "as_millis", "as_micros"):
                            out.add("LOSSY:" + l2)
                        if l2 == "as_nanos":
                            out.add("as_nanos")
        return None
    derives_from(g, [op], src)
    return out


def run(F, R):
    R.rule("C19.R1", "K3/K5 validator shape", "cached value returned only under stamp equality; stamp = f(modified(), len()) at full resolution")
    R.rule("C19.R2", "K5", "the stamp stored on insert is the one read before parsing")
    # ---- footer caches
    for name in ("cached_metadata", "cached_reader_builder_with_schema"):
        g = F.fn(MC + "::" + name)
        # the cached-return: an Ok(..) built from a value derived from the static cache map (get)
        gets = [c for c in g.calls() if c.name.rsplit("::", 1)[-1] == "get" and "HashMap" in c.self_ty]
        if not gets:
            R.undecided("C19.R1", f"{MC}::{name}:validator", "no cache lookup found", g.loc()); continue
        oks = [i for i in ok_value_blocks(g) if any(derives_from(g, [rv[2][0]], lambda k, x, gc=gets[0]: (x is gc) if k == "call" else None) for ii, j, dst, rv, line in g.stmts() if ii == i and rv[0] == "agg" and rv[1] == "adt:std::result::Result::Ok")]
        if not oks:
            # the hit path may build the Ok from md.clone() in a later block dominated by the get's Some edge
            for sb in range(g.n):
                si = g.switch_info(sb)
                if si and si[0] == "enum" and "Some" in si[2] and derives_from(g, ["c:" + si[1][0]], lambda k, x, gc=gets[0]: (x is gc) if k == "call" else None):
                    oks += [i for i in ok_value_blocks(g) if g.dominates(si[2]["Some"], i)]
        oks = sorted(set(oks))
        if not oks:
            R.undecided("C19.R1", f"{MC}::{name}:validator", "cached-hit return not found", g.loc()); continue
        ok_all = True
        detail = []
        for bb in oks:
            gs = guards.guards_of(g, bb, require_err=False)
            eqs = []
            for sb, cond, val in gs:
                si = g.switch_info(sb)
                if si[0] != "bool" or not si[1]:
                    continue
                o = origin(g, "c:" + si[1])
                if o[0] == "call" and o[1].name.rsplit("::", 1)[-1] in ("eq", "ne", "ge", "le", "gt", "lt"):
                    last = o[1].name.rsplit("::", 1)[-1]
                    srcs = stamp_sources(F, g, o[1].args[0]) | stamp_sources(F, g, o[1].args[1])
                    eqs.append((last, val, sorted(srcs)))
                elif o[0] == "rv" and o[1][0] == "bin":
                    srcs = stamp_sources(F, g, o[1][2]) | stamp_sources(F, g, o[1][3])
                    eqs.append((o[1][1].lower(), val, sorted(srcs)))
            detail.append(eqs)
            have = set()
            for last, val, srcs in eqs:
                if (last == "eq" and val is True) or (last == "ne" and val is False):
                    have |= set(srcs)
                elif set(srcs) & {"modified", "len"}:
                    ok_all = False  # an ordering test on the stamp (>=) accepts older-or-equal replacements
            if not {"modified", "len"} <= have or any(x.startswith("LOSSY") for x in have):
                ok_all = False
        R.check(ok_all, "C19.R1", f"{MC}::{name}:validator", "a cached footer is returned without an equality test of the stored stamp against the file's current (modified(), len()): a replaced file is read with the old footer", g.loc(oks[0]), dict(tests=detail))
        # R2: inserted stamp derives from the metadata call made before File::open / load
        ins = [c for c in g.calls() if c.name.rsplit("::", 1)[-1] == "insert" and "HashMap" in c.self_ty]
        loads = [c for c in g.calls() if c.name.rsplit("::", 1)[-1] in ("load", "try_new", "try_new_with_options")]
        okr2 = bool(ins) and bool(loads)
        for c in ins:
            meta_calls = []
            derives_from(g, [c.args[2]], lambda k, x: meta_calls.append(x) if (k == "call" and (x.name == "std::fs::metadata" or x.name == MC + "::file_stamp")) else None)
            okr2 = okr2 and bool(meta_calls) and all(g.dominates(m.bb, l.bb) for m in meta_calls for l in loads if g.dominates(l.bb, c.bb))
        R.check(okr2, "C19.R2", f"{MC}::{name}:stamp-read-before-parse", "the stamp stored with a freshly parsed footer is not the one read before parsing", g.loc(), dict(inserts=len(ins)))
    # ---- sidecar stamp
    sv = F.fn(IC + "::stamp_value")
    srcs = set()
    for c in sv.calls():
        last = c.name.rsplit("::", 1)[-1]
        if "Metadata" in c.self_ty and last in ("modified", "len"):
            srcs.add(last)
        if last in ("as_secs", "as_millis", "as_micros", "as_secs_f64"):
            srcs.add("LOSSY:" + last)
        if last == "as_nanos":
            srcs.add("as_nanos")
    R.check({"modified", "len", "as_nanos"} <= srcs and not any(x.startswith("LOSSY") for x in srcs), "C19.R1", f"{IC}::stamp_value:precision", f"the sidecar stamp is built from {sorted(srcs)}: it must include len() and modified() at full resolution (no as_secs/as_millis)", sv.loc(), dict(sources=sorted(srcs)))
    isf = F.fn(IC + "::is_fresh")
    eq = [c for c in isf.calls() if c.name.rsplit("::", 1)[-1] in ("eq", "ne") and "String" in " ".join(c.argtys)]
    ords = [c for c in isf.calls() if c.name.rsplit("::", 1)[-1] in ("ge", "le", "gt", "lt", "starts_with", "contains")]
    sv_used = any(c.name == IC + "::stamp_value" for c in isf.calls())
    rd = any(c.name == "std::fs::read_to_string" for c in isf.calls()) and any(l[0] == "s:.complete" for l in isf.raw["lits"])
    R.check(bool(eq) and not ords and sv_used and rd, "C19.R1", f"{IC}::is_fresh:equality", "is_fresh does not compare the stored `.complete` stamp with stamp_value(src) for equality", isf.loc(), dict(eq=len(eq), ordering=len(ords)))
    # ---- dict cols cache
    dc = F.fn(IC + "::sidecar_dict_cols")
    gets = [c for c in dc.calls() if c.name.rsplit("::", 1)[-1] == "get" and "HashMap" in c.self_ty]
    hits = []
    rets = [i for i, j, dst, rv, line in dc.stmts() if dst == "0"] + [c.bb for c in dc.calls() if c.dest == "0"]
    okd = False
    detail = []
    if gets:
        for rb in rets:
            # a return whose value derives from the cache lookup
            src_is_cache = False
            for i, j, dst, rv, line in dc.stmts():
                if i == rb and dst == "0" and rv[0] == "use":
                    src_is_cache = bool(derives_from(dc, [rv[1]], lambda k, x: (x is gets[0]) if k == "call" else None))
            for c in dc.calls():
                if c.bb == rb and c.dest == "0":
                    src_is_cache = bool(derives_from(dc, list(c.args), lambda k, x: (x is gets[0]) if k == "call" else None))
            if not src_is_cache:
                continue
            hits.append(rb)
            gs = guards.guards_of(dc, rb, require_err=False)
            for sb, cond, val in gs:
                si = dc.switch_info(sb)
                if si[0] == "bool" and si[1]:
                    o = origin(dc, "c:" + si[1])
                    if o[0] == "call" and o[1].name.rsplit("::", 1)[-1] in ("eq", "ne"):
                        stamp = any(derives_from(dc, [a], lambda k, x: x if (k == "call" and x.name == "std::fs::read_to_string") else None) for a in o[1].args)
                        detail.append((o[1].name.rsplit("::", 1)[-1], str(val), stamp))
                        if stamp and ((o[1].name.endswith("::eq") and val is True) or (o[1].name.endswith("::ne") and val is False)):
                            okd = True
    lit = any(l[0] == "s:.complete" for g in F.family(dc.path) for l in g.raw["lits"])
    R.check(okd and lit and bool(hits), "C19.R1", f"{IC}::sidecar_dict_cols:validator", "the per-directory dictionary-column cache answers without checking that the sidecar's `.complete` stamp is still the one it was computed for", dc.loc(), dict(hit_returns=len(hits), tests=detail))
    # ---- R3: what ensure_sidecar returns
    R.rule("C19.R3", "K3 dominance", "Some(dir) only under is_fresh == true, or after a build that unconditionally replaced the final directory")
    es = F.fn(IC + "::ensure_sidecar")
    bs = F.fn(IC + "::build_sidecar")
    somes = [i for i, j, dst, rv, line in es.stmts() if dst == "0" and rv[0] == "agg" and rv[1] == "adt:std::option::Option::Some"]
    R.floor("C19.R3", "Some(dir) returns in ensure_sidecar", len(somes), 3)
    # publication invariant of build_sidecar
    ren = [c for c in bs.calls() if c.name == "std::fs::rename"]
    pub_ok, why = False, "no rename of the staging directory found"
    if len(ren) == 1:
        r = ren[0]
        fin = origin(bs, r.args[1])
        rms = [c for c in bs.calls() if c.name == "std::fs::remove_dir_all" and same_origin(bs, c.args[0], r.args[1])]
        if not rms:
            why = "the final directory is never removed before the rename"
        elif not any(bs.dominates(c.bb, r.bb) for c in rms):
            why = "the removal of the previous final directory is conditional: a stale directory that looks complete survives, the rename fails on it and the stale data is served"
        else:
            pub_ok, why = True, ""
    built = [c for c in es.calls() if c.name == bs.path]
    for n, i in enumerate(sorted(somes, key=lambda b: es.blocks[b]["l"])):
        gs = guards.guards_of(es, i, require_err=False)
        fresh = any(cd.startswith(IC + "::is_fresh(") and v is True for sb, cd, v in gs)
        after_build = any(es.dominates(c.bb, i) and c.bb != i for c in built)
        # the build's error edge must not reach this return
        if after_build:
            b = [c for c in built if es.dominates(c.bb, i)][0]
            okb = any(cd.startswith("discr(") and (bs.path + "(") in cd and str(v) in ("Ok", "Continue") for sb, cd, v in gs) or "match" in " ".join(result_consumers(es, b)) or "iflet" in " ".join(result_consumers(es, b))
        else:
            okb = False
        ok = fresh or (after_build and okb and pub_ok)
        what = "a sidecar directory is handed out without a freshness test" if not (fresh or after_build) else ("after a rebuild the directory is handed out although " + (why or "the build's failure edge reaches this return"))
        R.check(ok, "C19.R3", f"ensure_sidecar:return#{n}", what, es.loc(i), dict(fresh_guard=fresh, after_build=after_build, publication_replaces_final=pub_ok))
