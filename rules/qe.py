"""Core of the rule engine: fact loading/caching, CFG utilities, call graph, def-use helpers.

Everything here works on the JSON facts emitted by engines/qe-facts (type-resolved MIR + HIR
summaries of /repo's lib and bin crates).  No source text is consulted by any rule.
"""
import fcntl
import glob
import hashlib
import json
import os
import pickle
import subprocess
import sys
import time

VERIF = os.path.dirname(os.path.dirname(os.path.abspath(__file__)))
REPO = os.environ.get("QE_REPO", "/repo")
CACHE = os.path.join(VERIF, ".cache")


class Broken(Exception):
    """The check itself cannot run / an anchor is missing: exit 2, never a verdict."""


# ----------------------------------------------------------------------------- fact cache
def tree_key(repo=REPO):
    h = hashlib.sha256()
    h.update(b"format-4")  # bump when _parse's output changes
    files = []
    for root, dirs, fs in os.walk(os.path.join(repo, "src")):
        dirs.sort()
        for f in sorted(fs):
            files.append(os.path.join(root, f))
    for f in ("Cargo.toml", "Cargo.lock", "build.rs"):
        p = os.path.join(repo, f)
        if os.path.exists(p):
            files.append(p)
    drv = os.path.join(VERIF, "engines/qe-facts/src/main.rs")
    files.append(drv)
    for p in files:
        h.update(os.path.relpath(p, repo).encode())
        h.update(b"\0")
        with open(p, "rb") as fh:
            h.update(fh.read())
        h.update(b"\0")
    return h.hexdigest()[:24]


def _extract(outdir, repo, target=None):
    t0 = time.time()
    cmd = [os.path.join(VERIF, "bin/facts.sh"), outdir, repo] + ([target] if target else [])
    r = subprocess.run(cmd, capture_output=True, text=True)
    if r.returncode != 0:
        raise Broken("fact extraction failed:\n" + r.stderr[-3000:])
    return time.time() - t0


def load_facts(repo=REPO, force=False):
    """Returns a Facts object for the current working tree of `repo` (cached by content hash)."""
    key = tree_key(repo)
    d = os.path.join(CACHE, "facts", key)
    os.makedirs(os.path.join(CACHE, "facts"), exist_ok=True)
    lock = open(os.path.join(CACHE, "facts", ".lock"), "w")
    fcntl.flock(lock, fcntl.LOCK_EX)
    try:
        pk = os.path.join(d, "facts.pickle")
        extracted = False
        if force or os.environ.get("VERIF_NO_CACHE") == "1" or not os.path.exists(pk):
            _gc_cache(keep=key)
            secs = _extract(d, repo)
            raw = _parse(d)
            raw["extract_s"] = secs
            raw["key"] = key
            with open(pk + ".tmp", "wb") as fh:
                pickle.dump(raw, fh, protocol=pickle.HIGHEST_PROTOCOL)
            os.replace(pk + ".tmp", pk)
            for f in glob.glob(os.path.join(d, "*.jsonl")):
                os.remove(f)
            extracted = True
        with open(pk, "rb") as fh:
            raw = pickle.load(fh)
    finally:
        fcntl.flock(lock, fcntl.LOCK_UN)
        lock.close()
    F = Facts(raw)
    F.extracted_now = extracted
    return F


def load_facts_uncached(repo, slot):
    """Facts of a scratch tree (mutant runs): own target directory per worker slot, nothing cached.  Workers with different
    slots run in parallel; two users of one slot are serialised by a lock on the slot's target directory."""
    import shutil
    import tempfile
    target = os.path.join(CACHE, f"target-m{slot}")
    os.makedirs(CACHE, exist_ok=True)
    lock = open(os.path.join(CACHE, f".lock-m{slot}"), "w")
    fcntl.flock(lock, fcntl.LOCK_EX)
    d = tempfile.mkdtemp(prefix="facts-", dir=repo)
    try:
        secs = _extract(d, repo, target)
        raw = _parse(d)
        raw["extract_s"] = secs
        raw["key"] = "uncached:" + os.path.basename(repo)
    finally:
        shutil.rmtree(d, ignore_errors=True)
        fcntl.flock(lock, fcntl.LOCK_UN)
        lock.close()
    F = Facts(raw)
    F.extracted_now = True
    return F


def _gc_cache(keep, maxn=6):
    base = os.path.join(CACHE, "facts")
    ds = [os.path.join(base, x) for x in os.listdir(base) if os.path.isdir(os.path.join(base, x)) and x != keep]
    ds.sort(key=lambda p: os.path.getmtime(p))
    import shutil
    while len(ds) >= maxn:
        shutil.rmtree(ds.pop(0), ignore_errors=True)


def _parse(d):
    bodies, adts, impls = {}, {}, []
    metas = []
    for f in sorted(glob.glob(os.path.join(d, "*.jsonl"))):
        isbin = "-bin-" in os.path.basename(f)
        with open(f) as fh:
            for line in fh:
                if isbin:
                    line = line.replace("query_engine::", "")
                o = json.loads(line)
                k = o["k"]
                if k == "body":
                    bodies[o["path"]] = o
                elif k == "adt":
                    adts[o["path"]] = o
                elif k == "impl":
                    impls.append(o)
                elif k == "meta":
                    metas.append(o)
    if not bodies:
        raise Broken("no bodies extracted")
    callidx = {}
    for p, b in bodies.items():
        for i, bl in enumerate(b["blocks"]):
            t = bl["t"]
            if t[0] == "call" and not bl.get("c"):
                for nm in {t[1].get("fn", ""), t[1].get("res", "")}:
                    if nm:
                        callidx.setdefault(nm, []).append((p, i))
    import re
    fre = re.compile(r"f:([A-Za-z_0-9]+):([^|\"\]]+)")
    aggre = re.compile(r'"agg", "(adt:[^"]+|closure:[^"]+)"')
    stre = re.compile(r'"static": "([^"]+)"')
    fieldidx, aggidx, staticidx = {}, {}, {}
    for p, b in bodies.items():
        txt = json.dumps(b["blocks"])
        for m in set(stre.findall(txt)):
            staticidx.setdefault(m, []).append(p)
        for m in set(fre.findall(txt)):
            fieldidx.setdefault(m, []).append(p)
        for m in set(aggre.findall(txt)):
            aggidx.setdefault(m, []).append(p)
    return {"bodies": bodies, "adts": adts, "impls": impls, "metas": metas, "callidx": callidx, "fieldidx": fieldidx, "aggidx": aggidx, "staticidx": staticidx}


# ----------------------------------------------------------------------------- operands / places
def op_place(op):
    """'c:3|*|f:x:T' -> '3|*|f:x:T' ; constants -> None"""
    if isinstance(op, str) and len(op) > 1 and op[1] == ":":
        return op[2:]
    return None


def place_local(pl):
    return int(pl.split("|", 1)[0])


def place_fields(pl):
    """[(fieldname, adt)] along the projection"""
    out = []
    for part in pl.split("|")[1:]:
        if part.startswith("f:"):
            _, name, adt = part.split(":", 2)
            out.append((name, adt))
    return out


def op_const(op):
    """value of a constant operand (int/bool/str) or None"""
    if isinstance(op, dict):
        if "v" in op:
            return op["v"]
        if "p" in op:
            return op["p"]
    return None


def op_is_const(op):
    return isinstance(op, dict)


class Call:
    __slots__ = ("fn", "bb", "callee", "res", "self_ty", "args", "dest", "target", "span", "fspan", "argtys", "line", "ptr")

    def __init__(self, fn, bb, t, line):
        self.fn, self.bb, self.line = fn, bb, line
        f = t[1]
        self.callee = f.get("fn", "")
        self.res = f.get("res", "") or self.callee
        self.self_ty = f.get("self", "")
        self.ptr = f.get("ptr")
        self.args, self.dest, self.target, self.span, self.fspan, self.argtys = t[2], t[3], t[4], t[5], t[6], t[7]

    @property
    def name(self):
        return self.res or self.callee

    def is_(self, *suffixes):
        for s in suffixes:
            if self.callee == s or self.res == s or self.callee.endswith("::" + s) or self.res.endswith("::" + s):
                return True
        return False

    def __repr__(self):
        return f"<call {self.name} @{self.fn.path}:bb{self.bb}:L{self.line}>"


class Fn:
    """One MIR body with CFG helpers."""

    def __init__(self, raw, facts):
        self.raw = raw
        self.F = facts
        self.path = raw["path"]
        self.blocks = raw["blocks"]
        self.locals = raw["locals"]
        self.n = len(self.blocks)
        self._succ = None
        self._pred = None
        self._dom = None
        self._pdom = None
        self._calls = None
        self._defs = None

    # -- identity
    @property
    def file(self):
        return self.raw["file"]

    @property
    def line(self):
        return self.raw["line"]

    def loc(self, bb=None):
        if bb is None:
            return f"{self.file}:{self.line}"
        return f"{self.file}:{self.blocks[bb]['l']}"

    # -- CFG (cleanup blocks and unwind edges are not present in facts' successor lists)
    def succ(self, b):
        if self._succ is None:
            self._build()
        return self._succ[b]

    def pred(self, b):
        if self._pred is None:
            self._build()
        return self._pred[b]

    def _build(self):
        S = []
        for bl in self.blocks:
            t = bl["t"]
            k = t[0]
            if k == "goto":
                s = [t[1]]
            elif k == "switch":
                s = [x[1] for x in t[2]] + [t[3]]
            elif k == "call":
                s = [t[4]] if t[4] is not None else []
            elif k == "drop":
                s = [t[2]]
            elif k == "assert":
                s = [t[3]]
            elif k == "yield":
                s = [t[2]]
            else:
                s = []
            # dedupe preserving order
            seen = []
            for x in s:
                if x not in seen:
                    seen.append(x)
            S.append(seen)
        P = [[] for _ in self.blocks]
        for i, s in enumerate(S):
            for x in s:
                P[x].append(i)
        self._succ, self._pred = S, P

    def reachable(self, start=0, avoid=frozenset(), succ=None):
        succ = succ or self.succ
        if start in avoid:
            return set()
        seen = {start}
        st = [start]
        while st:
            b = st.pop()
            for s in succ(b):
                if s not in seen and s not in avoid:
                    seen.add(s)
                    st.append(s)
        return seen

    def live_blocks(self):
        if getattr(self, "_live", None) is None:
            self._live = self.reachable(0)
        return self._live

    def return_blocks(self):
        live = self.live_blocks()
        return [i for i in live if self.blocks[i]["t"][0] == "ret"]

    def _domtree(self, entry_list, succ, pred):
        # iterative dominators over nodes reachable from entries (virtual root = -1)
        order = []
        seen = set()

        def dfs(r):
            st = [(r, iter(succ(r)))]
            seen.add(r)
            while st:
                n, it = st[-1]
                adv = False
                for s in it:
                    if s not in seen:
                        seen.add(s)
                        st.append((s, iter(succ(s))))
                        adv = True
                        break
                if not adv:
                    order.append(n)
                    st.pop()

        for e in entry_list:
            if e not in seen:
                dfs(e)
        rpo = list(reversed(order))
        idx = {n: i for i, n in enumerate(rpo)}
        ROOT = -1
        idom = {ROOT: ROOT}
        for e in entry_list:
            idom[e] = ROOT
        idx[ROOT] = -1

        def inter(a, b):
            while a != b:
                while idx[a] > idx[b]:
                    a = idom[a]
                while idx[b] > idx[a]:
                    b = idom[b]
            return a

        changed = True
        while changed:
            changed = False
            for n in rpo:
                if n in entry_list:
                    continue
                ps = [p for p in pred(n) if p in idom]
                if not ps:
                    continue
                new = ps[0]
                for p in ps[1:]:
                    new = inter(new, p)
                if idom.get(n) != new:
                    idom[n] = new
                    changed = True
        return idom

    def dominates(self, a, b):
        """every path entry->b passes through a (a==b counts)"""
        if self._dom is None:
            self._dom = self._domtree([0], self.succ, self.pred)
        if b not in self._dom:
            return True  # b unreachable
        x = b
        while x != -1:
            if x == a:
                return True
            x = self._dom[x]
        return False

    def postdominates(self, a, b):
        """every path b->return passes through a.  Exits = return blocks only."""
        if self._pdom is None:
            exits = self.return_blocks()
            self._pdom = self._domtree(exits, self.pred, self.succ)
        if b not in self._pdom:
            return True  # b cannot reach a return
        x = b
        while x != -1:
            if x == a:
                return True
            x = self._pdom[x]
        return False

    def path_exists(self, a, b, avoid=frozenset()):
        return b in self.reachable(a, avoid=avoid)

    def can_return_from(self, b, avoid=frozenset()):
        r = self.reachable(b, avoid=avoid)
        return any(self.blocks[x]["t"][0] == "ret" for x in r)

    # -- calls
    def calls(self):
        if self._calls is None:
            live = self.live_blocks()
            out = []
            for i, bl in enumerate(self.blocks):
                if bl["t"][0] == "call" and i in live and not bl.get("c"):
                    out.append(Call(self, i, bl["t"], bl["l"]))
            self._calls = out
        return self._calls

    def calls_to(self, *suffixes):
        return [c for c in self.calls() if c.is_(*suffixes)]

    # -- statements
    def stmts(self):
        """yield (bb, idx, dest_place, rvalue, line) for live, non-cleanup blocks; call dests are
        reported with rvalue ['call', Call]"""
        if getattr(self, "_stmts", None) is None:
            live = self.live_blocks()
            out = []
            for i, bl in enumerate(self.blocks):
                if i not in live or bl.get("c"):
                    continue
                for j, s in enumerate(bl["s"]):
                    out.append((i, j, s[0], s[1], s[2]))
            self._stmts = out
        return self._stmts

    def defs(self):
        """local -> list of (bb, kind, payload) where kind in stmt/call"""
        if self._defs is None:
            d = {}
            for i, j, dst, rv, line in self.stmts():
                if "|*" in dst:
                    continue  # a store through a pointer is not a definition of the pointer local
                d.setdefault(place_local(dst), []).append((i, "stmt", (dst, rv, line)))
            for c in self.calls():
                d.setdefault(place_local(c.dest), []).append((c.bb, "call", c))
            self._defs = d
        return self._defs

    def local_name(self, l):
        return self.locals[l][1]

    def local_ty(self, l):
        return self.locals[l][0]

    def locals_named(self, name):
        return [i for i, (t, n) in enumerate(self.locals) if n == name]

    # -- field accesses: list of (bb, 'r'|'w'|'mut', field, adt, line)
    def field_accesses(self):
        out = []

        def scan_op(bb, op, line):
            pl = op_place(op)
            if pl:
                for f, a in place_fields(pl):
                    out.append((bb, "r", f, a, line))

        for i, j, dst, rv, line in self.stmts():
            df = place_fields(dst)
            if df:
                # the last field is written, earlier ones are traversed
                for f, a in df[:-1]:
                    out.append((i, "r", f, a, line))
                out.append((i, "w", df[-1][0], df[-1][1], line))
            k = rv[0]
            if k in ("use", "repeat"):
                scan_op(i, rv[1], line)
            elif k == "ref" or k == "raw":
                acc = "mut" if (rv[1] == "mut" or "Mut" in str(rv[1])) else "r"
                for f, a in place_fields(rv[2]):
                    out.append((i, acc, f, a, line))
            elif k == "cast":
                scan_op(i, rv[2], line)
            elif k == "bin":
                scan_op(i, rv[2], line)
                scan_op(i, rv[3], line)
            elif k == "un":
                scan_op(i, rv[2], line)
            elif k == "discr":
                for f, a in place_fields(rv[1]):
                    out.append((i, "r", f, a, line))
            elif k == "agg":
                for o in rv[2]:
                    scan_op(i, o, line)
        for c in self.calls():
            for a in c.args:
                scan_op(c.bb, a, c.line)
        live = self.live_blocks()
        for i, bl in enumerate(self.blocks):
            if i in live and bl["t"][0] == "switch":
                scan_op(i, bl["t"][1], bl["l"])
        return out

    # -- switch edges with labels
    def switch_info(self, bb):
        """For a switch block: (kind, subject, {label: target}, otherwise) where kind is
        'bool' (labels False/True), 'enum' (labels variant names; subject = (place, adt)),
        or 'int'."""
        t = self.blocks[bb]["t"]
        if t[0] != "switch":
            return None
        op, targets, otherwise, ty = t[1], t[2], t[3], t[4]
        pl = op_place(op)
        if ty == "bool":
            lab = {}
            for v, tg in targets:
                lab[bool(v)] = tg
            # otherwise is the remaining truth value
            rest = [b for b in (False, True) if b not in lab]
            for r in rest:
                lab[r] = otherwise
            return ("bool", pl, lab, otherwise)
        # discriminant?
        if pl is not None and "|" not in pl:
            l = int(pl)
            for s in reversed(self.blocks[bb]["s"]):
                if s[0] == pl and s[1][0] == "discr":
                    names = {str(v): n for v, n in s[1][3]} if len(s[1]) > 3 else {}
                    lab = {}
                    for v, tg in targets:
                        lab[names.get(str(v), str(v))] = tg
                    covered = set(lab)
                    rest = [n for n in names.values() if n not in covered]
                    return ("enum", (s[1][1], s[1][2]), lab, otherwise, rest)
        lab = {v: tg for v, tg in targets}
        return ("int", pl, lab, otherwise)


# ----------------------------------------------------------------------------- fact base
class Facts:
    def __init__(self, raw):
        self.raw = raw
        self.key = raw["key"]
        self.bodies = raw["bodies"]
        self.adts = raw["adts"]
        self.impls = raw["impls"]
        self._fn = {}
        self._family = None
        self._callers = None
        self.extracted_now = False

    def fn(self, path):
        if path not in self._fn:
            if path not in self.bodies:
                raise Broken(f"anchor missing: function {path}")
            self._fn[path] = Fn(self.bodies[path], self)
        return self._fn[path]

    def has(self, path):
        return path in self.bodies

    def find(self, suffix=None, contains=None, file=None):
        out = []
        for p, b in self.bodies.items():
            if suffix and not (p == suffix or p.endswith("::" + suffix) or p.endswith(suffix)):
                continue
            if contains and contains not in p:
                continue
            if file and b["file"] != file:
                continue
            out.append(p)
        return out

    def one(self, suffix, file=None):
        c = [p for p in self.find(suffix=suffix, file=file)]
        if len(c) != 1:
            raise Broken(f"anchor {suffix!r} (file={file}) matched {len(c)} functions: {c[:5]}")
        return self.fn(c[0])

    def family(self, path):
        """the function and all closures/coroutines nested in it (transitively)"""
        if self._family is None:
            fam = {}
            for p, b in self.bodies.items():
                r = b.get("root") or p
                fam.setdefault(r, []).append(p)
            self._family = fam
        root = self.bodies[path].get("root") or path
        if root == path:
            return [self.fn(p) for p in self._family.get(path, [path])]
        # nested closure: itself plus closures lexically below it
        return [self.fn(p) for p in self._family.get(root, []) if p == path or p.startswith(path + "::")]

    def fam_calls(self, path):
        out = []
        for f in self.family(path):
            out.extend(f.calls())
        return out

    def in_file(self, file):
        return [self.fn(p) for p, b in self.bodies.items() if b["file"] == file]

    def callers_index(self):
        if self._callers is None:
            idx = {}
            for p in self.bodies:
                f = self.fn(p)
                for c in f.calls():
                    for nm in {c.callee, c.res}:
                        if nm:
                            idx.setdefault(nm, []).append(c)
            self._callers = idx
        return self._callers

    def callers_of(self, path):
        """live call sites (Call objects) whose declared or resolved callee is `path`"""
        out = []
        for p, bb in self.raw["callidx"].get(path, []):
            f = self.fn(p)
            for c in f.calls():
                if c.bb == bb:
                    out.append(c)
        return out

    def fns_touching(self, field, adt):
        """functions whose MIR names field `field` of `adt` in any place"""
        return [self.fn(p) for p in self.raw["fieldidx"].get((field, adt), [])]

    def statics_of(self, roots):
        """{static path: [function paths]} referenced anywhere in the in-crate call closure of roots"""
        clo = self.closure_of(roots)
        fams = set()
        for r in clo:
            for g in self.family(r):
                fams.add(g.path)
        out = {}
        for st, fns in self.raw["staticidx"].items():
            hit = [p for p in fns if p in fams]
            if hit:
                out[st] = hit
        return out

    def fns_building(self, agg):
        """functions containing an aggregate rvalue `adt:<path>[::Variant]` or `closure:<path>`"""
        return [self.fn(p) for p in self.raw["aggidx"].get(agg, [])]

    def callers_matching(self, pred):
        out = []
        for nm in self.raw["callidx"]:
            if pred(nm):
                out.extend(self.callers_of(nm))
        # a site can be indexed under both names
        seen, res = set(), []
        for c in out:
            k = (c.fn.path, c.bb)
            if k not in seen:
                seen.add(k)
                res.append(c)
        return res

    def callees_local(self, path):
        """in-crate callee paths of the family of `path` (resolved where possible; both the trait
        method and the resolved impl are reported)"""
        out = set()
        for c in self.fam_calls(path):
            for nm in (c.res, c.callee):
                if nm in self.bodies:
                    out.add(self.bodies[nm].get("root") or nm)
        return out

    def closure_of(self, roots, depth=50, dyn_impls=True):
        """transitive in-crate callees (by family root).  Calls through `dyn Trait` are expanded to
        every in-crate impl of that trait method when dyn_impls is set."""
        seen = set()
        work = [(self.bodies[r].get("root") or r, 0) for r in roots]
        while work:
            p, d = work.pop()
            if p in seen:
                continue
            seen.add(p)
            if d >= depth:
                continue
            for c in self.fam_calls(p):
                tg = set()
                for nm in (c.res, c.callee):
                    if nm in self.bodies:
                        tg.add(self.bodies[nm].get("root") or nm)
                if dyn_impls and not tg and c.callee and c.self_ty.startswith("dyn "):
                    meth = c.callee.rsplit("::", 1)[-1]
                    tr = c.callee.rsplit("::", 1)[0]
                    for im in self.impls:
                        if im["trait"] == tr:
                            for n, mp in im["methods"]:
                                if n == meth and mp in self.bodies:
                                    tg.add(mp)
                for t in tg:
                    if t not in seen:
                        work.append((t, d + 1))
        return seen

    def impls_of(self, trait_suffix):
        return [im for im in self.impls if im["trait"] == trait_suffix or im["trait"].endswith("::" + trait_suffix)]

    def adt(self, suffix):
        c = [p for p in self.adts if p == suffix or p.endswith("::" + suffix)]
        if len(c) != 1:
            raise Broken(f"anchor ADT {suffix!r} matched {len(c)}: {c[:5]}")
        return self.adts[c[0]]


# ----------------------------------------------------------------------------- def-use
def derives_from(fn, start_ops, is_source, max_steps=400, through_calls=True, stop=None):
    """Backward slice over assignments: does any operand in start_ops derive (through moves, refs,
    casts, field projections, aggregates, and - if through_calls - call results from their
    arguments) from something for which is_source(kind, payload) is true?
    is_source is called with ('place', placestr), ('call', Call), ('const', op).
    Returns the first matching witness or None.  Flow-insensitive (all defs of a local)."""
    defs = fn.defs()
    seen = set()
    work = list(start_ops)
    steps = 0
    while work and steps < max_steps:
        steps += 1
        op = work.pop()
        if isinstance(op, dict):
            w = is_source("const", op)
            if w:
                return w
            continue
        pl = op_place(op) if (len(op) > 1 and op[1] == ":") else op
        if pl is None:
            continue
        w = is_source("place", pl)
        if w:
            return w
        l = place_local(pl)
        if l in seen:
            continue
        seen.add(l)
        # index locals inside the place
        for part in pl.split("|")[1:]:
            if part.startswith("[") and part[1:-1].isdigit():
                work.append("c:" + part[1:-1])
        for bb, kind, payload in defs.get(l, []):
            if kind == "call":
                c = payload
                w = is_source("call", c)
                if w:
                    return w
                if stop and stop(c):
                    continue
                if through_calls:
                    work.extend(a for a in c.args)
            else:
                dst, rv, line = payload
                k = rv[0]
                if k in ("use", "repeat"):
                    work.append(rv[1])
                elif k in ("ref", "raw"):
                    work.append(rv[2])
                elif k == "cast":
                    work.append(rv[2])
                elif k == "bin":
                    work.append(rv[2])
                    work.append(rv[3])
                elif k == "un":
                    work.append(rv[2])
                elif k == "discr":
                    work.append(rv[1])
                elif k == "agg":
                    work.extend(rv[2])
    return None


def uses_of_local(fn, l):
    """forward uses: list of ('stmt', bb, dst, rv) / ('call', Call, argidx) / ('switch', bb) / ('ret',)"""
    out = []
    key = str(l)

    def op_uses(op):
        pl = op_place(op)
        if pl is None:
            return False
        if place_local(pl) == l:
            return True
        for part in pl.split("|")[1:]:
            if part == f"[{l}]":
                return True
        return False

    for i, j, dst, rv, line in fn.stmts():
        k = rv[0]
        ops = []
        if k in ("use", "repeat"):
            ops = [rv[1]]
        elif k in ("ref", "raw"):
            ops = ["c:" + rv[2]]
        elif k == "cast":
            ops = [rv[2]]
        elif k == "bin":
            ops = [rv[2], rv[3]]
        elif k == "un":
            ops = [rv[2]]
        elif k == "discr":
            ops = ["c:" + rv[1]]
        elif k == "agg":
            ops = rv[2]
        if any(op_uses(o) for o in ops):
            out.append(("stmt", i, dst, rv))
        # writes through the local (e.g. (*_l).f = ..)
        if place_local(dst) == l and "|" in dst:
            out.append(("store", i, dst, rv))
    for c in fn.calls():
        for ai, a in enumerate(c.args):
            if op_uses(a):
                out.append(("call", c, ai))
    live = fn.live_blocks()
    for i, bl in enumerate(fn.blocks):
        if i in live and bl["t"][0] == "switch" and op_uses(bl["t"][1]):
            out.append(("switch", i))
    if l == 0:
        out.append(("ret",))
    return out


def flows_to(fn, start_local, sink, max_steps=600, through_calls=None):
    """Forward propagation from a local through moves/refs/casts/aggregates/field projections
    (and through calls for which through_calls(Call) is true: result derives from args).
    sink(use) -> witness or None.  Returns first witness."""
    seen = set()
    work = [start_local]
    steps = 0
    while work and steps < max_steps:
        steps += 1
        l = work.pop()
        if l in seen:
            continue
        seen.add(l)
        for u in uses_of_local(fn, l):
            w = sink(u)
            if w:
                return w
            if u[0] == "stmt":
                work.append(place_local(u[2]))
            elif u[0] == "call":
                c = u[1]
                if through_calls and through_calls(c):
                    work.append(place_local(c.dest))
    return None


# ----------------------------------------------------------------------------- HIR helpers
def span_contains(outer, inner):
    return (outer[0], outer[1]) <= (inner[0], inner[1]) and (inner[2], inner[3]) <= (outer[2], outer[3])


def arms_of(fn, scrut_suffix=None, kind=None):
    out = []
    for m in fn.raw["matches"]:
        if kind and m["kind"] != kind:
            continue
        if scrut_suffix and not (m["scrut"] == scrut_suffix or m["scrut"].endswith("::" + scrut_suffix)):
            continue
        out.append(m)
    return out


def calls_in_span(fn, span):
    return [c for c in fn.calls() if span_contains(span, c.span)]


def pat_alternatives(pat):
    """split a rendered pattern on top-level ' | '"""
    out, depth, cur = [], 0, ""
    i = 0
    while i < len(pat):
        ch = pat[i]
        if ch in "([{":
            depth += 1
        elif ch in ")]}":
            depth -= 1
        if depth == 0 and pat.startswith(" | ", i):
            out.append(cur)
            cur = ""
            i += 3
            continue
        cur += ch
        i += 1
    out.append(cur)
    return [x.strip() for x in out]


def pat_head(p):
    """'a::B::C(x)' -> 'a::B::C'"""
    for i, ch in enumerate(p):
        if ch in "({":
            return p[:i]
    return p


# ----------------------------------------------------------------------------- value origin
def origin(fn, op, depth=0):
    """Follow single-definition copy/move/cast-free chains back to where a value comes from.
    Returns one of ('const', op) ('arg', local) ('named', local) ('place', placestr)
    ('call', Call) ('rv', rvalue, bb) ('multi', local) ('unknown', x)"""
    if isinstance(op, dict):
        return ("const", op)
    pl = op_place(op) if (isinstance(op, str) and len(op) > 1 and op[1] == ":") else op
    if pl is None:
        return ("unknown", op)
    while pl.endswith("|*") and pl.count("|") == 1:
        pl = pl[:-2]
    if "|" in pl:
        # tuple field of a checked-arith result: look through `(_x.0)`
        parts = pl.split("|")
        if len(parts) == 2 and parts[1].startswith("f:0:()"):
            l = int(parts[0])
            ds = fn.defs().get(l, [])
            if len(ds) == 1 and ds[0][1] == "stmt" and ds[0][2][1][0] == "bin":
                return ("rv", ds[0][2][1], ds[0][0])
        return ("place", pl)
    l = int(pl)
    if 1 <= l <= fn.raw["nargs"]:
        return ("arg", l)
    ds = fn.defs().get(l, [])
    if len(ds) > 1:
        return ("multi", l)
    if fn.local_name(l) and len(ds) == 0:
        return ("named", l)
    if len(ds) == 0:
        return ("unknown", l)
    if len(ds) > 1:
        return ("multi", l)
    bb, kind, payload = ds[0]
    if kind == "call":
        return ("call", payload)
    dst, rv, line = payload
    if depth > 40:
        return ("unknown", l)
    if rv[0] == "use":
        o = origin(fn, rv[1], depth + 1)
        if o[0] in ("unknown",) and fn.local_name(l):
            return ("named", l)
        return o
    if rv[0] == "ref":
        pl2 = rv[2]
        while pl2.endswith("|*"):
            pl2 = pl2[:-2]
        return origin(fn, "c:" + pl2, depth + 1) if "|" not in pl2 else ("place", rv[2])
    return ("rv", rv, bb)


def same_origin(fn, a, b):
    oa, ob = origin(fn, a), origin(fn, b)
    if oa[0] != ob[0]:
        return False
    if oa[0] in ("arg", "named", "multi", "place"):
        return oa[1] == ob[1]
    if oa[0] == "call":
        return oa[1] is ob[1]
    if oa[0] == "rv":
        return oa[2] == ob[2] and oa[1] == ob[1]
    return False


def norm_place(fn, pl):
    """replace the base local by its debug name when it has one (for messages/comparison)"""
    parts = pl.split("|")
    n = fn.local_name(int(parts[0]))
    return "|".join([n or ("_" + parts[0])] + parts[1:])


# ----------------------------------------------------------------------------- K-ERR: how is a call's Result consumed
SWALLOW = ("ok", "unwrap_or", "unwrap_or_default", "unwrap_or_else", "is_ok", "is_err", "is_ok_and", "is_err_and", "err",
           "map_or", "map_or_else", "flatten", "into_iter", "iter", "unwrap", "expect", "and_then", "or_else", "or", "map", "map_err", "inspect_err")
TRANSPARENT_RESULT = ("map_err", "map", "and_then", "inspect_err", "inspect", "with_context", "context", "or_else")


def result_consumers(fn, call, depth=0):
    """Classify what happens to the value produced by `call` (normally a Result):
    set of tags among: 'try' (? operator), 'returned', 'match' (discriminant inspected),
    'await' (into_future -> followed through the await), 'method:<name>' (Result/Option adaptor),
    'arg:<callee>' (passed to another call), 'dropped' (never used), 'stored'."""
    tags = set()
    seen = set()
    work = [place_local(call.dest)]
    while work:
        l = work.pop()
        if l in seen:
            continue
        seen.add(l)
        us = uses_of_local(fn, l)
        if not us:
            tags.add("dropped")
        for u in us:
            if u[0] == "ret":
                tags.add("returned")
            elif u[0] == "switch":
                tags.add("match")
            elif u[0] == "store":
                pass
            elif u[0] == "stmt":
                dst, rv = u[2], u[3]
                if rv[0] == "discr":
                    if not fn.local_ty(l).startswith("std::task::Poll<"):
                        tags.add("match")
                elif rv[0] in ("use", "ref", "cast", "agg", "raw"):
                    if "|" in dst:
                        tags.add("stored")
                    else:
                        work.append(place_local(dst))
                else:
                    tags.add("op:" + rv[0])
            elif u[0] == "call":
                c = u[1]
                nm = c.name.rsplit("::", 1)[-1]
                if c.callee.endswith("Future::poll") or c.callee.endswith("IntoFuture::into_future"):
                    nm = c.callee.rsplit("::", 1)[-1]
                if c.is_("Try::branch") or nm == "branch":
                    tags.add("try")
                elif nm in ("into_future", "poll", "new_unchecked", "get_context", "deref", "deref_mut", "as_mut", "as_ref", "borrow", "borrow_mut"):
                    work.append(place_local(c.dest))
                elif nm in TRANSPARENT_RESULT and ("Result" in c.self_ty or "Option" in c.self_ty) and u[2] == 0:
                    tags.add("via:" + nm)
                    work.append(place_local(c.dest))
                elif ("Result" in c.self_ty or "Option" in c.self_ty) and u[2] == 0:
                    tags.add("method:" + nm)
                else:
                    tags.add("arg:" + c.name)
    return tags


def propagates(tags):
    """the Result is not silently discarded: it is ?-ed, returned, matched, or handed on"""
    bad = {t for t in tags if t.startswith("method:") and t.split(":", 1)[1] in
           ("ok", "unwrap_or", "unwrap_or_default", "unwrap_or_else", "is_ok", "is_err", "err", "map_or", "map_or_else", "flatten", "is_ok_and", "is_err_and", "iter", "into_iter")}
    if bad or "dropped" in tags:
        return False
    return bool(tags & {"try", "returned", "match"}) or any(t.startswith("method:unwrap") or t.startswith("method:expect") or t.startswith("arg:") or t == "stored" for t in tags)


# ----------------------------------------------------------------------------- match arms (HIR) <-> MIR by source lines
def find_match(fn, scrut_suffix, min_arms=1):
    ms = [m for m in fn.raw["matches"] if m["kind"] == "match" and (m["scrut"] == scrut_suffix or m["scrut"].endswith("::" + scrut_suffix)) and len(m["arms"]) >= min_arms]
    return ms


def arm_for(m, variant_suffix):
    """arms whose pattern alternatives include the variant (by path suffix)"""
    out = []
    for a in m["arms"]:
        for alt in pat_alternatives(a["pat"]):
            h = pat_head(alt)
            if h == variant_suffix or h.endswith("::" + variant_suffix):
                out.append(a)
                break
    return out


def in_span_lines(span, line):
    return span[0] <= line <= span[2]


def calls_in_lines(fn, span):
    return [c for c in fn.calls() if span_contains(span, c.span) or (span[0] < c.span[0] < span[2])]


def stmts_in_lines(fn, span):
    return [(i, j, dst, rv, line) for i, j, dst, rv, line in fn.stmts() if span[0] <= line <= span[2]]


def ok_value_blocks(fn):
    """blocks that construct the function's success value: `Ok(..)`/`Some(..)` aggregates whose destination has the
    function's return type (local 0, or async_trait's `__ret` local inside the coroutine body)"""
    tys = {fn.local_ty(0)}
    for l in fn.locals_named("__ret"):
        tys.add(fn.local_ty(l))
    out = []
    for i, j, dst, rv, line in fn.stmts():
        if rv[0] == "agg" and rv[1] in ("adt:std::result::Result::Ok", "adt:std::option::Option::Some") and "|" not in dst and fn.local_ty(place_local(dst)) in tys:
            out.append(i)
    return sorted(set(out))
