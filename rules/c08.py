"""C08 Running out of memory budget never changes an answer — structural clauses."""
from qe import *
import k9
import kerr
import guards

CLAIMS = ("R1 in ExternalSortExec::execute every path that sorts (reads order_by, directly or through generate_runs/merge_runs) and reaches a normal return also reads the fetch limit (a fused ORDER BY..LIMIT must be truncated on the spill path too); "
          "R2 wherever a value derived from SortExpr::direction decides `descending` of an arrow SortOptions or a conditional Ordering::reverse(), the same site takes NULL placement from SortExpr::nulls (never a constant); "
          "R4 every call of the inner-join-only spill probe (probe_partition) is dominated by the `join_type == Inner` and `filter.is_none()` tests; "
          "R5 in the spilled sort (generate_runs, merge, streaming_k_way_merge) and spilled aggregation, evaluation errors are propagated, never turned into 'rows compare equal'; "
          "R7 the spilled sort never decides an order from a subset of the keys: inside ExternalSortExec the order_by list is only iterated whole or handed on whole (no first()/last()/get(i)/[i]/split on it); "
          "R8 the partition router shared by the spilled join and the spilled aggregation (partition_batch_by_hash) sends every input row to exactly one partition: each iteration of its row loop reaches the push, on every path (a skipped row is a lost group for GROUP BY / DISTINCT / UNION once they spill); "
          "R9 in the k-way merge, buffered (run,row) references are resolved before the run buffer they point into is replaced or dropped: no path leads from a push onto the pending-rows list to a store into a run buffer without passing a flush (clear of that list, or its is_empty() == true edge).")
NOT_DECIDED = "equality of spilled and in-memory answers in general (values); compare_array_values' unsupported-type fallback is reported under C01.R2."

SP = "physical::operators::spillable"
ES = SP + "::ExternalSortExec"
SE = "planner::logical_expr::SortExpr"
TRAIT = "physical::plan::PhysicalOperator"


def reads_field_transitively(F, path, field, adt, depth=3, seen=None):
    seen = seen if seen is not None else set()
    root = F.bodies[path].get("root") or path
    if root in seen or depth < 0:
        return False
    seen.add(root)
    for g in F.family(root):
        for bb, acc, fld, a, line in g.field_accesses():
            if (fld, a) == (field, adt):
                return True
        for c in g.calls():
            if c.name in F.bodies and F.bodies[c.name]["self_ty"] == adt:
                if reads_field_transitively(F, c.name, field, adt, depth - 1, seen):
                    return True
    return False


def run(F, R):
    R.rule("C08.R1", "K7 field implication on paths", "ExternalSortExec::execute: reads(order_by) on a path to Ok-return => reads(fetch) on that path")
    R.rule("C08.R2", "K5/K7 sibling agreement", "direction-derived `descending`/reverse() sites also use SortExpr.nulls")
    R.rule("C08.R4", "K3", "probe_partition calls dominated by join_type == Inner and filter.is_none()")
    R.rule("C08.R5", "K-ERR", "no swallowed evaluation error on the spill paths")
    ex = F.fn("<" + ES + " as " + TRAIT + ">::execute::{closure#0}")

    def blocks_reading(field):
        out = set()
        for bb, acc, fld, a, line in ex.field_accesses():
            if (fld, a) == (field, ES):
                out.add(bb)
        for c in ex.calls():
            if c.name in F.bodies and F.bodies[c.name]["self_ty"] == ES and reads_field_transitively(F, c.name, field, ES):
                out.add(c.bb)
        return out
    A = blocks_reading("order_by")
    B = blocks_reading("fetch")
    R.floor("C08.R1", "blocks that sort in ExternalSortExec::execute", len(A), 2)
    okrets = ok_value_blocks(ex)
    R.floor("C08.R1", "Ok(..) constructions in ExternalSortExec::execute", len(okrets), 2)
    rets = set(okrets)
    bad = []
    for a in sorted(A):
        reach = ex.reachable(a, avoid=frozenset(B - {a})) if a not in B else set()
        hit = [r for r in rets if r in reach]
        if hit:
            bad.append((a, hit))
    R.check(not bad, "C08.R1", "ExternalSortExec::execute:sort=>fetch", "a path sorts (generate_runs/merge_runs) and returns without ever reading self.fetch: a spilled ORDER BY .. LIMIT k returns every row", ex.loc(bad[0][0]) if bad else ex.loc(), dict(sort_blocks=sorted(A), fetch_blocks=sorted(B), offending=[(a, h[:2]) for a, h in bad][:3]))

    # ---- R2
    n = 0
    seen_roots = set()
    for g in F.fns_touching("direction", SE):
        if not g.file.startswith("src/physical/"):
            continue
        dir_src = lambda k, x: (k == "place" and ("direction", SE) in place_fields(x)) or None
        nul_src = lambda k, x: (k == "place" and ("nulls", SE) in place_fields(x)) or None
        # (a) SortOptions literals
        for i, j, dst, rv, line in g.stmts():
            if rv[0] == "agg" and rv[1].endswith("::SortOptions") and "descending" in rv[3]:
                m = dict(zip(rv[3], rv[2]))
                if derives_from(g, [m["descending"]], dir_src):
                    n += 1
                    # `matches!(s.nulls, NullsFirst)` is control-derived: the operand is a non-constant local and the
                    # function (family) reads SortExpr.nulls
                    fam_reads = any((fld, a) == ("nulls", SE) for h in F.family(F.bodies[g.path].get("root") or g.path) for bb, acc, fld, a, line in h.field_accesses())
                    ok = (bool(derives_from(g, [m["nulls_first"]], nul_src)) or (fam_reads and origin(g, m["nulls_first"])[0] in ("multi", "rv", "call"))) and not op_is_const(m["nulls_first"])
                    R.check(ok, "C08.R2", f"{g.path}:SortOptions", "descending comes from the ORDER BY direction but nulls_first does not come from its NULLS FIRST/LAST clause", g.loc(i), dict(nulls_first=k9.kexpr(g, m["nulls_first"])[:80]))
        # (b) conditional reverse()
        revs = [c for c in g.calls() if c.name.endswith("Ordering::reverse")]
        for c in revs:
            ctrl = False
            from c15 import controlling_switches
            for sb, val in controlling_switches(g, c.bb):
                si = g.switch_info(sb)
                if si[0] == "bool" and si[1] and derives_from(g, ["c:" + si[1]], dir_src):
                    ctrl = True
                if si[0] == "enum" and derives_from(g, ["c:" + si[1][0]], dir_src):
                    ctrl = True
            if ctrl:
                n += 1
                reads_nulls = any((fld, a) == ("nulls", SE) for bb, acc, fld, a, line in g.field_accesses())
                R.check(reads_nulls, "C08.R2", f"{g.path}:reverse()", "a comparator reverses on DESC but never consults SortExpr.nulls: NULL placement follows the direction instead of the NULLS FIRST/LAST clause", g.loc(c.bb), dict())
                # what is reversed must be the VALUE comparison only: an Ordering::Less/Greater constant in the operand's
                # slice is a NULL-placement decision, and reversing it makes NULLS FIRST/LAST follow the direction
                consts = []
                defs_ = g.defs()
                seen_, work_ = set(), [c.args[0]]
                while work_:
                    o_ = work_.pop()
                    if isinstance(o_, dict):
                        continue
                    q = op_place(o_) if (len(o_) > 1 and o_[1] == ":") else o_
                    if not q:
                        continue
                    l_ = place_local(q)
                    if l_ in seen_:
                        continue
                    seen_.add(l_)
                    for bb_, kind_, pay_ in defs_.get(l_, []):
                        if kind_ == "call":
                            continue
                        dst_, rv_, line_ = pay_
                        if rv_[0] == "agg" and rv_[1] in ("adt:std::cmp::Ordering::Less", "adt:std::cmp::Ordering::Greater"):
                            consts.append(rv_[1].rsplit("::", 1)[-1])
                        elif rv_[0] == "use":
                            work_.append(rv_[1])
                        elif rv_[0] in ("ref", "cast"):
                            work_.append(rv_[2])
                R.check(not consts, "C08.R2", f"{g.path}:reverse()-operand", f"DESC reverses an ordering that was chosen by NULL placement (constants {sorted(set(consts))} flow into reverse()): with a DESC key NULLS FIRST/LAST is inverted in this comparator, while the per-run sort honours the clause", g.loc(c.bb), dict())
    R.floor("C08.R2", "direction-driven comparator sites", n, 3)

    # ---- R5
    nerr = 0
    for root in (ES + "::generate_runs", ES + "::merge_runs", ES + "::multi_pass_merge", ES + "::streaming_k_way_merge", ES + "::flush_run"):
        for g in F.family(root):
            for c, tags, ok in kerr.audit(F, g):
                nerr += 1
                R.check(ok, "C08.R5", f"{g.path}:{c.name.rsplit('::', 1)[-1]}#{_ord(g, c)}", f"an error on the spill path is swallowed ({sorted(tags)}): rows would silently compare equal / be skipped", g.loc(c.bb), dict(consumers=sorted(tags)))
    R.floor("C08.R5", "fallible calls audited on the spilled-sort path", nerr, 8)

    # ---- R4
    PP = SP + "::probe_partition"
    if PP not in F.bodies:
        raise Broken("probe_partition not found")
    SJ = SP + "::SpillableHashJoinExec"
    gate = SJ + "::execute_spill_path"
    # S = functions of spillable.rs from which probe_partition is reachable
    S = set()
    for p_, b_ in F.bodies.items():
        if b_["file"] == "src/physical/operators/spillable.rs" and not b_.get("root"):
            if PP in F.closure_of([p_], depth=6):
                S.add(p_)
    R.floor("C08.R4", "functions reaching probe_partition", len(S), 3)
    gfam = F.family(gate)
    inner_sites = [c for g in gfam for c in g.calls() if c.name in S and c.name != gate]
    R.floor("C08.R4", "calls toward probe_partition inside execute_spill_path", len(inner_sites), 1)
    for c in inner_sites:
        g = c.fn
        conds = [(cond, val) for sb, cond, val in guards.guards_of(g, c.bb, require_err=False)]
        inner = any(".join_type" in cd and "is Inner)" in cd and ((cd.startswith("Not(") and val is False) or (cd.startswith("matches(") and val is True)) for cd, val in conds) or \
            any(".join_type" in cd and cd.startswith("discr(") and str(val) == "Inner" for cd, val in conds)
        nofilter = any(".filter" in cd and (("is_some(" in cd and val is False) or ("is_none(" in cd and val is True) or (cd.startswith("discr(") and str(val) == "None")) for cd, val in conds)
        R.check(inner and nofilter, "C08.R4", f"execute_spill_path->{c.name.rsplit('::', 1)[-1]}", "the inner-join-only spill probe is reachable for another join type or with a residual filter", g.loc(c.bb), dict(guards=[(cd[:60], str(v)) for cd, v in conds][:8]))
    # no bypass: members of S other than the gate are called only from S
    for m in sorted(S - {gate}):
        if m == PP:
            continue
        outs = [c.fn.path for c in F.callers_of(m) if (F.bodies[c.fn.path].get("root") or c.fn.path) not in S]
        if m.startswith(SJ + "::") and m not in ("<" + SJ + " as " + TRAIT + ">::execute",):
            R.check(not outs or all("execute" in o for o in outs), "C08.R4", f"no-bypass:{m.rsplit('::', 1)[-1]}", f"{m} is called from outside the guarded spill path: {outs[:3]}", "", nontrivial=False)
    whole_key_and_routing(F, R)


def whole_key_and_routing(F, R):
    R.rule("C08.R7", "K1 access discipline", "ExternalSortExec reads order_by only by whole-list iteration or by passing it on")
    R.rule("C08.R8", "K3 post-dominance in a loop", "partition_batch_by_hash: every row-loop iteration reaches the push into a partition")
    SUBSET = ("first", "last", "get", "index", "split_first", "split_last", "split_at", "get_unchecked", "first_mut", "nth", "take", "skip", "step_by")
    n = 0
    bad = []
    for g in F.in_file("src/physical/operators/spillable.rs"):
        b = F.bodies[g.path]
        root = b.get("root") or g.path
        if not b["file"].endswith("operators/spillable.rs") or F.bodies[root].get("self_ty") != ES:
            continue
        for c in g.calls():
            if not c.args:
                continue
            recv = derives_from(g, [c.args[0]], lambda k, x: (k == "place" and ("order_by", ES) in place_fields(x) and x) or None, through_calls=False)
            if not recv:
                # through deref / as_slice adaptors
                recv = derives_from(g, [c.args[0]], lambda k, x: (k == "place" and ("order_by", ES) in place_fields(x) and x) or None,
                                    stop=lambda c_: c_.name.rsplit("::", 1)[-1] not in ("deref", "as_slice", "as_ref", "borrow", "clone"))
            if not recv:
                continue
            n += 1
            last = c.name.rsplit("::", 1)[-1]
            if last in SUBSET and ("SortExpr" in (c.self_ty or "") or "SortExpr" in " ".join(c.argtys or [])):
                bad.append((g, c, last))
    R.floor("C08.R7", "uses of ExternalSortExec.order_by", n, 4)
    seen = set()
    for g, c, last in bad:
        root = F.bodies[g.path].get("root") or g.path
        if (root, last) in seen:
            continue
        seen.add((root, last))
        R.bad("C08.R7", f"{root}:order_by.{last}", f"the spilled sort takes `{last}` of its ORDER BY list: a decision made from a subset of the sort keys (e.g. only the leading key) leaves rows that tie on it in arrival order, so the spilled answer differs from the in-memory one", g.loc(c.bb), dict())
    R.ok("C08.R7", "order_by:whole-list-only", dict(uses=n, subset_uses=len(seen)))
    # ---- R8
    pb = F.fn(SP + "::partition_batch_by_hash")
    loops = []
    for sb in range(pb.n):
        si = pb.switch_info(sb)
        if not si or si[0] != "enum" or "Some" not in si[2]:
            continue
        o = origin(pb, "c:" + si[1][0])
        if o[0] == "call" and o[1].name.rsplit("::", 1)[-1] == "next" and "Range<usize>" in (o[1].self_ty or ""):
            loops.append((sb, o[1], si[2]["Some"]))
    pushes = [c for c in pb.calls() if c.name.endswith("Vec::<T, A>::push") and c.argtys and c.argtys[-1] == "usize"]
    R.floor("C08.R8", "row loops in partition_batch_by_hash", len(loops), 1)
    R.floor("C08.R8", "row-index pushes", len(pushes), 1)
    for sb, nx, body in loops[:1]:
        # a path from the loop body back to the loop's `next` that avoids every push = a row that is routed nowhere
        avoid = frozenset(c.bb for c in pushes)
        skips = nx.bb in pb.reachable(body, avoid=avoid)
        R.check(not skips, "C08.R8", "partition_batch_by_hash:every-row-routed", "an iteration of the row loop can reach the next row without pushing the row into any partition: the router is shared with the spilled aggregation (GROUP BY / DISTINCT / UNION), where e.g. a NULL key is a legitimate group, so those rows vanish once the operator spills", pb.loc(body), dict(pushes=len(pushes)))
    # ---- R9: stale row references in the k-way merge
    R.rule("C08.R9", "K3 ordering on paths", "streaming_k_way_merge: push(pending rows) ... store(run buffer) only through a flush")
    km = F.fn(ES + "::streaming_k_way_merge")
    bmb = [c for c in km.calls() if c.name == ES + "::build_merged_batch"]
    R.floor("C08.R9", "build_merged_batch calls in streaming_k_way_merge", len(bmb), 1)
    if bmb:
        def root_(op):
            o = origin(km, op)
            n_ = 0
            while o[0] == "call" and o[1].name.rsplit("::", 1)[-1] in ("deref", "deref_mut", "as_slice", "as_mut_slice", "as_ref", "as_mut", "borrow", "borrow_mut") and n_ < 4:
                o = origin(km, o[1].args[0])
                n_ += 1
            return o
        bufs, rows = root_(bmb[0].args[1]), root_(bmb[0].args[2])
        def is_(op, what):
            o = root_(op)
            return o[0] == what[0] and (o[1] is what[1] if what[0] == "call" else o[1] == what[1])
        pushes = [c.bb for c in km.calls() if c.name.endswith("Vec::<T, A>::push") and is_(c.args[0], rows)]
        flush = {c.target if c.target is not None else c.bb for c in km.calls() if c.name.rsplit("::", 1)[-1] == "clear" and is_(c.args[0], rows)}
        for sb in range(km.n):
            si = km.switch_info(sb)
            if si and si[0] == "bool" and si[1]:
                o = origin(km, "c:" + si[1])
                if o[0] == "call" and o[1].name.rsplit("::", 1)[-1] == "is_empty" and is_(o[1].args[0], rows):
                    flush.add(si[2][True])
                elif o[0] == "rv" and o[1][0] == "un" and o[1][1] == "Not":
                    o2 = origin(km, o[1][2])
                    if o2[0] == "call" and o2[1].name.rsplit("::", 1)[-1] == "is_empty" and is_(o2[1].args[0], rows):
                        flush.add(si[2][False])
        stores = []
        for i, j, dst, rv, line in km.stmts():
            if dst.endswith("|*"):
                o = origin(km, "c:" + dst.split("|")[0])
                if o[0] == "call" and o[1].name.rsplit("::", 1)[-1] == "index_mut" and is_(o[1].args[0], bufs):
                    stores.append(i)
        R.floor("C08.R9", "stores into run buffers", len(stores), 2)
        R.floor("C08.R9", "pushes onto the pending-rows list", len(pushes), 1)
        stale = [s_ for s_ in stores if any(s_ in km.reachable(p_, avoid=frozenset(flush)) for p_ in pushes)]
        R.check(not stale, "C08.R9", "streaming_k_way_merge:flush-before-buffer-replaced", "a run buffer can be replaced or dropped while the pending-rows list still holds (run,row) references into it: those rows are later resolved against another batch (wrong/lost rows) or out of range (panic) once a run spans more than one read batch", km.loc(stale[0]) if stale else km.loc(), dict(stores=len(stores), pushes=len(pushes), flush_points=len(flush)))
    users = {F.bodies[c.fn.path].get("root") or c.fn.path for c in F.callers_of(pb.path)}
    R.ok("C08.R8", "partition_batch_by_hash:callers", dict(callers=sorted(users)), nontrivial=False)


def _ord(g, c):
    same = sorted([x for x in g.calls() if x.name == c.name], key=lambda x: (x.line, x.bb))
    return same.index(c)
