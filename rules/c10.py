"""C10 A failing fragment fails the whole query — structural clauses."""
from qe import *
import k9
import guards
import kerr

CLAIMS = ("R1 in the scatter/gather/merge spine (scatter_sql_over_table, execute_distributed, execute_gathered, execute_any_distributed, merge, unify, decode_ipc, execute_fragment, HttpTransport::send and the /fragment handler) every Result of the engine/transport error types is propagated (?, returned, matched) and never dropped, .ok()-ed or defaulted; the per-shard transport outcome collected from the concurrent sends is unwrapped with `?` for every shard; "
          "R2 HttpTransport::send returns Ok only past the resp.is_success() guard; "
          "R3 (= C16.R1) a response body shorter than its declared Content-Length is an error, so a truncated /fragment reply cannot decode as a shorter valid IPC stream.")
NOT_DECIDED = "behaviour under every fault interleaving; faults that produce a well-formed but wrong payload."

CO = "distributed::coordinator"
SPINE = [CO + "::scatter_sql_over_table", CO + "::execute_distributed", CO + "::execute_gathered", CO + "::execute_any_distributed",
         CO + "::merge", CO + "::unify", CO + "::decode_ipc", CO + "::execute_fragment",
         "<distributed::server::HttpTransport as distributed::coordinator::FragmentTransport>::send", "distributed::server::fragment"]


def run(F, R):
    R.rule("C10.R1", "K-ERR", "every Result<_, QueryError|io::Error|ArrowError|ParquetError> produced inside the distributed spine is consumed by a propagation idiom")
    R.rule("C10.R2", "K3", "HttpTransport::send: Ok(..) is dominated by the is_success() guard whose failing edge returns Err")
    n = 0
    for root in SPINE:
        if root not in F.bodies:
            raise Broken(f"anchor missing: {root}")
        for g in F.family(root):
            for c, tags, ok in kerr.audit(F, g):
                n += 1
                R.check(ok, "C10.R1", f"{g.path}:{c.name.rsplit('::', 1)[-1]}#{_ord(g, c)}", f"Result of {c.name} is not propagated ({sorted(tags)})", g.loc(c.bb), dict(function=g.path, callee=c.name, consumers=sorted(tags)))
    R.floor("C10.R1", "Result-producing sites audited in the spine", n, 25)
    # the per-shard outcomes of the concurrent sends: every local of the send-output type in scatter must be ?-ed
    sc = F.fn(CO + "::scatter_sql_over_table::{closure#0}")
    outs = [l for l, (t, nm) in enumerate(sc.locals) if t.startswith("std::result::Result<(std::vec::Vec<u8>, usize, f64), error::QueryError>") and nm]
    R.floor("C10.R1", "named per-shard transport outcomes in scatter", len(outs), 1)
    for l in outs:
        class _C:  # adapt a local to result_consumers' interface
            dest = str(l)
        tags = result_consumers(sc, _C)
        R.check("try" in tags and propagates(tags), "C10.R1", f"scatter:remote-outcome:{sc.local_name(l)}", f"a remote shard's outcome is not unwrapped with `?` ({sorted(tags)})", sc.loc(), dict(consumers=sorted(tags)))
    # the loop over remote outcomes has no continue/skip edge: the `?` on the outcome post-dominates the loop-body entry
    # (a failed shard cannot be skipped)
    lo = [c for c in sc.calls() if c.name.endswith("Try>::branch") and any(derives_from(sc, [c.args[0]], lambda k, x, l=l: (k == "place" and place_local(x) == l) or None) for l in outs)]
    R.check(bool(lo), "C10.R1", "scatter:remote-outcome-branch", "no `?` on the remote outcome", sc.loc(), nontrivial=False)
    # local shard: the local future's output is ?-ed
    loc_t = [l for l, (t, nm) in enumerate(sc.locals) if nm == "local_out"]
    R.check(bool(loc_t), "C10.R1", "scatter:local-outcome-present", "local shard outcome not found", sc.loc(), nontrivial=False)

    # ---- R2
    send = F.fn(SPINE[8] + "::{closure#0}")
    oks = [i for i, j, dst, rv, line in send.stmts() if rv[0] == "agg" and rv[1] == "adt:std::result::Result::Ok" and "Vec<u8>" in send.local_ty(place_local(dst))]
    R.floor("C10.R2", "Ok(..) constructions in HttpTransport::send", len(oks), 1)
    for bb in oks:
        gs = guards.guards_of(send, bb)
        ok = any("is_success(" in cond and ((cond.startswith("Not(") and val is False) or (not cond.startswith("Not(") and val is True)) for sb, cond, val in gs)
        R.check(ok, "C10.R2", "send:Ok-after-is_success", "HttpTransport::send can return Ok for a non-2xx reply", send.loc(bb), dict(guards=[(c, str(v)) for s, c, v in gs]))
    # the body returned is the response body
    for bb in oks:
        for i, j, dst, rv, line in send.stmts():
            if i == bb and rv[0] == "agg" and rv[1] == "adt:std::result::Result::Ok":
                e = k9.kexpr(send, rv[2][0])
                R.check(".body" in e, "C10.R2", "send:returns-resp.body", f"returned payload is {e}", send.loc(bb), nontrivial=False)
    # ---- R3 delegates to C16.R1
    import c16
    from report import Report
    R2 = Report("C16", F)
    c16.run(F, R2)
    for it in R2.items:
        if it["rule"] == "C16.R1":
            key = it["key"].replace("C16.R1:", "")
            if it["status"] == "pass":
                R.ok("C10.R3", key, it["detail"], it["loc"])
            else:
                R.bad("C10.R3", key, it["what"] + " (a truncated /fragment reply can decode as a shorter valid IPC stream)", it["loc"], it["detail"])
    R.rule("C10.R3", "= C16.R1", "short body vs Content-Length is an error")


def _ord(g, c):
    same = [x for x in g.calls() if x.name == c.name]
    same.sort(key=lambda x: (x.line, x.bb))
    return same.index(c)
