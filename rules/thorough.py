"""Thorough tier: re-extract, then prove each rule of the property fires on its mutants.

A mutant is /verif/mutants/<PID>-<name>.patch, a unified diff against /repo with header lines
  # expect: <violation key>          (one or more; all must be reported on the mutated tree)
  # what: <one line>
The mutated tree is a scratch copy of /repo's *current working tree* sources (never /repo itself),
removed right after.  Nothing is executed: the mutated copy is only type-checked and analysed.
A mutant that does not apply, does not compile, or is not reported makes the check BROKEN (exit 2):
that is a defect of the checker, not of the repository.
"""
import glob
import os
import shutil
import subprocess
import tempfile

import qe
from report import Report, load_known

VERIF = qe.VERIF


def scratch_copy():
    base = os.environ.get("QE_SCRATCH", "/var/tmp")
    d = tempfile.mkdtemp(prefix="qe-verif-mut-", dir=base)
    for item in ("src", "Cargo.toml", "Cargo.lock", "build.rs", "benches", "examples", "tests"):
        s = os.path.join(qe.REPO, item)
        if os.path.isdir(s):
            shutil.copytree(s, os.path.join(d, item), symlinks=True)
        elif os.path.exists(s):
            shutil.copy2(s, os.path.join(d, item))
    return d


def parse_mutant(path):
    exp, what = [], ""
    for line in open(path):
        if line.startswith("# expect:"):
            exp.append(line.split(":", 1)[1].strip())
        elif line.startswith("# what:"):
            what = line.split(":", 1)[1].strip()
    return exp, what


def run_mutant(pid, mod, patch, slot=0):
    exp, what = parse_mutant(patch)
    if not exp:
        raise qe.Broken(f"mutant {patch} has no '# expect:' header")
    d = scratch_copy()
    try:
        r = subprocess.run(["patch", "-p1", "--no-backup-if-mismatch", "-s", "-i", patch], cwd=d, capture_output=True, text=True)
        if r.returncode != 0:
            raise qe.Broken(f"mutant {os.path.basename(patch)} does not apply to the current tree: {r.stdout[-400:]} {r.stderr[-400:]}")
        F = qe.load_facts_uncached(d, slot)
        R = Report(pid, F)
        mod.run(F, R)
        keys = {i["key"] for i in R.items if i["status"] == "violation"}
        missing = [e for e in exp if e not in keys]
        return dict(mutant=os.path.basename(patch), what=what, expected=exp, reported=sorted(keys), fired=not missing, missing=missing)
    finally:
        shutil.rmtree(d, ignore_errors=True)


def _worker(args):
    pid, slot, patches = args
    import importlib
    mod = importlib.import_module(pid.lower())
    out = []
    for p in patches:
        try:
            out.append(run_mutant(pid, mod, p, slot))
        except qe.Broken as e:
            out.append(dict(mutant=os.path.basename(p), what="", expected=parse_mutant(p)[0], reported=[], fired=False, missing=["BROKEN: " + str(e)[-600:]]))
    return out


def run(pid, mod, R):
    res = []
    base_viol = {i["key"] for i in R.items if i["status"] == "violation"}
    patches = sorted(glob.glob(os.path.join(VERIF, "mutants", f"{pid}-*.patch")))
    jobs = max(1, min(int(os.environ.get("QE_MUT_JOBS", "4")), len(patches) or 1))
    base_slot = int(os.environ.get("QE_MUT_SLOT0", "0"))
    parts = [(pid, base_slot + k, patches[k::jobs]) for k in range(jobs)]
    if jobs == 1:
        outs = [_worker(parts[0])]
    else:
        import multiprocessing
        with multiprocessing.get_context("fork").Pool(jobs) as pool:
            outs = pool.map(_worker, parts)
    for m in sorted((m for o in outs for m in o), key=lambda m: m["mutant"]):
        # the expected keys must not already be reported on the unmodified tree (else the mutant proves nothing)
        m["already_on_base"] = [e for e in m["expected"] if e in base_viol]
        res.append(m)
    R.extra["mutants_fired"] = res
    R.extra["mutants_total"] = len(res)
    bad = [m for m in res if not m["fired"] or m["already_on_base"]]
    if bad:
        raise qe.Broken("mutant(s) not detected: " + "; ".join(f"{m['mutant']} missing={m['missing']} already={m['already_on_base']}" for m in bad))
    wit = getattr(mod, "witnesses", None)
    if wit:
        R.extra["witnesses"] = wit(R)
