"""C13 Shard scans reassemble the table exactly — structural clauses."""
from qe import *
import k9
import guards

CLAIMS = ("R1 ShardedParquetTable::parquet_files returns None on every path and the impl does not override distributed_splits/shard_by_splits (a shard is never handed to a whole-file fast path nor re-sharded); "
          "R2 in read_split the reader build is dominated by the row-group-index refusal and the row_offset+num_rows > row-group-rows refusal, both returning Err; "
          "R3 the RowSelection is built from both row_offset (skip) and num_rows (select) of the split, under the is_whole_row_group test, and with_row_groups receives exactly the split's row group; "
          "R4 shard_by_splits is called only from shard_context, and scan_impl maps read_split over every split and propagates each error; "
          "R5 each provider that implements shard_by_splits builds the shard from exactly the splits it was given.")
NOT_DECIDED = "that the union of reads equals the table (follows from C11/C12 clauses plus the Parquet reader's RowSelection semantics, which are trusted)."

T = "distributed::shard::ShardedParquetTable"
SPLIT = "distributed::splits::Split"
TP = "physical::operators::scan::TableProvider"


def run(F, R):
    R.rule("C13.R1", "K4 result class / impl facts", "parquet_files of the shard provider is the constant None; distributed_splits and shard_by_splits are not overridden")
    R.rule("C13.R2", "K3 dominance", "reader build() in read_split is dominated by both range refusals")
    R.rule("C13.R3", "K7 field pairing", "RowSelection uses skip(row_offset) and select(num_rows); with_row_groups(vec![row_group])")
    R.rule("C13.R4", "K1/K-ERR", "shard_by_splits only from shard_context; scan_impl reads every split via read_split and propagates errors")
    ims = [im for im in F.impls_of(TP) if im["self_ty"] == T]
    if len(ims) != 1:
        raise Broken(f"impl TableProvider for ShardedParquetTable: {len(ims)}")
    meths = dict(ims[0]["methods"])
    pf = F.fn(meths["parquet_files"]) if "parquet_files" in meths else None
    if pf is None:
        R.ok("C13.R1", "parquet_files:default-None", dict(note="not overridden; trait default returns None"), nontrivial=False)
        d = F.fn(TP + "::parquet_files")
        pf = d
    vals = [rv for i, j, dst, rv, line in pf.stmts() if dst == "0"]
    only_none = bool(vals) and all(rv[0] == "agg" and rv[1] == "adt:std::option::Option::None" for rv in vals) and not pf.calls()
    R.check(only_none, "C13.R1", "parquet_files:always-None", "a shard exposes file paths: whole-file fast paths would read every row on every node", pf.loc(), dict(function=pf.path, return_values=[rv[1] if rv[0] == "agg" else rv[0] for rv in vals]))
    for m in ("distributed_splits", "shard_by_splits"):
        R.check(m not in meths, "C13.R1", f"no-override:{m}", f"the shard provider overrides {m}", "", dict(overridden=sorted(meths)), nontrivial=False)

    f = F.fn(T + "::read_split")
    builds = [c for c in f.calls() if c.name.endswith("ParquetRecordBatchReaderBuilder::<T>::build") or (c.name.rsplit("::", 1)[-1] == "build" and "ReaderBuilder" in c.self_ty)]
    R.floor("C13.R2", "reader build() calls in read_split", len(builds), 2)
    for bi, c in enumerate(sorted(builds, key=lambda c: c.line)):
        gs = guards.guards_of(f, c.bb)
        conds = [(cond, val) for sb, cond, val in gs]
        g1 = any(cond.startswith("Ge(") and ".row_group," in cond and "num_row_groups(" in cond and val is False for cond, val in conds) or \
             any(cond.startswith("Lt(") and ".row_group," in cond and "num_row_groups(" in cond and val is True for cond, val in conds)
        g2 = any(cond.startswith("Gt(Add") and ".row_offset" in cond and ".num_rows" in cond and "num_rows(" in cond and val is False for cond, val in conds) or \
             any(cond.startswith("Le(Add") and ".row_offset" in cond and ".num_rows" in cond and "num_rows(" in cond and val is True for cond, val in conds)
        R.check(g1, "C13.R2", f"read_split:build#{bi}:row-group-index-guard", "reader built without the `row_group >= num_row_groups => Err` refusal", f.loc(c.bb), dict(guards=conds))
        R.check(g2, "C13.R2", f"read_split:build#{bi}:row-range-guard", "reader built without the `row_offset + num_rows > rg_rows => Err` refusal", f.loc(c.bb), dict(guards=conds))
    # the rows bound is taken from the split's own row group
    rg = [c for c in f.calls() if c.name.rsplit("::", 1)[-1] == "row_group" and "ParquetMetaData" in c.self_ty]
    R.check(bool(rg) and all(k9.kexpr(f, c.args[1]).endswith(".row_group") for c in rg), "C13.R2", "read_split:rg_rows-of-split-row-group", "row-group row count is not read for split.row_group", f.loc(), nontrivial=False)

    # ---- R3
    sk = [c for c in f.calls() if c.name.endswith("RowSelector::skip")]
    se = [c for c in f.calls() if c.name.endswith("RowSelector::select")]
    R.floor("C13.R3", "RowSelector::skip/select", len(sk) + len(se), 2)
    oks = all(".row_offset" in k9.kexpr(f, c.args[0]) for c in sk) and bool(sk)
    okn = all(".num_rows" in k9.kexpr(f, c.args[0]) for c in se) and bool(se)
    R.check(oks, "C13.R3", "selection:skip(row_offset)", "the selection does not skip row_offset rows", f.loc(sk[0].bb) if sk else f.loc(), dict(expr=[k9.kexpr(f, c.args[0]) for c in sk]))
    R.check(okn, "C13.R3", "selection:select(num_rows)", "the selection does not select num_rows rows", f.loc(se[0].bb) if se else f.loc(), dict(expr=[k9.kexpr(f, c.args[0]) for c in se]))
    # select is pushed whenever a selection is built: select post-dominates the is_whole_row_group false edge... check: every with_row_selection call is dominated by a select call
    wrs = [c for c in f.calls() if c.name.rsplit("::", 1)[-1] == "with_row_selection"]
    R.check(bool(wrs) and all(any(f.dominates(s.bb, w.bb) for s in se) for w in wrs), "C13.R3", "selection:select-always-in-selection", "a RowSelection can be built without the select(num_rows) selector", f.loc(), dict(n=len(wrs)))
    # skip is guarded only by row_offset > 0
    for c in sk:
        from c15 import controlling_switches
        gs = [g for g in controlling_switches(f, c.bb) if g not in set(controlling_switches(f, se[0].bb))] if se else []
        okg = all(k9.kexpr(f, "c:" + f.switch_info(sb)[1]).startswith("Gt(") and ".row_offset,#0)" in k9.kexpr(f, "c:" + f.switch_info(sb)[1]) and val is True for sb, val in gs if f.switch_info(sb)[0] == "bool")
        R.check(okg and len(gs) <= 1, "C13.R3", "selection:skip-guard", "skip(row_offset) is omitted under a condition other than row_offset == 0", f.loc(c.bb), dict(guards=[k9.kexpr(f, "c:" + f.switch_info(sb)[1]) for sb, v in gs]))
    # whole-row-group shortcut only under is_whole_row_group(rg_rows)
    builds_no_sel = [b for b in builds]
    iw = [c for c in f.calls() if c.name == SPLIT + "::is_whole_row_group"]
    R.check(len(iw) == 1 and "num_rows(" in k9.kexpr(f, iw[0].args[1]), "C13.R3", "selection:whole-row-group-test", "the no-selection path is not gated by is_whole_row_group(rows of that row group)", f.loc(), dict(n=len(iw)))
    iwf = F.fn(SPLIT + "::is_whole_row_group")
    ke = k9.kexpr(iwf, "c:0")
    R.check(len(iwf.calls()) == 0 and set(x for b, a, x, adt, l in iwf.field_accesses()) == {"row_offset", "num_rows"}, "C13.R3", "is_whole_row_group:reads-offset-and-rows", f"is_whole_row_group reads {sorted(set(x for b,a,x,adt,l in iwf.field_accesses()))}", iwf.loc(), nontrivial=False)
    wrg = [c for c in f.calls() if c.name.rsplit("::", 1)[-1] == "with_row_groups"]
    okw = False
    for c in wrg:
        els = k9.vec_literal_elems(f, c.args[1])
        okw = els is not None and len(els) == 1 and els[0].endswith(".row_group")
        R.extra.setdefault("c13_with_row_groups", els)
    R.check(okw and all(any(f.dominates(w.bb, b.bb) for w in wrg) for b in builds), "C13.R3", "with_row_groups(split.row_group)", "the reader is not restricted to exactly the split's row group", f.loc(), dict(n=len(wrg)))

    # ---- R4
    callers = {c.fn.path for c in F.callers_of(TP + "::shard_by_splits")}
    R.check(callers == {"distributed::coordinator::shard_context"}, "C13.R4", "shard_by_splits:only-from-shard_context", f"shard_by_splits called from {sorted(callers)}", "", nontrivial=False)
    si = F.fn(T + "::scan_impl")
    fam = F.family(si.path)
    rs = [c for g in fam for c in g.calls() if c.name == T + "::read_split"]
    R.floor("C13.R4", "read_split calls in scan_impl", len(rs), 1)
    # the closure's result (a Result) is returned from the closure, and the collect::<Result<Vec>> is ?-ed
    for c in rs:
        tags = result_consumers(c.fn, c)
        R.check("returned" in tags or "try" in tags, "C13.R4", "scan_impl:read_split-error-propagated", f"a failing split is dropped ({sorted(tags)})", c.fn.loc(c.bb), dict(consumers=sorted(tags)))
    col = [c for c in si.calls() if c.name.rsplit("::", 1)[-1] == "collect" and "Result<" in F.fn(si.path).local_ty(place_local(c.dest))]
    R.check(bool(col) and all("try" in result_consumers(si, c) for c in col), "C13.R4", "scan_impl:collect-result-?", "the per-split Results are not collected into a Result that is propagated", si.loc(), dict(n=len(col)))
    its = [c for c in si.calls() if c.name.rsplit("::", 1)[-1] in ("par_iter", "iter", "into_par_iter", "into_iter") and ("Split" in c.self_ty + " ".join(c.argtys))]
    srcs = [k9.kexpr(si, c.args[0]) for c in its]
    # the assigned splits are read one by one exactly as assigned: no regrouping/merging function between self.splits and read_split
    def regroup_ok(e):
        if e == "⟨1⟩.splits":
            return True
        # splits pass through an in-crate regrouping function: it must at least tell row groups apart (row offsets
        # are relative to the row group), i.e. read Split.row_group as well as the offsets
        import re
        fns = [x for x in re.findall(r"([A-Za-z_:<>]+)\(", e) if x in F.bodies]
        if not fns:
            return False
        for fnp in fns:
            rd = {fld for g in F.family(fnp) for bb, acc, fld, a, line in g.field_accesses() if a == SPLIT}
            if not {"row_group", "row_offset", "num_rows"} <= rd:
                return False
        return True
    R.check(bool(its) and all(regroup_ok(e) for e in srcs), "C13.R4", "scan_impl:reads-each-assigned-split-as-is", f"read_split is not mapped directly over self.splits (source: {[e[:60] for e in srcs]}): splits regrouped before reading can cross row-group boundaries, whose row offsets are relative", si.loc(), dict(sources=[e[:80] for e in srcs]))
    # no filter/skip/take adaptor on the split iterator
    bad = [c.name for c in si.calls() if c.name.rsplit("::", 1)[-1] in ("filter", "skip", "take", "step_by", "filter_map", "take_while", "skip_while") ]
    R.check(not bad, "C13.R4", "scan_impl:no-split-dropping-adaptor", f"split iteration passes through {bad}", si.loc(), nontrivial=False)

    # ---- R5 providers implementing shard_by_splits hand exactly their argument to ShardedParquetTable::new
    impls = []
    for im in F.impls_of(TP):
        mp = dict(im["methods"]).get("shard_by_splits")
        if mp and mp in F.bodies:
            impls.append((im["self_ty"], F.fn(mp)))
    R.floor("C13.R5", "providers implementing shard_by_splits", len(impls), 1)
    for ty, g in impls:
        news = [c for c in g.calls() if c.name == T + "::new"]
        ok = bool(news)
        for c in news:
            e = k9.kexpr(g, c.args[1])
            ok = ok and "⟨2⟩" in e and not any(x.name.rsplit("::", 1)[-1] in ("filter", "skip", "take", "retain", "dedup", "truncate") for x in g.calls())
        R.check(ok, "C13.R5", f"{ty}:shard-from-given-splits", "the shard provider is not built from exactly the given splits", g.loc(), dict(new_calls=len(news)))
