"""Shared rule: `Split::file` is a bare file name (not unique across directories).  It is display / digest material only; the
data identity of a split is `Split::path`.  Any lookup, memo or comparison keyed by `Split::file` outside splits.rs applies one
file's facts (pruning results, offsets, caches) to another file that merely shares its name."""
from qe import *

SPLIT = "distributed::splits::Split"
ALLOWED_FNS = ("distributed::splits::Split::canonical_key", "distributed::splits::SplitSet::digest")
KEYED = ("get", "get_mut", "insert", "contains_key", "contains", "entry", "remove", "get_or_insert_with", "get_key_value")
CMPS = ("eq", "ne", "cmp", "partial_cmp", "hash")


def run(F, R, rid):
    R.rule(rid, "K5 taint / K1 who-may-read", "Split::file (a bare file name) never keys a map/set lookup or an equality test outside splits.rs's canonical order and digest; the identity used to reach data or per-file facts is Split::path")
    n = 0
    bad = []
    for g in F.fns_touching("file", SPLIT):
        b = F.bodies[g.path]
        if b.get("impl_trait") or g.path in ALLOWED_FNS or (b.get("root") or "") in ALLOWED_FNS or "::_::" in g.path:
            continue   # derives (Clone/Debug/PartialEq/Serialize), the canonical key and the digest
        seeds = []
        for i, j, dst, rv, line in g.stmts():
            pl = op_place(rv[1]) if rv[0] == "use" else (rv[2] if rv[0] == "ref" else None)
            if pl and (("file", SPLIT) in place_fields(pl)) and "|" not in dst:
                seeds.append(place_local(dst))
        for c in g.calls():
            for ai, a in enumerate(c.args):
                pl = op_place(a)
                if pl and ("file", SPLIT) in place_fields(pl):
                    seeds.append(("call", c, ai))
        n += len(seeds)
        tainted, work = set(), []
        for s_ in seeds:
            if isinstance(s_, tuple):
                _consume(g, s_[1], s_[2], bad, work)
            else:
                work.append(s_)
        while work:
            l = work.pop()
            if l in tainted:
                continue
            tainted.add(l)
            for u in uses_of_local(g, l):
                if u[0] == "stmt":
                    dst, rv = u[2], u[3]
                    if rv[0] in ("use", "ref", "cast") and "|" not in dst:
                        work.append(place_local(dst))
                    elif rv[0] == "agg" and rv[1] == "tuple" and "|" not in dst:
                        work.append(place_local(dst))
                    elif rv[0] == "bin" and rv[1] in ("Eq", "Ne"):
                        bad.append((g, u[1], "compared with =="))
                elif u[0] == "call":
                    _consume(g, u[1], u[2], bad, work)
    R.floor(rid, "reads of Split::file outside splits.rs's key/digest", n, 2)
    seen = set()
    for g, bb, how in bad:
        root = F.bodies[g.path].get("root") or g.path
        if (root, how) in seen:
            continue
        seen.add((root, how))
        R.bad(rid, f"{root}:Split.file-as-identity:{how}", f"Split::file (the bare file name) is {how}: two data files with the same name in different directories (region=eu/part-0.parquet, region=us/part-0.parquet) are then treated as one, so one file's per-file facts (e.g. its surviving row groups) are applied to the other", g.loc(bb), dict())
    R.ok(rid, "Split.file:display-and-digest-only", dict(reads=n, identity_uses=len(seen)))


def _consume(g, c, ai, bad, work):
    last = c.name.rsplit("::", 1)[-1]
    coll = any(k in (c.self_ty or "") for k in ("HashMap", "BTreeMap", "HashSet", "BTreeSet", "DashMap", "IndexMap"))
    if last in KEYED and coll and ai >= 1:
        bad.append((g, c.bb, f"used as the key of {c.self_ty.split('<')[0].rsplit('::', 1)[-1]}::{last}"))
    elif last in CMPS and "fmt" not in c.name:
        bad.append((g, c.bb, f"compared with {last}()"))
    elif last in ("as_str", "deref", "as_ref", "borrow", "clone", "to_string", "to_owned", "as_bytes", "into", "from", "to_lowercase", "as_deref"):
        if c.dest and "|" not in c.dest:
            work.append(place_local(c.dest))
