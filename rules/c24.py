"""C24 Set operations have SQL multiset semantics — structural clauses."""
from qe import *
import k9

CLAIMS = ("R1 INTERSECT / EXCEPT must not be lowered to a plain equality Semi/Anti join on bare column pairs with no null-safe provision: joins reject NULL keys (C22.R3) whereas set operations treat NULLs as not distinct; and the ALL forms must not return the bare semi/anti join (multiset arithmetic: min/ difference of multiplicities); "
          "R2 UNION (distinct) is lowered through a duplicate-eliminating operator over all columns (null-safe grouping), not a join, and UNION ALL keeps every input row (UnionNode{all: true} is never de-duplicated).")
NOT_DECIDED = "value equality of the result multiset."

BND = "planner::binder::Binder"
JN = "adt:planner::logical_plan::JoinNode"


def run(F, R):
    R.rule("C24.R1", "K4", "Intersect/Except arms: no JoinNode{Semi|Anti, filter: None, on: bare column pairs}; ALL does not return the bare join")
    R.rule("C24.R2", "K4", "Union lowering: distinct via aggregate/distinct over all columns; all:true concatenates")
    bs = F.one("bind_set_expr", file="src/planner/binder.rs")
    ms = [m for m in bs.raw["matches"] if m["kind"] == "match" and m["scrut"].endswith("SetOperator")]
    if len(ms) != 1:
        raise Broken(f"bind_set_expr: {len(ms)} matches on SetOperator")
    for op, jt in (("Intersect", "Semi"), ("Except", "Anti")):
        arms = arm_for(ms[0], "SetOperator::" + op)
        if len(arms) != 1:
            raise Broken(f"bind_set_expr: arm {op} not found")
        sp = arms[0]["span"]
        joins = [(i, rv) for i, j, dst, rv, line in stmts_in_lines(bs, sp) if rv[0] == "agg" and rv[1] == JN]
        nullsafe = any(c.name.rsplit("::", 1)[-1] in ("is_null", "is_not_distinct_from", "null_safe_eq", "coalesce") for c in calls_in_lines(bs, sp)) or \
            any(rv[0] == "agg" and ("IsNull" in rv[1] or "NotDistinct" in rv[1] or "IsNotDistinctFrom" in rv[1]) for g in F.family(bs.path) for i, j, dst, rv, line in g.stmts() if sp[0] <= line <= sp[2])
        bare = False
        for i, rv in joins:
            m = dict(zip(rv[3], rv[2]))
            jto = origin(bs, m["join_type"])
            filt = origin(bs, m["filter"])
            is_jt = jto[0] == "rv" and jto[1][0] == "agg" and jto[1][1].endswith("JoinType::" + jt)
            no_filter = filt[0] == "rv" and filt[1][0] == "agg" and filt[1][1] == "adt:std::option::Option::None"
            if is_jt and no_filter and not nullsafe:
                bare = True
        R.check(not bare, "C24.R1", f"{op}:null-unsafe-{jt.lower()}-join", f"{op.upper()} is lowered to a plain {jt} join on column equality (no residual filter, no null-safe comparison): joins never match NULL keys, so `SELECT NULL {op.upper()} SELECT NULL` is wrong", f"{bs.file}:{sp[0]}", dict(join_literals=len(joins), null_safe_provision=nullsafe))
        # ALL: the value returned on the `all` edge must not be the bare join itself
        oks = [(i, rv) for i, j, dst, rv, line in stmts_in_lines(bs, sp) if dst == "0" and rv[0] == "agg" and rv[1] == "adt:std::result::Result::Ok"]
        bare_all = False
        for i, rv in oks:
            e = k9.kexpr(bs, rv[2][0])
            if e.startswith("planner::logical_plan::LogicalPlan::Join{"):
                bare_all = True
        R.check(not bare_all, "C24.R1", f"{op}-ALL:bare-{jt.lower()}-join", f"{op.upper()} ALL returns the {jt} join itself: a semi/anti join keeps or drops every duplicate of a left row, while {op.upper()} ALL needs per-value multiplicities (min / difference of counts)", f"{bs.file}:{sp[0]}", dict(ok_returns=len(oks)))
    # ---- R2
    arms = arm_for(ms[0], "SetOperator::Union")
    sp = arms[0]["span"]
    un = [(i, rv) for i, j, dst, rv, line in stmts_in_lines(bs, sp) if rv[0] == "agg" and rv[1].endswith("::UnionNode")]
    R.check(len(un) == 1 and not [1 for i, j, dst, rv, line in stmts_in_lines(bs, sp) if rv[0] == "agg" and rv[1] == JN], "C24.R2", "Union:bound-to-UnionNode", "UNION is not bound to a UnionNode", f"{bs.file}:{sp[0]}", dict(), nontrivial=False)
    import c43
    f, m = c43._arm(F)
    ua = arm_for(m, "LogicalPlan::Union")
    if len(ua) != 1:
        raise Broken("Union lowering arm not found")
    usp = ua[0]["span"]
    calls = calls_in_lines(f, usp)
    # distinct edge: a HashAggregate/Distinct style operator constructed; all edge: UnionExec only
    dedup = [c for c in calls if any(k in c.name for k in ("HashAggregateExec::new", "SpillableHashAggregateExec::new", "DistinctExec::new", "lower_aggregate", "create_distinct"))]
    union = [c for c in calls if "UnionExec::new" in c.name]
    guard_all = False
    from c15 import controlling_switches
    for c in dedup:
        for sb, val in controlling_switches(f, c.bb):
            si = f.switch_info(sb)
            e = k9.kexpr(f, "c:" + si[1]) if si[0] == "bool" and si[1] else ""
            if ".all" in e and ((not e.startswith("Not(") and val is False) or (e.startswith("Not(") and val is True)):
                guard_all = True
    R.check(bool(dedup) and bool(union) and guard_all, "C24.R2", "Union:distinct-dedups-all-keeps", "UNION (distinct) is not lowered through a duplicate-eliminating aggregate on the !all edge (or UNION ALL is de-duplicated)", f"{f.file}:{usp[0]}", dict(dedup=len(dedup), union=len(union)))
