"""C28 Each CTE reference yields that CTE's rows — structural clauses."""
from qe import *
import k9

CLAIMS = ("R1 (scope pairing) the function that registers a WITH clause's names in the binder's CTE map (bind_ctes' caller) restores the map it had on entry on every path to its return, as bind_select does for named windows: otherwise an inner WITH that reuses a name leaks into outer references; "
          "R2 the materialisation cache key of a shared CTE is derived from more than the bare name (scope/plan identity), since the same name may denote different definitions in different scopes; "
          "R3 (= C07.R2) CTE materialisation drains every partition of the CTE's plan.")
NOT_DECIDED = "row equality between a materialised and a re-evaluated CTE."

B = "planner::binder::Binder"
PP = "physical::planner::PhysicalPlanner"


def _with_derived(g, op):
    return derives_from(g, [op], lambda k, x: (k == "place" and "|f:with:" in x and x) or None)


def _scope_restored(F, g, call, depth=0):
    """after `call` (which, transitively, inserts WITH names into Binder.ctes) every non-error return of g is preceded by a
    whole-field store into self.ctes; a restore may be skipped only on the `query.with is None` edge when the insertion is
    itself conditioned on `query.with`; if g has no restore at all, every caller of g must satisfy the same rule"""
    from c15 import controlling_switches
    restores = set()
    for i, j, dst, rv, line in g.stmts():
        pf = place_fields(dst)
        if pf and pf[-1][0] == "ctes" and g.path_exists(call.bb, i):
            restores.add(i)
    for x in g.calls():
        if x.name in ("std::mem::replace", "std::mem::swap") and _ctes_place(g, x.args[0]) and g.path_exists(call.bb, x.bb):
            restores.add(x.bb)
    if not restores:
        ups = [u for u in F.callers_of(g.path) if u.fn.path != g.path and (F.bodies[u.fn.path].get("root") or u.fn.path) != g.path]
        if depth >= 2 or not ups:
            return False, dict(restores=0, function=g.path)
        res = [_scope_restored(F, u.fn, u, depth + 1) for u in ups]
        bad = [d for ok, d in res if not ok]
        return (not bad), dict(restores=0, callers_checked=len(ups), first_bad=bad[0] if bad else None)
    # is the insertion conditioned on query.with?
    ins_cond = any(_with_derived(g, "c:" + (g.switch_info(sb)[1][0] if g.switch_info(sb)[0] == "enum" else g.switch_info(sb)[1])) for sb, v in controlling_switches(g, call.bb) if g.switch_info(sb)[1])
    if not ins_cond and depth > 0:
        # the insertion happens in a callee: look there
        h = F.fn(call.name) if call.name in F.bodies else None
        if h is not None:
            for hc in h.calls():
                if hc.name.endswith("::bind_ctes"):
                    ins_cond = any(_with_derived(h, "c:" + (h.switch_info(sb)[1][0] if h.switch_info(sb)[0] == "enum" else h.switch_info(sb)[1])) for sb, v in controlling_switches(h, hc.bb) if h.switch_info(sb)[1])
    avoid = set(restores)
    bypass = 0
    if ins_cond:
        for r in restores:
            for sb, val in controlling_switches(g, r):
                si = g.switch_info(sb)
                subj = si[1][0] if si[0] == "enum" else si[1]
                if subj and _with_derived(g, "c:" + subj):
                    for v, t in list(si[2].items()) + [("otherwise", si[3])]:
                        if t is not None and not g.dominates(t, r) and t != r:
                            avoid.add(t)
                            bypass += 1
    rets = ok_value_blocks(g) or [b for b in range(g.n) if g.blocks[b]["t"][0] == "ret"]
    start = call.target if call.target is not None else call.bb
    leak = [r for r in rets if r in g.reachable(start, avoid=frozenset(avoid))]
    return (not leak), dict(restores=len(restores), with_conditioned_bypass_edges=bypass, insertion_conditioned_on_with=bool(ins_cond), leaking_returns=len(leak), function=g.path)


def _ctes_place(g, op):
    return derives_from(g, [op], lambda k, y: (k == "place" and any(f_ == "ctes" for f_, a in place_fields(y))) or None)


def run(F, R):
    R.rule("C28.R1", "K3 scope pairing", "insert into Binder.ctes in a WITH scope => the entry map is restored before the enclosing bind_query returns")
    bc = F.one("bind_ctes", file="src/planner/binder.rs")
    ins = [c for c in bc.calls() if c.name.rsplit("::", 1)[-1] == "insert" and "HashMap" in c.self_ty and derives_from(bc, [c.args[0]], lambda k, x: (k == "place" and any(f_ == "ctes" for f_, a in place_fields(x))) or None)]
    R.floor("C28.R1", "inserts into Binder.ctes", len(ins), 1)
    callers = F.callers_of(bc.path)
    R.floor("C28.R1", "callers of bind_ctes", len(callers), 1)
    for c in callers:
        ok, detail = _scope_restored(F, c.fn, c)
        R.check(ok, "C28.R1", f"{F.bodies[c.fn.path]['name']}:ctes-restored", "a WITH clause's names stay in the binder's CTE map after the query that declared them has been bound: an inner WITH that reuses a name silently rebinds later outer references to it", c.fn.loc(c.bb), detail)
    # ---- R2
    R.rule("C28.R2", "K5 provenance", "the identity under which a shared CTE is materialised is per WITH definition: either the cache key takes more than the name, or cte_name at the reference site comes from the binder's CTE map entry and that entry's identity is derived from a per-definition counter")
    ck = F.fn(PP + "::cte_name_key")
    hashed = [c for c in ck.calls() if c.name.rsplit("::", 1)[-1] == "hash"]
    key_name_only = len(hashed) == 1 and ck.raw["nargs"] == 1
    users = F.callers_of(ck.path)
    SA = "adt:planner::logical_plan::SubqueryAliasNode"
    refs = []
    for g in F.fns_building(SA):
        if not g.file.startswith("src/planner/binder"):
            continue
        for i, j, dst, rv, line in g.stmts():
            if rv[0] == "agg" and rv[1] == SA:
                m = dict(zip(rv[3], rv[2]))
                o = origin(g, m["cte_name"])
                if o[0] == "rv" and o[1][0] == "agg" and o[1][1].endswith("Option::Some"):
                    from_map = derives_from(g, o[1][2], lambda k, x: (k == "call" and x.name.rsplit("::", 1)[-1] in ("get", "get_mut", "get_key_value") and "HashMap" in x.self_ty and _ctes_place(g, x.args[0]) and x) or None,
                                            stop=lambda c_: c_.name.rsplit("::", 1)[-1] in ("get", "get_mut", "get_key_value"))
                    refs.append((g, i, bool(from_map)))
    R.floor("C28.R2", "CTE reference sites (SubqueryAliasNode with cte_name: Some)", len(refs), 1)
    # definition side: the identity component of the inserted entry derives from a counter (HashMap::entry / len / fetch_add)
    COUNTER = ("entry", "or_insert", "or_insert_with", "or_default", "len", "fetch_add", "next")
    def_counter = False
    for c in ins:
        if len(c.args) >= 3 and derives_from(bc, [c.args[2]], lambda k, x: (k == "call" and x.name.rsplit("::", 1)[-1] in COUNTER and x) or None):
            def_counter = True
    # the counter must DECIDE the identity: every switch that chooses between the plain name and the numbered form tests
    # the per-definition counter (`match *n { 1 => .. }`), not the current scope (contains_key / get on the CTE map) -
    # sibling WITH clauses are never in each other's scope, so a scope test hands them the same identity
    scope_decides = False
    from c15 import controlling_switches
    for c in ins:
        if len(c.args) < 3:
            continue
        o = origin(bc, c.args[2])
        idop = o[1][2][0] if (o[0] == "rv" and o[1][0] == "agg" and o[1][1] == "tuple" and o[1][2]) else None
        if idop is None:
            continue
        o2 = origin(bc, idop)
        idl = o2[1] if o2[0] == "multi" else (place_local(op_place(idop)) if op_place(idop) else None)
        for bb_, kind_, pay_ in bc.defs().get(idl, []):
            for sb, val in controlling_switches(bc, bb_):
                si = bc.switch_info(sb)
                subj = si[1][0] if si[0] == "enum" else si[1]
                if subj and derives_from(bc, ["c:" + subj], lambda k, x: (k == "call" and x.name.rsplit("::", 1)[-1] in ("contains_key", "get", "contains") and "HashMap" in (x.self_ty or "") and _ctes_place(bc, x.args[0]) and x) or None):
                    scope_decides = True
    per_def = bool(refs) and all(fm for g, i, fm in refs) and def_counter and not scope_decides
    R.check((not key_name_only) or per_def, "C28.R2", "cte-cache-key:name-only", "materialised CTE results are cached under a key computed from the CTE name alone, and the name given at the reference site is the table name as written (not a per-definition identity): two WITH scopes that define the same name with different queries share one cache entry", ck.loc(), dict(key_parameters=ck.raw["nargs"], key_users=len(users), reference_sites=len(refs), identity_from_map_entry=[fm for g, i, fm in refs], identity_from_counter=def_counter, identity_chosen_by_scope_test=scope_decides))
    import c07
    from report import Report
    R2 = Report("C07", F)
    c07.r2(F, R2)
    for it in R2.items:
        if "subquery" in it["key"] or "run_subquery" in it["key"]:
            (R.ok if it["status"] == "pass" else lambda *a, **k: R.bad("C28.R3", it["key"].split(":", 1)[1], it["what"], it["loc"]))("C28.R3", it["key"].split(":", 1)[1], it["detail"], it["loc"]) if it["status"] == "pass" else R.bad("C28.R3", it["key"].split(":", 1)[1], it["what"], it["loc"])
    # after the F3 repair the materialisation helper drains through collect_input_partitions_concurrently
    rs = F.fn("physical::operators::subquery::run_subquery_blocking")
    drains = any(c.name.endswith("collect_input_partitions_concurrently") for c in F.fam_calls(rs.path))
    R.rule("C28.R3", "= C07.R2", "CTE/subquery materialisation drains all partitions")
    R.check(drains, "C28.R3", "run_subquery_blocking:drains-all-partitions", "CTE materialisation drives only one partition of the plan", rs.loc(), dict())
