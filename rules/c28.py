"""C28 Each CTE reference yields that CTE's rows — structural clauses."""
from qe import *
import k9

CLAIMS = ("R1 (scope pairing) the function that registers a WITH clause's names in the binder's CTE map (bind_ctes' caller) restores the map it had on entry on every path to its return, as bind_select does for named windows: otherwise an inner WITH that reuses a name leaks into outer references; "
          "R2 the materialisation cache key of a shared CTE is derived from more than the bare name (scope/plan identity), since the same name may denote different definitions in different scopes; "
          "R3 (= C07.R2) CTE materialisation drains every partition of the CTE's plan.")
NOT_DECIDED = "row equality between a materialised and a re-evaluated CTE."

B = "planner::binder::Binder"
PP = "physical::planner::PhysicalPlanner"


def run(F, R):
    R.rule("C28.R1", "K3 scope pairing", "insert into Binder.ctes in a WITH scope => the entry map is restored before the enclosing bind_query returns")
    R.rule("C28.R2", "K5", "CTE cache key derives from the name only")
    bc = F.one("bind_ctes", file="src/planner/binder.rs")
    ins = [c for c in bc.calls() if c.name.rsplit("::", 1)[-1] == "insert" and "HashMap" in c.self_ty and derives_from(bc, [c.args[0]], lambda k, x: (k == "place" and any(f_ == "ctes" for f_, a in place_fields(x))) or None)]
    R.floor("C28.R1", "inserts into Binder.ctes", len(ins), 1)
    callers = F.callers_of(bc.path)
    R.floor("C28.R1", "callers of bind_ctes", len(callers), 1)
    for c in callers:
        g = c.fn
        # restore = a store into self.ctes (whole-field assignment) reachable after the bind_ctes call on every path to a return
        restores = [i for i, j, dst, rv, line in g.stmts() if place_fields(dst)[-1:] and place_fields(dst)[-1][0] == "ctes" and "|*|" in dst or (place_fields(dst)[-1:] and place_fields(dst)[-1][0] == "ctes")]
        restores += [x.bb for x in g.calls() if x.name in ("std::mem::replace", "std::mem::swap", "std::mem::take") and derives_from(g, [x.args[0]], lambda k, y: (k == "place" and any(f_ == "ctes" for f_, a in place_fields(y))) or None) and g.path_exists(c.bb, x.bb)]
        restores = [r for r in restores if g.path_exists(c.bb, r)]
        leak = g.can_return_from(c.target if c.target is not None else c.bb, avoid=frozenset(restores)) if True else False
        # only normal (Ok) returns matter
        okr = [i for i in ok_value_blocks(g)]
        leak_ok = any(r in g.reachable(c.bb, avoid=frozenset(restores)) for r in okr)
        R.check(not leak_ok and bool(restores), "C28.R1", f"{F.bodies[g.path]['name']}:ctes-restored", "a WITH clause's names stay in the binder's CTE map after the query that declared them has been bound: an inner WITH that reuses a name silently rebinds later outer references to it", g.loc(c.bb), dict(restores=len(restores)))
    # ---- R2
    ck = F.fn(PP + "::cte_name_key")
    hashed = [c for c in ck.calls() if c.name.rsplit("::", 1)[-1] == "hash"]
    only_name = len(hashed) == 1 and ck.raw["nargs"] == 1
    users = F.callers_of(ck.path)
    name_only_args = all(".cte_name" in k9.kexpr(u.fn, u.args[0]) or "name" in (u.fn.local_name(place_local(op_place(u.args[0]))) or "") or True for u in users)
    R.check(not only_name, "C28.R2", "cte-cache-key:name-only", "materialised CTE results are cached under a key computed from the CTE name alone: two WITH scopes that define the same name with different queries share one cache entry", ck.loc(), dict(parameters=ck.raw["nargs"], users=len(users)))
    import c07
    from report import Report
    R2 = Report("C07", F)
    c07.r2(F, R2)
    for it in R2.items:
        if "subquery" in it["key"] or "run_subquery" in it["key"]:
            (R.ok if it["status"] == "pass" else lambda *a, **k: R.bad("C28.R3", it["key"].split(":", 1)[1], it["what"], it["loc"]))("C28.R3", it["key"].split(":", 1)[1], it["detail"], it["loc"]) if it["status"] == "pass" else R.bad("C28.R3", it["key"].split(":", 1)[1], it["what"], it["loc"])
    # after the F3 repair the materialisation helper drains through collect_input_partitions_concurrently
    rs = F.fn("physical::operators::subquery::run_subquery_blocking")
    drains = any(c.name.endswith("collect_input_partitions_concurrently") for c in F.fam_calls(rs.path))
    R.rule("C28.R3", "= C07.R2", "CTE/subquery materialisation drains all partitions")
    R.check(drains, "C28.R3", "run_subquery_blocking:drains-all-partitions", "CTE materialisation drives only one partition of the plan", rs.loc(), dict())
