"""C15 Membership view stays consistent under any discovery and probe history — structural clauses."""
from qe import *

CLAIMS = ("R1 State.generation is written only inside Membership methods and every write is `generation + 1` (constructed as 0 only in Membership::new); "
          "R2 every function that mutates State.peers or writes a peer's status also increments generation, reachable from the mutation, and in set_members each insert/remove is post-dominated by a push to the change list whose emptiness guards the increment; "
          "R3 record_resolve_error writes neither peers nor resolved nor generation, and set_members is invoked by the server only on the Ok value of Discovery::resolve; "
          "R4 the keys inserted into peers derive from the incoming set that was filtered through !is_self; "
          "R5 members() builds exactly one is_self:true Member from self_address, all others is_self:false, and sorts by address ascending after the push; "
          "R7 name-lookup failures under Discovery::resolve are propagated as Err (never an empty Ok list); "
          "R6 inserts take keys from incoming.difference(existing) and removes from existing.difference(incoming), so surviving peers keep their records.")
NOT_DECIDED = "path-sensitive 'advances on every change' beyond the guards named above; DNS-dependent behaviour of is_self_address."

M = "distributed::membership"
STATE = M + "::State"
PEER = M + "::PeerRecord"
MEMBER = M + "::Member"
MUTATORS = ("insert", "remove", "clear", "retain", "append", "pop_first", "pop_last", "split_off", "entry", "extract_if", "remove_entry", "first_entry", "last_entry", "try_insert")


def peers_mutations(F, f):
    """calls of mutating BTreeMap methods whose receiver derives from State.peers"""
    out = []
    for c in f.calls():
        nm = c.name.rsplit("::", 1)[-1]
        if "BTreeMap" in c.self_ty and nm in MUTATORS:
            w = derives_from(f, [c.args[0]], lambda k, x: (k == "place" and ("peers", STATE) in place_fields(x)) or None)
            if w:
                out.append(c)
    return out


def gen_writes(f):
    return [(i, dst, rv) for i, j, dst, rv, line in f.stmts() if place_fields(dst)[-1:] == [("generation", STATE)]]


def run(F, R):
    R.rule("C15.R1", "K1 who-may-write", "writers of State.generation are Membership methods; each write is generation+1; literal 0 only in Membership::new")
    R.rule("C15.R2", "K2 co-occurrence + K3", "peers mutation / status write => generation increment reachable; set_members: each mutation post-dominated by changes.push, increment guarded by !changes.is_empty()")
    R.rule("C15.R3", "K2/K1", "record_resolve_error does not touch peers/resolved/generation; set_members called only with Discovery::resolve's Ok value")
    R.rule("C15.R4", "K5 provenance", "peers.insert keys derive from the set filtered by !is_self")
    R.rule("C15.R5", "K9/K3", "members(): one is_self:true from self_address, rest false; sort_by(address asc) post-dominates the push")
    R.rule("C15.R6", "K5 provenance", "insert keys come from incoming.difference(existing), remove keys from existing.difference(incoming)")

    # ---------------- R1
    writers = [f for f in F.fns_touching("generation", STATE) if gen_writes(f)]
    R.floor("C15.R1", "functions writing State.generation", len(writers), 3)
    for f in writers:
        root = F.bodies[f.path].get("root") or f.path
        in_membership = F.bodies[root]["self_ty"] == M + "::Membership"
        for bb, dst, rv in gen_writes(f):
            o = origin(f, "c:" + dst) if False else None
            # value: (AddWithOverflow(copy gen, 1)).0
            ok_inc = False
            if rv[0] == "use":
                oo = origin(f, rv[1])
                if oo[0] == "rv" and oo[1][0] == "bin" and oo[1][1] in ("AddWithOverflow", "Add", "AddUnchecked"):
                    a, b = origin(f, oo[1][2]), origin(f, oo[1][3])
                    a_gen = a[0] == "place" and place_fields(a[1])[-1:] == [("generation", STATE)]
                    b_one = b[0] == "const" and op_const(b[1]) == 1
                    ok_inc = a_gen and b_one
            R.check(in_membership and ok_inc, "C15.R1", f"{f.path}:write", ("not a Membership method; " if not in_membership else "") + ("" if ok_inc else "write is not generation + 1"), f.loc(bb), dict(function=f.path, block=bb))
    lits = F.fns_building("adt:" + STATE)
    R.check([g.path for g in lits] == [M + "::Membership::new"], "C15.R1", "State-literal", f"State constructed outside Membership::new: {[g.path for g in lits]}", "", nontrivial=False)
    for g in lits:
        for i, j, dst, rv, line in g.stmts():
            if rv[0] == "agg" and rv[1] == "adt:" + STATE:
                v = rv[2][rv[3].index("generation")]
                R.check(op_const(v) == 0, "C15.R1", "State-literal:generation=0", "initial generation is not the constant 0", g.loc(i), nontrivial=False)

    # ---------------- R2
    muts = []
    for f in set(F.fns_touching("peers", STATE)) | set(F.fns_touching("status", PEER)):
        pm = peers_mutations(F, f)
        sw = [(i, dst) for i, j, dst, rv, line in f.stmts() if place_fields(dst)[-1:] == [("status", PEER)] and F.bodies[f.path]["name"] != "new"]
        if pm or sw:
            muts.append((f, pm, sw))
    R.floor("C15.R2", "functions mutating peers or a peer's status", len(muts), 3)
    for f, pm, sw in muts:
        gw = gen_writes(f)
        blocks = [c.bb for c in pm] + [i for i, _ in sw]
        for b in blocks:
            reach = any(f.path_exists(b, g[0]) for g in gw)
            R.check(reach, "C15.R2", f"{f.path}:mutation->generation", "membership mutated but no generation increment is reachable afterwards", f.loc(b), dict(function=f.path, mutation_block=b, generation_blocks=[g[0] for g in gw]))
        if F.bodies[f.path]["name"] == "set_members":
            ch = f.locals_named("changes")
            pushes = [c for c in f.calls() if c.name.endswith("Vec::<T, A>::push") and derives_from(f, [c.args[0]], lambda k, x: (k == "place" and place_local(x) in ch) or None, through_calls=False)]
            for c in pm:
                pd = [p for p in pushes if f.postdominates(p.bb, c.bb)]
                R.check(bool(pd), "C15.R2", f"set_members:{c.name.rsplit('::',1)[-1]}->changes.push", "a peers mutation is not followed on every path by a push to the change list that guards the generation bump", f.loc(c.bb), dict(mutation=str(c), pushes=[p.bb for p in pushes]))
            for gb, dst, rv in gw:
                # controlling guard: nearest bool switch dominating gb whose other edge avoids gb
                ok = False
                for sb in range(f.n):
                    si = f.switch_info(sb)
                    if si and si[0] == "bool" and f.dominates(sb, gb):
                        for val, tgt in si[2].items():
                            if f.dominates(tgt, gb) and len(f.pred(tgt)) == 1:
                                w = derives_from(f, ["c:" + si[1]], lambda k, x: x if (k == "call" and x.name.endswith("::is_empty")) else None)
                                if w and val is False and derives_from(f, [w.args[0]], lambda k, x: (k == "place" and place_local(x) in ch) or None, through_calls=False):
                                    ok = True
                                elif not w:
                                    ok = ok  # some other guard: handled below
                guards = controlling_switches(f, gb)
                if not guards:
                    ok = True  # unconditional increment is stronger
                R.check(ok, "C15.R2", "set_members:generation-guard", "generation increment is guarded by something other than !changes.is_empty()", f.loc(gb), dict(guards=guards))
        else:
            # status writers: the guard of the increment must derive from a read of the peer's status taken in this function
            for gb, dst, rv in gw:
                gs = controlling_switches(f, gb)
                okg = True
                for sb, val in gs:
                    si = f.switch_info(sb)
                    if si[0] == "enum":
                        continue  # the `if let Some(p) = peers.get_mut(..)` guard
                    w = derives_from(f, ["c:" + si[1]], lambda k, x: x if (k == "call" and (x.name.endswith("::ne") or x.name.endswith("::eq")) and "PeerStatus" in x.self_ty) else None)
                    okg = okg and bool(w)
                R.check(okg, "C15.R2", f"{f.path}:generation-guard", "generation increment guarded by a condition not derived from the peer's previous status", f.loc(gb), dict(guards=gs))

    # ---------------- R3
    rre = F.fn(M + "::Membership::record_resolve_error")
    fam = F.family(rre.path)
    bad = []
    for g in fam:
        for bb, acc, fld, adt, line in g.field_accesses():
            if adt == STATE and fld in ("peers", "resolved", "generation") and acc in ("w", "mut"):
                bad.append((g.path, fld, acc))
            if adt == STATE and fld == "peers":
                bad.append((g.path, fld, acc))
        for c in g.calls():
            if c.name in F.bodies and F.bodies[c.name]["self_ty"] == M + "::Membership" and c.name != M + "::Membership::record_resolve_error":
                bad.append((g.path, "calls", c.name))
    R.check(not bad, "C15.R3", "record_resolve_error:write-set", f"record_resolve_error touches {bad}", rre.loc(), dict(functions=[g.path for g in fam]))
    sm_callers = F.callers_of(M + "::Membership::set_members")
    R.floor("C15.R3", "callers of set_members", len(sm_callers), 1)
    for c in sm_callers:
        g = c.fn
        ok, why = False, "set_members not on the Ok edge of Discovery::resolve"
        raw = F.bodies[g.path]
        if raw["kind"] == "closure":
            par = F.fn(raw["lexparent"])
            for i, j, dst, rv, line in par.stmts():
                if rv[0] == "agg" and rv[1] == "closure:" + g.path:
                    for u in uses_of_local(par, place_local(dst)):
                        if u[0] == "call" and u[1].name.endswith("Result::<T, E>::map") and u[2] == 1:
                            w = derives_from(par, [u[1].args[0]], lambda k, x: x if (k == "call" and x.name == M + "::Discovery::resolve") else None)
                            if w:
                                # the argument handed to set_members must be the closure parameter (the Ok payload)
                                a = origin(g, c.args[1])
                                ok = a[0] == "arg"
                                why = "set_members argument is not resolve()'s Ok payload"
        else:
            for rc in g.calls():
                if rc.name == M + "::Discovery::resolve":
                    for sb in range(g.n):
                        si = g.switch_info(sb)
                        if si and si[0] == "enum" and derives_from(g, ["c:" + si[1][0]], lambda k, x: (x is rc) if k == "call" else None):
                            t = si[2].get("Ok") or si[2].get("Continue")
                            if t is not None and g.dominates(t, c.bb) and len(g.pred(t)) == 1:
                                ok = True
        R.check(ok, "C15.R3", f"set_members-caller:{g.path}", why, g.loc(c.bb), dict(caller=g.path))

    # ---------------- R7 lookup failures surface as Err from Discovery::resolve
    R.rule("C15.R7", "K-ERR", "every name lookup (to_socket_addrs) in the in-crate closure of Discovery::resolve propagates its error; a swallowed failure would reach set_members as an empty Ok list and remove every member")
    looks = []
    for p in sorted(F.closure_of([M + "::Discovery::resolve"])):
        for c in F.fam_calls(p):
            if c.name.rsplit("::", 1)[-1] == "to_socket_addrs":
                looks.append(c)
    R.floor("C15.R7", "to_socket_addrs calls under Discovery::resolve", len(looks), 1)
    for c in looks:
        tags = result_consumers(c.fn, c)
        R.check("try" in tags or "returned" in tags, "C15.R7", f"{c.fn.path}:to_socket_addrs", f"lookup failure is swallowed ({sorted(tags)}) on the discovery path", c.fn.loc(c.bb), dict(consumers=sorted(tags)))

    # ---------------- R4 + R6
    sm = F.fn(M + "::Membership::set_members")
    pm = peers_mutations(F, sm)
    inserts = [c for c in pm if c.name.endswith("::insert")]
    removes = [c for c in pm if c.name.endswith("::remove")]
    R.floor("C15.R4", "peers.insert sites", len(inserts), 1)
    all_ins = []
    for f in F.fns_touching("peers", STATE):
        all_ins += [c for c in peers_mutations(F, f) if c.name.rsplit("::", 1)[-1] in ("insert", "entry", "try_insert", "append")]
    R.check({c.fn.path for c in all_ins} == {sm.path}, "C15.R4", "insert-only-in-set_members", f"peers gains entries outside set_members: {[c.fn.path for c in all_ins]}", "", nontrivial=False)

    def diff_of(f, op):
        return derives_from(f, [op], lambda k, x: x if (k == "call" and x.name.endswith("HashSet::<T, S, A>::difference")) else None)

    def set_kind(f, op):
        """'incoming' if the set derives from a filter(!is_self) pipeline; 'existing' if it derives from peers.keys()"""
        w = derives_from(f, [op], lambda k, x: x if (k == "call" and (x.name == "std::iter::Iterator::filter" or x.name.endswith("BTreeMap::<K, V, A>::keys"))) else None)
        if not w:
            return None
        if w.name.endswith("::keys"):
            return "existing" if derives_from(f, [w.args[0]], lambda k, x: (k == "place" and ("peers", STATE) in place_fields(x)) or None) else None
        # filter: closure must return !is_self(..)
        clo = origin(f, w.args[1])
        if clo[0] == "rv" and clo[1][0] == "agg" and clo[1][1].startswith("closure:"):
            cf = F.fn(clo[1][1][len("closure:"):])
            calls = [c for c in cf.calls() if c.name == M + "::Membership::is_self"]
            if len(calls) == 1:
                # return value = Not(result)
                for i, j, dst, rv, line in cf.stmts():
                    if dst == "0" and rv[0] == "un" and rv[1] == "Not" and origin(cf, rv[2]) == ("call", calls[0]):
                        return "incoming"
        return None

    for c in inserts:
        d = diff_of(sm, c.args[1])
        ok = bool(d) and set_kind(sm, d.args[0]) == "incoming" and set_kind(sm, d.args[1]) == "existing"
        R.check(ok, "C15.R4", "set_members:insert-key", "inserted key does not come from (incoming filtered by !is_self) \\ existing", sm.loc(c.bb), dict(site=str(c), difference=str(d)))
        R.check(ok, "C15.R6", "set_members:insert-from-incoming-minus-existing", "insert is applied to keys other than incoming.difference(existing): surviving peers could be reset", sm.loc(c.bb), dict(site=str(c)))
        val = origin(sm, c.args[2])
        R.check(val[0] == "call" and val[1].name == PEER + "::new", "C15.R6", "set_members:insert-value", "inserted record is not PeerRecord::new()", sm.loc(c.bb), nontrivial=False)
    R.floor("C15.R6", "peers.remove sites in set_members", len(removes), 1)
    for c in removes:
        d = diff_of(sm, c.args[1])
        ok = bool(d) and set_kind(sm, d.args[0]) == "existing" and set_kind(sm, d.args[1]) == "incoming"
        R.check(ok, "C15.R6", "set_members:remove-from-existing-minus-incoming", "remove is applied to keys other than existing.difference(incoming)", sm.loc(c.bb), dict(site=str(c)))
    for f in F.fns_touching("peers", STATE):
        for c in peers_mutations(F, f):
            if c.name.rsplit("::", 1)[-1] in ("remove", "clear", "retain", "pop_first", "pop_last", "split_off", "extract_if", "remove_entry") and f.path != sm.path:
                R.bad("C15.R6", f"{f.path}:removes-peer", "a peer is removed outside set_members (a probe failure or resolve error must never remove a member)", f.loc(c.bb))

    # ---------------- R5
    mem = F.fn(M + "::Membership::members")
    fam = F.family(mem.path)
    mlits = []
    for g in fam:
        for i, j, dst, rv, line in g.stmts():
            if rv[0] == "agg" and rv[1] == "adt:" + MEMBER:
                mlits.append((g, i, rv))
    R.floor("C15.R5", "Member literals in members()", len(mlits), 2)
    trues = []
    for g, bb, rv in mlits:
        v = op_const(rv[2][rv[3].index("is_self")])
        if v is True:
            trues.append((g, bb, rv))
        elif v is not False:
            R.bad("C15.R5", f"{g.path}:is_self-not-constant", "Member.is_self is not a constant", g.loc(bb))
    ok1 = len(trues) == 1 and trues[0][0].path == mem.path
    if ok1:
        g, bb, rv = trues[0]
        a = rv[2][rv[3].index("address")]
        ok1 = bool(derives_from(g, [a], lambda k, x: (k == "place" and ("self_address", M + "::Membership") in place_fields(x)) or None))
        # not inside a loop: the block is not on a cycle
        ok1 = ok1 and not g.path_exists(g.succ(bb)[0], bb) if g.succ(bb) else ok1
    R.check(ok1, "C15.R5", "members:exactly-one-self", "members() does not build exactly one is_self:true entry from self.self_address outside any loop", mem.loc(), dict(true_literals=len(trues)))
    for g, bb, rv in mlits:
        if (g, bb, rv) not in trues:
            a = rv[2][rv[3].index("address")]
            fromself = derives_from(g, [a], lambda k, x: (k == "place" and ("self_address", M + "::Membership") in place_fields(x)) or None)
            R.check(not fromself, "C15.R5", f"{g.path}:peer-entry-not-self", "a non-self entry takes its address from self_address", g.loc(bb), nontrivial=False)
    sorts = [c for c in mem.calls() if c.name.endswith("sort_by") or c.name.endswith("sort_unstable_by") or c.name.endswith("sort_by_key")]
    pushes = [c for c in mem.calls() if c.name.endswith("Vec::<T, A>::push")]
    ok = False
    why = "no sort of the member list after the push"
    for s in sorts:
        if all(mem.postdominates(s.bb, p.bb) and mem.path_exists(p.bb, s.bb) for p in pushes) and pushes:
            clo = origin(mem, s.args[1])
            if clo[0] == "rv" and clo[1][1].startswith("closure:"):
                cf = F.fn(clo[1][1][len("closure:"):])
                cmps = [c for c in cf.calls() if c.name.rsplit("::", 1)[-1] == "cmp"]
                if len(cmps) == 1 and len(cf.calls()) == 1:
                    a0 = derives_from(cf, [cmps[0].args[0]], lambda k, x: x if (k == "place" and ("address", MEMBER) in place_fields(x)) else None)
                    a1 = derives_from(cf, [cmps[0].args[1]], lambda k, x: x if (k == "place" and ("address", MEMBER) in place_fields(x)) else None)
                    # ascending: first operand from closure param 2 (a), second from param 3 (b); result returned unchanged
                    if a0 and a1 and root_arg(cf, a0) == 2 and root_arg(cf, a1) == 3 and origin(cf, "c:0") == ("call", cmps[0]):
                        ok = True
                    else:
                        why = "comparator is not a.address.cmp(&b.address)"
                else:
                    why = "comparator is not a single cmp on address"
    R.check(ok, "C15.R5", "members:sorted-by-address", why, mem.loc(), dict(sorts=[str(s) for s in sorts]))
    peers_field = [fl for fl in F.adt(STATE)["variants"][0]["fields"] if fl[0] == "peers"]
    R.check(bool(peers_field) and peers_field[0][1].startswith("std::collections::BTreeMap<std::string::String,"), "C15.R5", "State.peers:BTreeMap<String,_>", "State.peers is not a BTreeMap keyed by address (unique, ordered keys)", "", dict(type=peers_field[0][1] if peers_field else None), nontrivial=False)
    # privacy (type facts; the compile-fail witnesses in engines/qe-witness show the same from outside the crate)
    st = F.adt(STATE)
    R.check(st["vis"] != "pub" and all(fl[2] == "priv" for fl in st["variants"][0]["fields"]), "C15.R1", "State-private", "State or one of its fields is public", "", nontrivial=False)
    mm = F.adt(M + "::Membership")
    R.check(all(fl[2] == "priv" for fl in mm["variants"][0]["fields"] if fl[0] == "state"), "C15.R1", "Membership.state-private", "Membership.state is public", "", nontrivial=False)


def root_arg(f, placestr):
    l = place_local(placestr)
    seen = set()
    while l not in seen:
        seen.add(l)
        if 1 <= l <= f.raw["nargs"]:
            return l
        ds = f.defs().get(l, [])
        if len(ds) != 1 or ds[0][1] != "stmt":
            return None
        rv = ds[0][2][1]
        if rv[0] in ("use",):
            pl = op_place(rv[1])
        elif rv[0] == "ref":
            pl = rv[2]
        else:
            return None
        if pl is None:
            return None
        l = place_local(pl)
    return None


def controlling_switches(f, b):
    """[(switch_block, edge_value)] for bool/enum switches one of whose edges dominates b while the switch has another edge that does not"""
    out = []
    for sb in range(f.n):
        si = f.switch_info(sb)
        if not si or not f.dominates(sb, b) or sb == b:
            continue
        for val, tgt in si[2].items():
            if tgt != b and not f.dominates(tgt, b):
                continue
            if len(f.pred(tgt)) == 1 and (tgt == b or f.dominates(tgt, b)):
                others = [t for v, t in si[2].items() if t != tgt] + ([si[3]] if si[3] != tgt else [])
                if any(not f.dominates(o, b) for o in others):
                    out.append((sb, val))
        # the `otherwise` edge (e.g. the None side of `if let Some(..)`), labelled when it stands for exactly one variant
        ot = si[3]
        if ot is not None and ot not in si[2].values() and len(f.pred(ot)) == 1 and (ot == b or f.dominates(ot, b)):
            if any(not f.dominates(t, b) for t in si[2].values()):
                labels = si[4] if len(si) > 4 else []
                out.append((sb, labels[0] if len(labels) == 1 else "otherwise"))
    return out
