"""C44 VALUES lists produce their rows — structural clauses."""
from qe import *
import k9
import kerr

CLAIMS = ("R1 the VALUES lowering reads ValuesNode.values, evaluates every cell expression, and hands the operator a batch vector that derives from those rows (never an unconditional empty vector); evaluation errors are propagated; "
          "R2 the operator's schema is the node's schema.")
NOT_DECIDED = "cell values themselves; type unification rules across rows."

PL = "physical::planner::PhysicalPlanner::create_physical_plan_inner"
VN = "planner::logical_plan::ValuesNode"


def run(F, R):
    R.rule("C44.R1", "K7", "Values arm: reads node.values; MemoryTableExec batches derive from evaluated rows; errors propagated")
    R.rule("C44.R2", "K5", "schema argument derives from node.schema")
    import c43
    f, m = c43._arm(F)
    arms = arm_for(m, "LogicalPlan::Values")
    if len(arms) != 1:
        raise Broken("Values arm not found")
    sp = arms[0]["span"]
    reads = [1 for bb, acc, fld, a, line in f.field_accesses() if (fld, a) == ("values", VN) and sp[0] <= line <= sp[2]]
    news = [c for c in calls_in_lines(f, sp) if c.name.endswith("MemoryTableExec::new")]
    R.floor("C44.R1", "MemoryTableExec::new in the Values arm", len(news), 1)
    for c in news:
        be = k9.kexpr(f, c.args[2])
        evals = [x for x in calls_in_lines(f, sp) if x.name.rsplit("::", 1)[-1] in ("evaluate_expr", "evaluate_expr_internal", "scalar_to_array", "to_array")]
        # the batches vector must be written from a RecordBatch built in this arm (push / vec literal), not a bare empty vec
        pushes = [x for x in calls_in_lines(f, sp) if x.name.endswith("Vec::<T, A>::push") and "RecordBatch" in " ".join(x.argtys)]
        lit = k9.vec_literal_elems(f, c.args[2])
        empty_only = (be.startswith("std::vec::Vec::<T>::new(") or be == "new()") and not pushes
        ok = bool(reads) and bool(evals) and not empty_only and (bool(pushes) or (lit is not None and len(lit) > 0))
        R.check(ok, "C44.R1", "values-lowering", "VALUES is lowered to an operator with no rows: the literal rows are never evaluated into a batch", f.loc(c.bb), dict(reads_values=bool(reads), evaluations=len(evals), batches=be[:80]))
        from c15 import controlling_switches
        base = set(controlling_switches(f, c.bb))
        for pu in pushes:
            extra = [(sb, val) for sb, val in controlling_switches(f, pu.bb) if (sb, val) not in base]
            okg = True
            conds = []
            for sb, val in extra:
                si = f.switch_info(sb)
                if si[0] == "enum" and str(val) in ("None", "Continue"):
                    continue  # a completed `for` loop / a `?` that did not fail
                e = k9.kexpr(f, "c:" + si[1]) if si[0] == "bool" and si[1] else "?"
                conds.append((e[:70], str(val)))
                nonempty = ("is_empty(" in e and ".values" in e and val is False) or (e.startswith(("Gt(", "Ne(")) and "len(" in e and e.rstrip(")").endswith("#0") and val is True)
                okg = okg and nonempty
            R.check(okg, "C44.R1", "values-batch-guard", f"the batch of VALUES rows is only emitted under {conds}: some non-empty VALUES lists yield no rows", f.loc(pu.bb), dict(guards=conds))
        se = k9.kexpr(f, c.args[1])
        R.check(".schema" in se, "C44.R2", "values-schema", f"schema argument is {se[:80]}", f.loc(c.bb), nontrivial=False)
    bad = []
    n = 0
    for c, tags, ok in kerr.audit(F, f):
        if sp[0] <= c.line <= sp[2]:
            n += 1
            if not ok:
                bad.append((c, tags))
    R.check(not bad, "C44.R1", "values-errors-propagated", f"an evaluation error in the VALUES lowering is swallowed: {[(c.name, sorted(t)) for c, t in bad][:2]}", f.loc(), dict(audited=n))
