"""C22 Joins follow SQL join semantics — structural clauses."""
from qe import *
import k9
import k8
import guards

CLAIMS = ("R1 at the Join lowering the ON residual is applied as a post-join FilterExec only for Inner/Cross joins: the flag that routes the predicate inside the join, evaluated abstractly for every JoinType, is false exactly for {Inner, Cross}, and every post-join create_filter site lies only on that flag's false side; "
          "R2 the probe-side runtime key filter is published only when, for the join type, rows outside the build key set can be dropped: evaluated for every JoinType x build side, eligible exactly for Inner, or Semi/Anti with the build on the left; "
          "R3 every function of hash_join.rs / spillable.rs that builds or probes a join hash table from key arrays consults key validity (NULL keys never match); "
          "R4 (= C08.R4) the inner-join-only spill probe is unreachable for other join types; "
          "R5 in the probe functions, inside every join-type arm that applies the residual ON predicate (filter_candidate_pairs), each 'this row matched' bit is set from an index that comes out of the filtered pair lists - never from the raw hash matches (a row whose every candidate fails the predicate must stay unmatched so that it is NULL-extended); "
          "R6 the join output may reuse the probe columns without a gather only under an element-wise identity test of the index vector (Iterator::all over its enumeration), not under a test of a few positions.")
NOT_DECIDED = "outer-join NULL-extension values; build-side independence of results."

PL = "physical::planner::PhysicalPlanner::create_physical_plan_inner"
JT = "planner::logical_plan::JoinType"


def run(F, R):
    R.rule("C22.R1", "K8 abstract evaluation + K3", "filter_inside_join(v) is false only for Inner/Cross; post-join filters only on its false side")
    R.rule("C22.R2", "K8", "rt_eligible(v, build_right) == (v == Inner) or (v in {Semi, Anti} and not build_right)")
    R.rule("C22.R3", "K2 co-occurrence", "join hash build/probe functions consult key validity")
    import c43
    f, m = c43._arm(F)
    arm = arm_for(m, "LogicalPlan::Join")[0]
    sp = arm["span"]
    variants = [v["name"] for v in F.adt(JT)["variants"]]
    fij = f.locals_named("filter_inside_join")
    isa = f.locals_named("is_semi_anti")
    rte = f.locals_named("rt_eligible")
    brl = f.locals_named("build_right_for_left")
    if not (fij and isa and rte and brl):
        raise Broken("join lowering flags (filter_inside_join / is_semi_anti / rt_eligible / build_right_for_left) not found")
    from c15 import controlling_switches
    def first_switch(local):
        bbs = [d[0] for d in f.defs().get(local, [])]
        cands = []
        for sb in range(f.n):
            if f.blocks[sb]["t"][0] != "switch":
                continue
            if any(s_[1][0] == "discr" and ("join_type", "planner::logical_plan::JoinNode") in place_fields(s_[1][1]) for s_ in f.blocks[sb]["s"]):
                if all(f.dominates(sb, b_) for b_ in bbs):
                    cands.append(sb)
        return max(cands) if cands else None

    def is_flag(op, local):
        o = origin(f, op)
        return o[0] == "multi" and o[1] == local

    def first_use_switch(local):
        for sb in sorted(range(f.n)):
            si = f.switch_info(sb)
            if si and si[0] == "bool" and si[1] and f.blocks[sb]["l"] >= sp[0] and (is_flag("c:" + si[1], local) or place_local(si[1]) == local):
                # skip switches that are part of computing other flags from this one before the arm's real use
                return sb
        return None
    start = first_switch(isa[0])
    # discriminant subject local and the variant numbering
    names, subj = None, None
    if start is not None:
        for s_ in f.blocks[start]["s"]:
            if s_[1][0] == "discr":
                names = {n: int(v) for v, n in s_[1][3]}
                subj = place_local(s_[1][1])
    def after_defs(local):
        """blocks from which no definition of `local` can be reached any more: evaluation stops at the first one met"""
        if start is None:
            return None
        dbs = {d[0] for d in f.defs().get(local, [])}
        region = f.reachable(start)
        return {b for b in region if b not in dbs and not (f.reachable(b, avoid=frozenset([start])) & dbs)}
    stop_f = after_defs(fij[0])
    stop_r = after_defs(rte[0])
    if start is None or names is None or stop_f is None or stop_r is None:
        R.undecided("C22.R1", "join-flags", "cannot locate the evaluation region of the join routing flags", f"{f.file}:{sp[0]}")
    else:
        table, rtab = {}, {}
        try:
            for v in variants:
                table[v] = k8.evaluate(f, {brl[0]: False}, start=start, discr={subj: names[v]}, stop_at=stop_f, want=fij[0], max_steps=300, lenient=True)
                for b in (False, True):
                    rtab[(v, b)] = k8.evaluate(f, {brl[0]: b}, start=start, discr={subj: names[v]}, stop_at=stop_r, want=rte[0], max_steps=400, lenient=True)
        except k8.Undecided as e:
            R.undecided("C22.R1", "join-flags", f"abstract evaluation failed: {e}", f"{f.file}:{sp[0]}")
            table = None
        if table is not None:
            outside = sorted(v for v, t in table.items() if not t)
            # Single/Mark are internal join kinds outside the property's seven SQL join types: not decided here
            sql_outside = set(outside) & {"Inner", "Left", "Right", "Full", "Semi", "Anti", "Cross"}
            R.check(sql_outside == {"Inner", "Cross"}, "C22.R1", "filter_inside_join:table", f"the ON residual is post-filtered (not evaluated inside the join) for join types {outside}; only Inner and Cross may post-filter (for Left/Right/Full/Semi/Anti a post-filter drops NULL-extended or wrongly kept rows)", f"{f.file}:{f.blocks[start]['l']}", dict(table={k: bool(v) for k, v in table.items()}))
            want = {(v, b): (v == "Inner") or (v in ("Semi", "Anti") and not b) for v in variants for b in (False, True)}
            rtab = {k: v for k, v in rtab.items() if k[0] in ("Inner", "Left", "Right", "Full", "Semi", "Anti", "Cross")}
            wrong = sorted(f"{v}/build_right={b}" for (v, b), t in rtab.items() if bool(t) != want[(v, b)])
            R.check(not wrong, "C22.R2", "rt_eligible:table", f"the runtime key filter eligibility differs from Inner or (Semi|Anti and build-left) for {wrong}: probe rows would be pruned that the join must still output", f"{f.file}:{f.blocks[start]['l']}", dict(table={f"{v}/{b}": bool(t) for (v, b), t in rtab.items()}))
        # post-join filter sites: unreachable from the flag's true side once `filter is None` paths are removed
        cfs = [c for c in calls_in_lines(f, sp) if c.name.endswith("PhysicalPlanner::create_filter")]
        R.floor("C22.R1", "post-join create_filter sites in the Join arm", len(cfs), 2)
        def succ2(b):
            si = f.switch_info(b)
            ss = list(f.succ(b))
            if si and si[0] == "bool" and si[1]:
                e = k9.kexpr(f, "c:" + si[1])
                if e.startswith("is_some(") and ".filter" in e:
                    ss = [si[2][True]]   # the site needs filter = Some: the is_some()==false continuation is infeasible for it
            return ss
        flag_sw = [sb for sb in range(f.n) if (f.switch_info(sb) or (None,))[0] == "bool" and f.switch_info(sb)[1] and (is_flag("c:" + f.switch_info(sb)[1], fij[0]) or place_local(f.switch_info(sb)[1]) == fij[0])]
        for n, c in enumerate(sorted(cfs, key=lambda c: c.line)):
            bad = False
            for sb in flag_sw:
                t = f.switch_info(sb)[2][True]
                if c.bb in f.reachable(t, succ=succ2):
                    bad = True
            R.check(not bad and bool(flag_sw), "C22.R1", f"post-join-filter#{n}", "a post-join FilterExec is reachable while the join type requires the ON predicate inside the join", f.loc(c.bb), dict(flag_switches=len(flag_sw)))
    # ---- R3
    VALID = ("is_null", "is_valid", "nulls", "null_count", "logical_nulls", "is_nullable")
    n = 0
    for file in ("src/physical/operators/hash_join.rs", "src/physical/operators/spillable.rs"):
        for g in F.in_file(file):
            b = F.bodies[g.path]
            if b["kind"] not in ("fn", "method"):
                continue
            nm = b["name"]
            if not any(k in nm for k in ("build_hash_table", "probe_", "build_i64_hash_table")) and nm not in ("build",):
                continue
            if nm == "build" and "JoinHashTable" not in g.path:
                continue
            fam = F.family(g.path)
            calls = [c for h in fam for c in h.calls()]
            touches_keys = any(c.name.rsplit("::", 1)[-1] in ("insert", "get", "entry", "get_mut", "contains_key", "find", "probe", "raw_entry_mut", "from_key_hashed_nocheck") for c in calls) or any("extract_join_key" in c.name for c in calls)
            if not touches_keys:
                continue
            n += 1
            validity = any(c.name.rsplit("::", 1)[-1] in VALID for c in calls)
            # helpers that delegate key extraction: extract_join_key maps NULL to JoinValue::Null and the caller skips it
            delegated = any("extract_join_key" in c.name or "has_null" in c.name or "contains_null" in c.name for c in calls)
            R.check(validity or delegated, "C22.R3", f"{g.path.split('operators::')[-1]}:key-validity", "a join hash build/probe reads key values without ever consulting their validity: NULL keys would match each other (or match the value under the null slot)", g.loc(), dict(calls=len(calls)))
    R.floor("C22.R3", "join build/probe functions examined", n, 8)
    # ---- R5: match tracking happens after the residual filter
    R.rule("C22.R5", "K5 provenance per join-type arm", "matched-bit stores are indexed from filter_candidate_pairs' output wherever the arm applies the residual predicate")
    HJ = "physical::operators::hash_join"
    FC = HJ + "::filter_candidate_pairs"
    roots = sorted({F.bodies[c.fn.path].get("root") or c.fn.path for c in F.callers_of(FC)})
    R.floor("C22.R5", "probe functions applying the residual predicate", len(roots), 2)
    n5 = 0
    for r in roots:
        rf = F.fn(r)
        arms = [a for m_ in rf.raw["matches"] if m_["kind"] == "match" and m_["scrut"].endswith("::JoinType") for a in m_["arms"]]
        regions = [(pat_head(pat_alternatives(a["pat"])[0]).rsplit("::", 1)[-1], a["span"]) for a in arms] or [("all", [0, 0, 10 ** 9, 0])]
        for g in F.family(r):
            for c in g.calls():
                if c.name.rsplit("::", 1)[-1] != "index_mut" or "Vec<bool>" not in (c.self_ty or ""):
                    continue
                l = place_local(c.dest)
                if not any(dst == f"{l}|*" and isinstance(rv[1], dict) and rv[1].get("v") is True for i, j, dst, rv, line in g.stmts()):
                    continue
                reg = [(nm, sp) for nm, sp in regions if sp[0] <= c.line <= sp[2]]
                if not reg:
                    # outside the join-type dispatch (e.g. a batch-parallel branch in its own closure): the closure is the region
                    if any(x.name == FC for x in g.calls()):
                        reg = [(g.path.rsplit("::", 1)[-1], [0, 0, 10 ** 9, 0])]
                    else:
                        continue
                fcl = [x.line for h in F.family(r) for x in h.calls() if x.name == FC]
                reg = [(nm_, sp_) for nm_, sp_ in reg if any(sp_[0] <= fl <= sp_[2] for fl in fcl)]
                in_arm_filter = bool(reg)
                if reg:
                    nm, sp = min(reg, key=lambda x: x[1][2] - x[1][0])
                if not in_arm_filter:
                    continue      # this arm has no residual-predicate stage (Semi/Anti fast path, internal kinds): not decided here
                n5 += 1
                w = derives_from(g, [c.args[1]], lambda k, x: (k == "call" and x.name == FC and x) or None)
                R.check(bool(w), "C22.R5", f"{r.rsplit('::', 1)[-1]}[{nm}]:matched-bit@{_ordinal(F, r, c)}", "a 'matched' bit is set from the raw hash matches although this arm applies the residual ON predicate afterwards: a preserved-side row whose every candidate fails the predicate is marked matched, so it is neither joined nor NULL-extended", g.loc(c.bb), dict())
    R.floor("C22.R5", "matched-bit stores inside filtering arms", n5, 5)
    # ---- R6: gather skipped only under an element-wise identity test
    R.rule("C22.R6", "K5 provenance of a guard", "columns().to_vec() instead of take() only when Iterator::all over the enumerated indices said so")
    n6 = 0
    for g in F.in_file("src/physical/operators/hash_join.rs"):
        tv = [c for c in g.calls() if c.name.rsplit("::", 1)[-1] == "to_vec" and origin(g, c.args[0])[0] == "call" and origin(g, c.args[0])[1].name.endswith("RecordBatch::columns")]
        tk = [c for c in F.fam_calls(g.path) if c.name.rsplit("::", 1)[-1] == "take" and "arrow" in c.name]
        if not (tv and tk):
            continue
        from c15 import controlling_switches
        for c in tv:
            n6 += 1
            ok6 = False
            for sb, val in controlling_switches(g, c.bb):
                si = g.switch_info(sb)
                if si[0] == "bool" and si[1]:
                    al = derives_from(g, ["c:" + si[1]], lambda k, x: (k == "call" and x.name.rsplit("::", 1)[-1] == "all" and x) or None)
                    en = derives_from(g, ["c:" + si[1]], lambda k, x: (k == "call" and x.name.rsplit("::", 1)[-1] == "enumerate" and x) or None)
                    if al and en:
                        ok6 = True
            R.check(ok6, "C22.R6", f"{F.bodies[g.path]['name']}:identity-gather", "the probe columns are emitted as they are (no gather) without an element-wise comparison of the index vector with 0..n: indices such as [0,1,1,3] pass a first/last/length test, and rows come out with build and probe columns of different rows", g.loc(c.bb), dict())
    R.floor("C22.R6", "gather shortcuts in hash_join.rs", n6, 2)


def _ordinal(F, root, c):
    sites = sorted([(x.line, x.bb) for h in F.family(root) for x in h.calls() if x.name.rsplit("::", 1)[-1] == "index_mut" and "Vec<bool>" in (x.self_ty or "")])
    return sites.index((c.line, c.bb)) if (c.line, c.bb) in sites else -1
