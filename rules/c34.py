"""C34 Flight and HTTP return the same answer — structural clauses."""
from qe import *
import k9
import guards

CLAIMS = ("R1 the Flight service reaches the engine only through server::execute_statement (DoGet) and ExecutionContext::physical_plan (GetFlightInfo/GetSchema): the same front door as POST /sql; "
          "R2 in DoGet, execute_statement is dominated by the ticket size refusal, the JSON parse error and the `ticket.v != 1` refusal, and receives the ticket's sql and parsed mode; "
          "R3 the ticket version minted by GetFlightInfo equals the version DoGet accepts; "
          "R4 the metadata trailer's row count derives from outcome.result.row_count.")
NOT_DECIDED = "byte-equality of the two encodings; Flight protocol conformance."

FL = "distributed::flight"
SVC = FL + "::QueryFlightService"


def run(F, R):
    R.rule("C34.R1", "K1", "flight.rs calls no engine entry other than execute_statement / physical_plan")
    R.rule("C34.R2", "K3", "DoGet refusals dominate execute_statement")
    R.rule("C34.R3", "K6", "minted ticket version == accepted version")
    R.rule("C34.R4", "K5", "trailer rows <- outcome.result.row_count")
    bad, n = [], 0
    for g in F.in_file("src/distributed/flight.rs"):
        for c in g.calls():
            for nm in {c.name, c.callee}:
                if nm in F.bodies:
                    n += 1
                    b = F.bodies[nm]
                    if b["self_ty"] == "execution::context::ExecutionContext" and b["name"] not in ("physical_plan", "clone", "config", "table_names", "table_schema", "table_provider"):
                        bad.append(nm)
                    if nm.startswith("distributed::coordinator::") or nm.startswith("distributed::plan::") or nm.startswith("physical::") and "PhysicalOperator::schema" not in nm and "plan_schema" not in nm:
                        if not nm.startswith("physical::plan::") and "schema" not in nm:
                            bad.append(nm)
    R.floor("C34.R1", "in-crate calls from flight.rs", n, 10)
    R.check(not bad, "C34.R1", "flight:engine-only-via-front-door", f"Flight reaches the engine through {sorted(set(bad))[:4]} instead of execute_statement/physical_plan", "src/distributed/flight.rs:1", dict(in_crate_calls=n))
    dg = None
    for p in F.find(contains="do_get"):
        if F.bodies[p]["file"] == "src/distributed/flight.rs" and any(c.name == "distributed::server::execute_statement" for c in F.fn(p).calls()):
            dg = F.fn(p)
    if dg is None:
        raise Broken("do_get body calling execute_statement not found")
    es = [c for c in dg.calls() if c.name == "distributed::server::execute_statement"][0]
    gs = guards.guards_of(dg, es.bb)
    conds = [(cd, str(v)) for sb, cd, v in gs]
    size = any(cd.startswith("Gt(len(") and "MAX_TICKET" in cd or (cd.startswith("Gt(len(") and v == "False") for cd, v in conds)
    parse = any("from_slice(" in cd and cd.startswith("discr(") and v == "Continue" for cd, v in conds)
    ver = any(cd.startswith("Ne(") and ".v," in cd and v == "False" for cd, v in conds) or any(cd.startswith("Eq(") and ".v," in cd and v == "True" for cd, v in conds)
    mode = any("parse_mode(" in cd and v == "Continue" for cd, v in conds)
    R.check(size and parse and ver and mode, "C34.R2", "do_get:refusals-dominate-execution", f"DoGet executes a ticket without all of: size cap ({size}), JSON parse ({parse}), version check ({ver}), mode parse ({mode})", dg.loc(es.bb), dict(guards=[c[:60] + "=" + v for c, v in conds]))
    a1, a2 = k9.kexpr(dg, es.args[1]), k9.kexpr(dg, es.args[2])
    R.check(".sql" in a1 and "parse_mode(" in a2 and ".mode" in a2, "C34.R2", "do_get:executes-ticket-sql-and-mode", f"execute_statement({a1[-40:]}, {a2[-40:]})", dg.loc(es.bb), dict(), nontrivial=False)
    # ---- R3
    minted = []
    for g in F.fns_building("adt:" + FL + "::QueryTicket"):
        for i, j, dst, rv, line in g.stmts():
            if rv[0] == "agg" and rv[1] == "adt:" + FL + "::QueryTicket":
                vv = op_const(dict(zip(rv[3], rv[2]))["v"])
                if F.bodies[g.path]["impl_trait"] not in ("std::clone::Clone",) and "Deserialize" not in g.path:
                    minted.append(vv)
    accepted = []
    for sb, cd, v in gs:
        if ".v," in cd and cd.startswith(("Ne(", "Eq(")):
            accepted.append(cd.rstrip(")").rsplit("#", 1)[-1])
    R.floor("C34.R3", "minted tickets", len(minted), 1)
    R.check(bool(minted) and bool(accepted) and all(str(m) == accepted[0] for m in minted), "C34.R3", "ticket-version-agreement", f"tickets are minted with v={minted} but DoGet accepts v={accepted}", dg.loc(), dict(minted=minted, accepted=accepted))
    # ---- R4
    om = F.fn(FL + "::outcome_metadata")
    reads = [(fld, a) for g in F.family(om.path) for bb, acc, fld, a, line in g.field_accesses()]
    R.check(("row_count", "execution::context::QueryResult") in reads and any(l[0] == "s:rows" for g in F.family(om.path) for l in g.raw["lits"]), "C34.R4", "trailer:rows<-row_count", "the trailer's `rows` does not come from outcome.result.row_count", om.loc(), dict())
