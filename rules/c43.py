"""C43 Exact vector search is the literal ORDER BY ... LIMIT — structural clauses."""
from qe import *
import k9
import guards

CLAIMS = ("R1 TableProvider::scan_knn (the approximate index) is called only from VectorSearchExec::try_index and only past the `vector_search_mode != Indexed => Ok(None)` refusal, and ExecutionConfig::default() selects Exact unless the QE_VECTOR_SEARCH override parses; "
          "R2 the VectorSearch lowering builds its exact fallback from a literal Limit{skip: node.skip, fetch: Some(node.k)} over Sort{order_by: [node.sort_key]} over node.input, hands exactly that plan to VectorSearchExec as fallback, and every operator the Limit arm can return declares one output partition (so execute(0) drains it); "
          "R3 VectorSearchExec::execute reaches the fallback on every path on which try_index yields None, and propagates try_index errors.")
CLAIMS = CLAIMS + ("; R4 the node the optimizer rule builds carries the ORDER BY key as bound (a clone of the matched SortExpr, so direction AND NULLS placement survive): its sort_key is not rebuilt through a SortExpr constructor, whose defaults differ from the binder's.",)[0]
NOT_DECIDED = "the optimizer rule's shape matcher (which ORDER BY expressions are recognised as distances); numeric equality of distances."

VS = "physical::operators::vector_search::VectorSearchExec"
PL = "physical::planner::PhysicalPlanner::create_physical_plan_inner"
TRAIT = "physical::plan::PhysicalOperator"


def _arm(F):
    f = F.fn(PL)
    ms = find_match(f, "planner::logical_plan::LogicalPlan", min_arms=10)
    if len(ms) != 1:
        raise Broken(f"create_physical_plan_inner: {len(ms)} matches on LogicalPlan with >=10 arms")
    return f, ms[0]


def fallback_single_partition(F):
    """premise for C07.R2's table entry"""
    f, m = _arm(F)
    vs = arm_for(m, "LogicalPlan::VectorSearch")
    lim = arm_for(m, "LogicalPlan::Limit")
    if len(vs) != 1 or len(lim) != 1:
        return (False, "VectorSearch/Limit arm not found")
    sp = vs[0]["span"]
    # (1) literal plan
    lits = {rv[1]: (i, rv) for i, j, dst, rv, line in stmts_in_lines(f, sp) if rv[0] == "agg" and rv[1] in ("adt:planner::logical_plan::LimitNode", "adt:planner::logical_plan::SortNode")}
    if len(lits) != 2:
        return (False, f"fallback is not built from literal LimitNode/SortNode ({sorted(lits)})")
    li = dict(zip(lits["adt:planner::logical_plan::LimitNode"][1][3], lits["adt:planner::logical_plan::LimitNode"][1][2]))
    so = dict(zip(lits["adt:planner::logical_plan::SortNode"][1][3], lits["adt:planner::logical_plan::SortNode"][1][2]))
    e_skip, e_fetch = k9.kexpr(f, li["skip"]), k9.kexpr(f, li["fetch"])
    if not e_skip.endswith(".skip") or "VectorSearchNode" not in str(place_fields(op_place(li["skip"]) or "0") or "") and not e_skip.endswith(".skip"):
        return (False, f"LimitNode.skip is {e_skip}")
    if not (e_fetch.startswith("std::option::Option::Some{") and e_fetch.rstrip("}").endswith(".k")):
        return (False, f"LimitNode.fetch is {e_fetch}")
    ob = k9.vec_literal_elems(f, so["order_by"])
    if ob is None or len(ob) != 1 or ".sort_key" not in ob[0]:
        return (False, f"SortNode.order_by is {ob}")
    if ".input" not in k9.kexpr(f, so["input"]):
        return (False, "SortNode.input is not node.input")
    # (2) the lowered plan of that LimitNode is argument 0 of VectorSearchExec::new
    news = [c for c in calls_in_lines(f, sp) if c.name == VS + "::new"]
    rec = [c for c in calls_in_lines(f, sp) if c.name == PL]
    if len(news) != 1 or len(rec) != 1:
        return (False, f"VectorSearch arm: {len(news)} VectorSearchExec::new, {len(rec)} recursive lowerings")
    if not derives_from(f, [news[0].args[0]], lambda k, x: (x is rec[0]) if k == "call" else None):
        return (False, "fallback argument is not the lowered Limit(Sort(input)) plan")
    if "planner::logical_plan::LogicalPlan::Limit{" not in k9.kexpr(f, rec[0].args[1]):
        return (False, f"the recursive lowering is not applied to the Limit plan: {k9.kexpr(f, rec[0].args[1])[:80]}")
    # (3) every operator the Limit arm can return declares one partition
    lsp = lim[0]["span"]
    ops = set()
    for i, j, dst, rv, line in stmts_in_lines(f, lsp):
        if rv[0] == "cast" and rv[4].startswith("std::sync::Arc<dyn " + TRAIT) and rv[3].startswith("std::sync::Arc<") and not rv[3].startswith("std::sync::Arc<dyn "):
            ops.add(rv[3][len("std::sync::Arc<"):-1])
    if not ops:
        return (False, "no operator constructions found in the Limit arm")
    # every value the arm returns must be a freshly constructed concrete operator (Arc<Concrete> unsized to Arc<dyn>);
    # a bare pass-through of the child (`Ok(input)`) would forward a multi-partition plan
    for i, j, dst, rv, line in stmts_in_lines(f, lsp):
        if dst == "0" and rv[0] == "agg" and rv[1] == "adt:std::result::Result::Ok":
            op = rv[2][0]
            concrete = False
            for _ in range(8):
                o = origin(f, op)
                if o[0] == "rv" and o[1][0] == "cast":
                    if o[1][3].startswith("std::sync::Arc<") and not o[1][3].startswith("std::sync::Arc<dyn "):
                        concrete = True
                        break
                    op = o[1][2]
                    continue
                break
            if not concrete:
                return (False, "the Limit arm can return a plan that is not a freshly built single-partition operator (e.g. its child unchanged)")
    import c07
    for ty in sorted(ops):
        ims = [im for im in F.impls_of(TRAIT) if im["self_ty"] == ty]
        if len(ims) != 1:
            return (False, f"operator type {ty} has {len(ims)} impls")
        mp = dict(ims[0]["methods"]).get("output_partitions")
        if mp is not None and not c07.const_one(F, mp):
            return (False, f"{ty}::output_partitions is not the constant 1")
    return (True, f"fallback = lowered Limit{{skip,Some(k)}}(Sort[sort_key](input)); Limit arm returns one of {sorted(o.rsplit('::',1)[-1] for o in ops)}, each declaring 1 partition")


def run(F, R):
    R.rule("C43.R1", "K1/K3", "scan_knn only from try_index, dominated by the mode != Indexed refusal; default mode Exact")
    R.rule("C43.R2", "K4/K7", "fallback plan is the literal Limit(Sort(input)) with node.skip/node.k/node.sort_key; Limit arm's operators declare 1 partition")
    R.rule("C43.R3", "K3", "execute: fallback reached whenever try_index is None; errors propagated")
    cs = F.callers_of("physical::operators::scan::TableProvider::scan_knn")
    R.floor("C43.R1", "scan_knn call sites", len(cs), 1)
    for c in cs:
        g = c.fn
        inside = g.path == VS + "::try_index"
        gs = guards.guards_of(g, c.bb, require_err=False)
        ok = any(".vector_search_mode" in cond and "Indexed" in cond and ((cond.startswith("ne(") or cond.startswith("Ne(") or "::ne(" in cond) and val is False or ("::eq(" in cond or cond.startswith("Eq(")) and val is True) for sb, cond, val in gs)
        R.check(inside and ok, "C43.R1", f"scan_knn@{g.path}", "the approximate index can be consulted without the user having opted in (mode == Indexed)", g.loc(c.bb), dict(guards=[(cnd, str(v)) for s, cnd, v in gs][:6]))
    d = F.fn("<execution::memory::ExecutionConfig as std::default::Default>::default")
    fam = F.family(d.path)
    exact = False
    for g in fam:
        for i, j, dst, rv, line in g.stmts():
            pass
        for c in g.calls():
            if c.name.rsplit("::", 1)[-1] == "unwrap_or" and "VectorSearchMode" in c.self_ty + "".join(c.argtys):
                o = origin(g, c.args[1])
                exact = o[0] == "rv" and o[1][0] == "agg" and o[1][1].endswith("VectorSearchMode::Exact")
    R.check(exact, "C43.R1", "default-mode-Exact", "ExecutionConfig::default() does not fall back to VectorSearchMode::Exact", d.loc(), dict())
    ok, why = fallback_single_partition(F)
    R.check(ok, "C43.R2", "fallback-is-literal-limit-sort", why, F.fn(PL).loc(), dict(premise=why))
    ex = F.fn("<" + VS + " as " + TRAIT + ">::execute::{closure#0}")
    ti = [c for c in ex.calls() if c.name == VS + "::try_index"]
    fb = [c for c in ex.calls() if c.callee == TRAIT + "::execute"]
    R.floor("C43.R3", "try_index / fallback.execute calls", len(ti) + len(fb), 2)
    if ti and fb:
        tags = result_consumers(ex, ti[0])
        R.check("try" in tags, "C43.R3", "try_index-error-propagated", f"try_index error not propagated ({sorted(tags)})", ex.loc(ti[0].bb), dict(consumers=sorted(tags)))
        # None edge of the Option reaches the fallback call and cannot return without it
        reached = False
        for sb in range(ex.n):
            si = ex.switch_info(sb)
            if si and si[0] == "enum" and si[1][1] == "std::option::Option" and ex.dominates(ti[0].bb, sb):
                t = si[2].get("None", si[3])
                if fb[0].bb in ex.reachable(t) and not ex.can_return_from(t, avoid=frozenset([fb[0].bb])):
                    reached = True
        R.check(reached, "C43.R3", "None->fallback", "when the index declines, execute can return without running the exact fallback", ex.loc(fb[0].bb), dict())
        e = k9.kexpr(ex, fb[0].args[0])
        R.check(".fallback" in e, "C43.R3", "fallback-receiver", f"execute(0) receiver is {e}", ex.loc(fb[0].bb), nontrivial=False)
    sort_key_as_bound(F, R)

def sort_key_as_bound(F, R):
    R.rule("C43.R4", "K5 provenance", "VectorSearchNode.sort_key built by the rule is a clone of the matched Sort's key")
    VN = "adt:planner::logical_plan::VectorSearchNode"
    SEP = "planner::logical_expr::SortExpr"
    n = 0
    for g in F.fns_building(VN):
        if not g.file.startswith("src/optimizer/"):
            continue
        for i, j, dst, rv, line in g.stmts():
            if rv[0] == "agg" and rv[1] == VN:
                n += 1
                m = dict(zip(rv[3], rv[2]))
                built = derives_from(g, [m["sort_key"]], lambda k, x: (k == "call" and x.name.startswith(SEP + "::") and x.name.rsplit("::", 1)[-1] in ("new", "asc", "desc", "nulls_first", "nulls_last", "with_nulls") and x) or None)
                lit = derives_from(g, [m["sort_key"]], lambda k, x: None)
                agg_lit = any(rv2[0] == "agg" and rv2[1] == "adt:" + SEP and place_local(dst2) in {place_local(op_place(m["sort_key"]))} for i2, j2, dst2, rv2, l2 in g.stmts() if op_place(m["sort_key"]))
                from_sort = derives_from(g, [m["sort_key"]], lambda k, x: (k == "place" and any(f_ == "order_by" for f_, a in place_fields(x)) and x) or None)
                R.check(bool(from_sort) and not built and not agg_lit, "C43.R4", f"{F.bodies[g.path]['name']}:sort_key-as-bound", "the fallback's sort key is rebuilt by the rule (SortExpr::new/asc/desc) instead of being the matched ORDER BY key: the constructor's NULLS FIRST default replaces the binder's NULLS LAST, so rows with a NULL vector (NULL distance) sort ahead of the real neighbours and displace them from the LIMIT", g.loc(i), dict())
    R.floor("C43.R4", "VectorSearchNode constructions in the optimizer", n, 1)
