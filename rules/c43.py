"""C43 placeholder"""
def fallback_single_partition(F):
    return (False, "C43.R2 not built yet")
def run(F, R):
    pass
