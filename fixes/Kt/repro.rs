//! Repro for `Kt-morsel-extract-scalar-default`.
//!
//! Placement: copy to `tests/triage_kt_morsel_extract_scalar.rs` (it is a
//! self-contained integration test; needs the `tempfile` dev-dependency and the
//! `parquet` dependency the crate already has), or include it from another
//! test target with
//! `#[path = "../triage/Kt-morsel-extract-scalar-default/repro.rs"] mod kt;`.
//! Run: `cargo test --offline --test triage_kt_morsel_extract_scalar`.
//!
//! `src/physical/morsel_agg.rs::extract_scalar` renders a cell of any type it
//! has no arm for (Timestamp, LargeUtf8, Date64, Time*, Binary, ...) as
//! `ScalarValue::Null`. `TypedArrayAccessor::Other` feeds that to
//! `AccumulatorState::update`, and COUNT counts "not Null" - so `COUNT(ts)`
//! over such a column is 0 on every path built on `AggregationState`
//! (`MorselAggregateExec` for Parquet, the fused streaming aggregate for
//! in-memory grouped queries).
//!
//! GROUP BY keys (and MIN/MAX/ANY_VALUE outputs) of those types do NOT come
//! back wrong: nothing upstream refuses them, all rows do collapse into one
//! Null-keyed group, but `build_scalar_array_ref` (same file) has no builder
//! for the output type and fails the statement with
//! "Unsupported data type for group array: ...". The last test pins that.

use arrow::array::{
    Array, Float32Array, Int16Array, Int64Array, LargeStringArray, StringArray,
    TimestampMicrosecondArray,
};
use arrow::datatypes::{DataType, Field, Schema, TimeUnit};
use arrow::record_batch::RecordBatch;
use query_engine::execution::ExecutionContext;
use std::sync::Arc;

/// g  id ts        s16  f32  ls
/// x  1  1s        7    1.5  a
/// x  2  2s        8    2.5  b
/// y  3  2s        8    2.5  b
/// y  4  3s        9    3.5  c
/// y  5  NULL      NULL NULL NULL
fn sample() -> RecordBatch {
    let schema = Arc::new(Schema::new(vec![
        Field::new("g", DataType::Utf8, false),
        Field::new("id", DataType::Int64, false),
        Field::new("ts", DataType::Timestamp(TimeUnit::Microsecond, None), true),
        Field::new("s16", DataType::Int16, true),
        Field::new("f32", DataType::Float32, true),
        Field::new("ls", DataType::LargeUtf8, true),
    ]));
    RecordBatch::try_new(
        schema,
        vec![
            Arc::new(StringArray::from(vec!["x", "x", "y", "y", "y"])),
            Arc::new(Int64Array::from(vec![1i64, 2, 3, 4, 5])),
            Arc::new(TimestampMicrosecondArray::from(vec![
                Some(1_000_000i64),
                Some(2_000_000),
                Some(2_000_000),
                Some(3_000_000),
                None,
            ])),
            Arc::new(Int16Array::from(vec![
                Some(7i16),
                Some(8),
                Some(8),
                Some(9),
                None,
            ])),
            Arc::new(Float32Array::from(vec![
                Some(1.5f32),
                Some(2.5),
                Some(2.5),
                Some(3.5),
                None,
            ])),
            Arc::new(LargeStringArray::from(vec![
                Some("a"),
                Some("b"),
                Some("b"),
                Some("c"),
                None,
            ])),
        ],
    )
    .unwrap()
}

/// Context with the sample registered as Parquet table `p` (morsel path) and
/// as in-memory table `m`. The TempDir must outlive the queries.
fn ctx() -> (ExecutionContext, tempfile::TempDir) {
    let dir = tempfile::tempdir().unwrap();
    let path = dir.path().join("p.parquet");
    let batch = sample();
    {
        let file = std::fs::File::create(&path).unwrap();
        let mut writer =
            parquet::arrow::ArrowWriter::try_new(file, batch.schema(), None).unwrap();
        writer.write(&batch).unwrap();
        writer.close().unwrap();
    }
    let mut ctx = ExecutionContext::new();
    ctx.register_parquet("p", &path).unwrap();
    ctx.register_batch("m", batch);
    (ctx, dir)
}

/// All rows of the result; every column cast to BIGINT.
async fn int_rows(ctx: &ExecutionContext, sql: &str) -> Vec<Vec<Option<i64>>> {
    let result = ctx
        .sql(sql)
        .await
        .unwrap_or_else(|e| panic!("{sql} failed: {e}"));
    let mut rows = Vec::new();
    for batch in &result.batches {
        let cols: Vec<_> = batch
            .columns()
            .iter()
            .map(|c| arrow::compute::cast(c, &DataType::Int64).unwrap())
            .collect();
        for r in 0..batch.num_rows() {
            rows.push(
                cols.iter()
                    .map(|c| {
                        let c = c.as_any().downcast_ref::<Int64Array>().unwrap();
                        if c.is_null(r) {
                            None
                        } else {
                            Some(c.value(r))
                        }
                    })
                    .collect(),
            );
        }
    }
    rows
}

#[tokio::test]
async fn parquet_global_count_of_timestamp_and_large_string_columns() {
    let (ctx, _dir) = ctx();
    // Unfixed tree: [[0, 4, 4, 0, 5]] - COUNT(ts) and COUNT(ls) are 0.
    assert_eq!(
        int_rows(
            &ctx,
            "SELECT COUNT(ts), COUNT(s16), COUNT(f32), COUNT(ls), COUNT(*) FROM p"
        )
        .await,
        vec![vec![Some(4), Some(4), Some(4), Some(4), Some(5)]]
    );
}

#[tokio::test]
async fn parquet_grouped_count_of_timestamp_and_large_string_columns() {
    let (ctx, _dir) = ctx();
    // g is a string key, so this is the generic morsel path (not the dense
    // direct-address one). Unfixed tree: [[0, 0, 2], [0, 0, 3]].
    let mut rows = int_rows(
        &ctx,
        "SELECT COUNT(ts), COUNT(ls), COUNT(*) FROM p GROUP BY g",
    )
    .await;
    rows.sort();
    assert_eq!(
        rows,
        vec![
            vec![Some(2), Some(2), Some(2)],
            vec![Some(2), Some(2), Some(3)]
        ]
    );
}

#[tokio::test]
async fn in_memory_grouped_count_of_timestamp_column() {
    let (ctx, _dir) = ctx();
    // Same AggregationState core via the fused streaming aggregate.
    // Unfixed tree: every count is 0.
    assert_eq!(
        int_rows(
            &ctx,
            "SELECT id, COUNT(ts) FROM m GROUP BY id ORDER BY id"
        )
        .await,
        vec![
            vec![Some(1), Some(1)],
            vec![Some(2), Some(1)],
            vec![Some(3), Some(1)],
            vec![Some(4), Some(1)],
            vec![Some(5), Some(0)]
        ]
    );
}

/// Keys / MIN / MAX of a type the accessor cannot represent are refused (by
/// `build_scalar_array_ref` today), never grouped or answered silently wrong.
/// Passes before and after the fix.
#[tokio::test]
async fn unrepresentable_keys_and_min_max_are_refused_or_correct() {
    let (ctx, _dir) = ctx();
    for key in ["ts", "s16", "f32", "ls"] {
        let sql = format!("SELECT COUNT(*) FROM p GROUP BY {key}");
        match ctx.sql(&sql).await {
            Err(e) => assert!(
                e.to_string().contains("Not implemented"),
                "{sql}: unexpected error {e}"
            ),
            // three distinct values plus the NULL group
            Ok(r) => assert_eq!(r.row_count, 4, "{sql}"),
        }
    }
    match ctx.sql("SELECT MIN(ts), MAX(ts) FROM p").await {
        Err(e) => assert!(
            e.to_string().contains("Not implemented"),
            "unexpected error {e}"
        ),
        Ok(r) => {
            let b = &r.batches[0];
            assert!(b.column(0).is_valid(0) && b.column(1).is_valid(0));
        }
    }
}
