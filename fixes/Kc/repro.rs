//! Triage repro for `Kc-cte-scope-and-cache`.
//! Place at `tests/triage_kc_cte_scope.rs`; run with
//! `cargo test --offline --test triage_kc_cte_scope`.
//!
//! (a) binder: WITH names are inserted into the binder-global `ctes` map and
//!     never removed/restored when the declaring query ends, so an inner WITH
//!     that reuses a name hijacks later OUTER references (and inner names leak
//!     out of their scope entirely).
//! (b) physical planner: shared CTEs (referenced 2+ times) are materialised
//!     once into a cache keyed by a hash of the NAME only.
//!
//! NOTE: every column that crosses a join below has a distinct name on
//! purpose. The engine has a separate, unrelated defect where `l.v` / `r.v`
//! (same column name on both sides of a join of two derived tables) resolve
//! to the same side; these tests must not trip over it.

use arrow::array::{Array, Int64Array};
use arrow::datatypes::DataType;
use query_engine::ExecutionContext;

/// All rows of the result, every column cast to Int64.
async fn rows(ctx: &ExecutionContext, sql: &str) -> Vec<Vec<Option<i64>>> {
    let res = ctx
        .sql(sql)
        .await
        .unwrap_or_else(|e| panic!("query failed: {e}\nSQL: {sql}"));
    let mut out = Vec::new();
    for b in &res.batches {
        let cols: Vec<_> = (0..b.num_columns())
            .map(|c| arrow::compute::cast(b.column(c), &DataType::Int64).unwrap())
            .collect();
        for r in 0..b.num_rows() {
            out.push(
                cols.iter()
                    .map(|c| {
                        let c = c.as_any().downcast_ref::<Int64Array>().unwrap();
                        if c.is_null(r) {
                            None
                        } else {
                            Some(c.value(r))
                        }
                    })
                    .collect(),
            );
        }
    }
    out.sort();
    out
}

// ---------------------------------------------------------------- (a) binder

#[tokio::test]
async fn a_inner_with_does_not_rebind_later_outer_reference_select_list() {
    let ctx = ExecutionContext::new();
    let got = rows(
        &ctx,
        "WITH c AS (SELECT 1 AS x) \
         SELECT (SELECT max(x) FROM (WITH c AS (SELECT 2 AS x) SELECT x FROM c) s) AS inner_x, \
                (SELECT max(x) FROM c) AS outer_x",
    )
    .await;
    assert_eq!(got, vec![vec![Some(2), Some(1)]], "inner_x = 2, outer_x = 1");
}

#[tokio::test]
async fn a_inner_with_does_not_rebind_later_outer_reference_from_clause() {
    let ctx = ExecutionContext::new();
    let got = rows(
        &ctx,
        "WITH c AS (SELECT 1 AS x) \
         SELECT s.y AS inner_y, c.x AS outer_x \
         FROM (WITH c AS (SELECT 2 AS x) SELECT x AS y FROM c) s JOIN c ON true",
    )
    .await;
    assert_eq!(got, vec![vec![Some(2), Some(1)]], "inner_y = 2, outer_x = 1");
}

#[tokio::test]
async fn a_inner_with_name_is_not_visible_outside_its_query() {
    let ctx = ExecutionContext::new();
    // `d` is declared inside the derived table only; the outer reference must
    // fail to resolve (no such table), not silently see the inner CTE.
    let res = ctx
        .sql("SELECT s.y, d.x FROM (WITH d AS (SELECT 2 AS x) SELECT x AS y FROM d) s JOIN d ON true")
        .await;
    assert!(
        res.is_err(),
        "CTE `d` leaked out of the subquery that declared it: {:?}",
        res.map(|r| r.row_count)
    );
}

// ------------------------------------------------------- (b) shared-CTE cache

#[tokio::test]
async fn b_two_scopes_same_cte_name_each_referenced_twice() {
    let ctx = ExecutionContext::new();
    // Two sibling derived tables each declare their own `c` and each reference
    // it twice (=> "shared", materialised into the name-keyed cache).
    let got = rows(
        &ctx,
        "SELECT l.lv, r.rv FROM \
           (WITH c AS (SELECT 1 AS x) SELECT c1.x + c2.x AS lv FROM c c1 JOIN c c2 ON true) l \
         JOIN \
           (WITH c AS (SELECT 10 AS x) SELECT c1.x + c2.x AS rv FROM c c1 JOIN c c2 ON true) r \
         ON true",
    )
    .await;
    assert_eq!(got, vec![vec![Some(2), Some(20)]], "lv = 1+1, rv = 10+10");
}

#[tokio::test]
async fn b_outer_and_shadowing_inner_cte_each_referenced_twice() {
    let ctx = ExecutionContext::new();
    // Outer `c` is referenced twice AFTER nothing shadows it; inner `c` (in a
    // derived table that is bound first) is referenced twice as well.
    let got = rows(
        &ctx,
        "WITH c AS (SELECT 1 AS x) \
         SELECT i.iv AS inner_v, o1.x + o2.x AS outer_v FROM \
           (WITH c AS (SELECT 10 AS x) SELECT c1.x + c2.x AS iv FROM c c1 JOIN c c2 ON true) i \
           JOIN c o1 ON true JOIN c o2 ON true",
    )
    .await;
    assert_eq!(got, vec![vec![Some(20), Some(2)]], "inner_v = 20, outer_v = 2");
}
