//! Triage Ko-kway-merge-stale-row-refs: the spilled ORDER BY
//! (ExternalSortExec::streaming_k_way_merge) must return exactly the input
//! rows, in order, whatever the run sizes are.
//!
//! Goes in `tests/triage_ko.rs`. Run with
//! `cargo test --offline --test triage_ko`.

use arrow::array::*;
use arrow::datatypes::{DataType, Field, Schema};
use arrow::record_batch::RecordBatch;
use query_engine::{ExecutionConfig, ExecutionContext};
use std::path::PathBuf;
use std::sync::Arc;

const BATCH_ROWS: usize = 3000;

/// Table s(v BIGINT, w BIGINT) with w = v * 10, `values` laid out in
/// 3000-row batches (one batch = 48_750 estimated bytes).
fn ctx_with(values: &[i64], limit_bytes: usize, name: &str) -> ExecutionContext {
    let schema = Arc::new(Schema::new(vec![
        Field::new("v", DataType::Int64, false),
        Field::new("w", DataType::Int64, false),
    ]));
    let batches: Vec<RecordBatch> = values
        .chunks(BATCH_ROWS)
        .map(|c| {
            RecordBatch::try_new(
                schema.clone(),
                vec![
                    Arc::new(Int64Array::from(c.to_vec())),
                    Arc::new(Int64Array::from(
                        c.iter().map(|v| v * 10).collect::<Vec<_>>(),
                    )),
                ],
            )
            .unwrap()
        })
        .collect();
    let spill_path = PathBuf::from(format!(
        "{}/target/test_spill/{name}",
        env!("CARGO_MANIFEST_DIR")
    ));
    let mut ctx = ExecutionContext::with_config(
        ExecutionConfig::new()
            .with_memory_limit(limit_bytes)
            .with_spill_path(spill_path),
    );
    ctx.register_table("s", schema, batches);
    ctx
}

/// Run the spilled sort; return (v, w) pairs in output order.
async fn sorted_pairs(ctx: &ExecutionContext) -> Vec<(i64, i64)> {
    let r = ctx.sql("SELECT v, w FROM s ORDER BY v").await.unwrap();
    assert!(
        r.metrics.spill_metrics.is_some(),
        "expected the sort to spill"
    );
    let mut out = Vec::new();
    for b in &r.batches {
        let v = b.column(0).as_any().downcast_ref::<Int64Array>().unwrap();
        let w = b.column(1).as_any().downcast_ref::<Int64Array>().unwrap();
        for i in 0..b.num_rows() {
            assert!(!v.is_null(i) && !w.is_null(i), "NULL in a NOT NULL column");
            out.push((v.value(i), w.value(i)));
        }
    }
    out
}

/// First position where the output differs from 0..n (with w = 10 v), if any.
fn check(out: &[(i64, i64)], n: usize) -> Result<(), String> {
    if out.len() != n {
        return Err(format!("row count {} != expected {n}", out.len()));
    }
    for (i, &(v, w)) in out.iter().enumerate() {
        if v != i as i64 || w != v * 10 {
            return Err(format!("row {i}: got (v={v}, w={w}), expected (v={i}, w={})", i * 10));
        }
    }
    Ok(())
}

/// 6 runs of 3000 rows (64 KiB budget -> one 3000-row batch per run), input
/// already ascending, so runs are exhausted one after another: runs 0 and 1 are
/// gone by the time the first 8192-row flush resolves its row references.
#[tokio::test]
async fn run_exhausted_before_mid_merge_flush() {
    let n = 6 * BATCH_ROWS;
    let values: Vec<i64> = (0..n as i64).collect();
    let ctx = ctx_with(&values, 64 * 1024, "ko_exhausted");
    let out = sorted_pairs(&ctx).await;
    check(&out, n).unwrap();
}

/// 3 runs of 24_000 rows each (512 KiB budget -> 8 batches per run), values a
/// permutation of 0..72_000 so the runs interleave: every run's 8192-row read
/// buffer is replaced several times between flushes.
#[tokio::test]
async fn run_longer_than_one_read_batch() {
    let n = 72_000usize;
    let values: Vec<i64> = (0..n as i64).map(|i| (i * 7919) % n as i64).collect();
    let ctx = ctx_with(&values, 512 * 1024, "ko_long_runs");
    let out = sorted_pairs(&ctx).await;
    check(&out, n).unwrap();
}

/// More than 8 runs -> multi_pass_merge (its intermediate merged runs are
/// longer than one read batch too).
#[tokio::test]
async fn multi_pass_merge_keeps_every_row() {
    let n = 12 * BATCH_ROWS;
    let values: Vec<i64> = (0..n as i64).map(|i| (i * 7919) % n as i64).collect();
    let ctx = ctx_with(&values, 64 * 1024, "ko_multipass");
    let out = sorted_pairs(&ctx).await;
    check(&out, n).unwrap();
}
