//! Triage repro for F8b-sidecar-stamp-seconds. Goes in `tests/triage_f8b.rs`.
//!
//! The IPC sidecar freshness stamp is `v2:<len>:<mtime in WHOLE SECONDS>`.
//! A parquet file rewritten within the same second with the same byte length
//! but different content keeps its sidecar "fresh", so queries answer from
//! the stale sidecar.
//!
//! Runs in build mode (QE_IPC_CACHE=1). `ipc_cache::mode()` latches the env
//! var on first use, so this file holds ONE test and sets it first.

use arrow::array::{ArrayRef, Int64Array};
use arrow::datatypes::{DataType, Field, Schema};
use arrow::record_batch::RecordBatch;
use parquet::arrow::ArrowWriter;
use parquet::basic::{Compression, Encoding};
use parquet::file::properties::WriterProperties;
use query_engine::execution::ExecutionContext;
use query_engine::storage::ipc_cache;
use std::fs::File;
use std::path::Path;
use std::sync::Arc;
use std::time::{Duration, SystemTime, UNIX_EPOCH};

const ROWS: i64 = 1000;

fn schema() -> Arc<Schema> {
    Arc::new(Schema::new(vec![Field::new("x", DataType::Int64, false)]))
}

/// PLAIN, uncompressed, no dictionary: the file length depends only on the
/// row count, not on the values.
fn write_parquet(path: &Path, start: i64) {
    let props = WriterProperties::builder()
        .set_compression(Compression::UNCOMPRESSED)
        .set_dictionary_enabled(false)
        .set_encoding(Encoding::PLAIN)
        .build();
    let batch = RecordBatch::try_new(
        schema(),
        vec![Arc::new(Int64Array::from((start..start + ROWS).collect::<Vec<_>>())) as ArrayRef],
    )
    .unwrap();
    let mut w = ArrowWriter::try_new(File::create(path).unwrap(), schema(), Some(props)).unwrap();
    w.write(&batch).unwrap();
    w.close().unwrap();
}

fn set_mtime(path: &Path, t: SystemTime) {
    File::options()
        .write(true)
        .open(path)
        .unwrap()
        .set_modified(t)
        .unwrap();
}

fn sidecar_sum(path: &Path) -> i64 {
    let dir = ipc_cache::ensure_sidecar(path).expect("build mode must yield a sidecar");
    ipc_cache::read_row_group(&dir, 0, None, None)
        .unwrap()
        .iter()
        .map(|b| {
            arrow::compute::sum(b.column(0).as_any().downcast_ref::<Int64Array>().unwrap())
                .unwrap_or(0)
        })
        .sum()
}

async fn sql_sum(path: &Path) -> i64 {
    let mut ctx = ExecutionContext::new();
    ctx.register_parquet("t", path).unwrap();
    let r = ctx.sql("SELECT SUM(x) FROM t").await.unwrap();
    r.batches
        .iter()
        .filter(|b| b.num_rows() > 0)
        .map(|b| {
            b.column(0)
                .as_any()
                .downcast_ref::<Int64Array>()
                .unwrap()
                .value(0)
        })
        .sum()
}

#[tokio::test]
async fn sidecar_is_rebuilt_after_same_second_same_length_rewrite() {
    std::env::set_var("QE_IPC_CACHE", "1");
    assert!(ipc_cache::mode() == ipc_cache::Mode::Build);

    let dir = tempfile::tempdir().unwrap();
    let path = dir.path().join("t.parquet");

    // Two writes inside one wall-clock second: same whole-second mtime,
    // different sub-second part (what any ext4/xfs/tmpfs rewrite looks like).
    let sec = SystemTime::now()
        .duration_since(UNIX_EPOCH)
        .unwrap()
        .as_secs();
    let t_a = UNIX_EPOCH + Duration::new(sec, 100_000_000);
    let t_b = UNIX_EPOCH + Duration::new(sec, 600_000_000);

    let sum_a: i64 = (0..ROWS).sum();
    let sum_b: i64 = (ROWS..2 * ROWS).sum();

    write_parquet(&path, 0);
    set_mtime(&path, t_a);
    let len_a = std::fs::metadata(&path).unwrap().len();
    assert_eq!(sidecar_sum(&path), sum_a);
    assert_eq!(sql_sum(&path).await, sum_a);

    write_parquet(&path, ROWS);
    set_mtime(&path, t_b);
    let meta_b = std::fs::metadata(&path).unwrap();
    assert_eq!(meta_b.len(), len_a, "the rewrite must keep the byte length");
    assert_eq!(meta_b.modified().unwrap(), t_b, "filesystem keeps sub-second mtime");
    assert_ne!(t_a, t_b);

    assert_eq!(
        sidecar_sum(&path),
        sum_b,
        "ensure_sidecar called the stale sidecar fresh after a same-second rewrite"
    );
    assert_eq!(
        sql_sum(&path).await,
        sum_b,
        "SELECT SUM(x) answered from the stale sidecar"
    );
}
