//! Triage Kp-correlated-subquery-errors-swallowed: a correlated subquery that
//! FAILS at run time for some outer row must fail the statement, exactly as
//! the same failure does in an uncorrelated subquery -- not turn into NULL
//! (scalar) / false (EXISTS) for that row.
//!
//! Goes in `tests/triage_kp.rs`. Run with
//! `cargo test --offline --test triage_kp`.

use arrow::array::*;
use arrow::datatypes::{DataType, Field, Schema};
use arrow::record_batch::RecordBatch;
use query_engine::ExecutionContext;
use std::sync::Arc;

/// t(k, v) = (1,10),(2,20),(3,30)
/// s(k, v, name) = (1,100,'7'),(2,200,'8'),(2,201,'x'),(4,400,'9')  -- two rows for k=2
/// u(v) = (1),(2)
fn ctx() -> ExecutionContext {
    let mut ctx = ExecutionContext::new();
    let t = RecordBatch::try_new(
        Arc::new(Schema::new(vec![
            Field::new("k", DataType::Int64, false),
            Field::new("v", DataType::Int64, false),
        ])),
        vec![
            Arc::new(Int64Array::from(vec![1, 2, 3])),
            Arc::new(Int64Array::from(vec![10, 20, 30])),
        ],
    )
    .unwrap();
    let s = RecordBatch::try_new(
        Arc::new(Schema::new(vec![
            Field::new("k", DataType::Int64, false),
            Field::new("v", DataType::Int64, false),
            Field::new("name", DataType::Utf8, false),
        ])),
        vec![
            Arc::new(Int64Array::from(vec![1, 2, 2, 4])),
            Arc::new(Int64Array::from(vec![100, 200, 201, 400])),
            Arc::new(StringArray::from(vec!["7", "8", "x", "9"])),
        ],
    )
    .unwrap();
    let u = RecordBatch::try_new(
        Arc::new(Schema::new(vec![Field::new("v", DataType::Int64, false)])),
        vec![Arc::new(Int64Array::from(vec![1, 2]))],
    )
    .unwrap();
    ctx.register_batch("t", t);
    ctx.register_batch("s", s);
    ctx.register_batch("u", u);
    ctx
}

/// Ok(rendered rows, sorted) or Err(message).
async fn run(sql: &str) -> Result<Vec<String>, String> {
    let r = ctx().sql(sql).await.map_err(|e| e.to_string())?;
    let mut rows = Vec::new();
    for b in &r.batches {
        for i in 0..b.num_rows() {
            let cells: Vec<String> = b
                .columns()
                .iter()
                .map(|c| {
                    if c.is_null(i) {
                        "NULL".to_string()
                    } else if let Some(a) = c.as_any().downcast_ref::<Int64Array>() {
                        a.value(i).to_string()
                    } else if let Some(a) = c.as_any().downcast_ref::<BooleanArray>() {
                        a.value(i).to_string()
                    } else if let Some(a) = c.as_any().downcast_ref::<StringArray>() {
                        a.value(i).to_string()
                    } else {
                        format!("{:?}", c.slice(i, 1))
                    }
                })
                .collect();
            rows.push(cells.join(","));
        }
    }
    rows.sort();
    Ok(rows)
}

/// Control: the UNcorrelated forms of the same failures do fail the statement.
#[tokio::test]
async fn uncorrelated_failures_propagate() {
    let r = run("SELECT t.k, (SELECT s.v FROM s WHERE s.k = 2) AS sv FROM t").await;
    eprintln!("uncorrelated scalar 2 rows -> {r:?}");
    assert!(r.is_err(), "uncorrelated 2-row scalar subquery: {r:?}");
    let r = run("SELECT t.k FROM t WHERE EXISTS (SELECT 1 FROM s WHERE s.v > (SELECT u.v FROM u))")
        .await;
    eprintln!("uncorrelated exists w/ failing inner -> {r:?}");
    assert!(r.is_err(), "uncorrelated EXISTS with failing body: {r:?}");
}

/// Scalar subquery in the SELECT list, two s rows for t.k = 2.
#[tokio::test]
async fn correlated_scalar_more_than_one_row_select_list() {
    let r = run("SELECT t.k, (SELECT s.v FROM s WHERE s.k = t.k) AS sv FROM t").await;
    eprintln!("select-list -> {r:?}");
    assert!(
        r.is_err(),
        "scalar subquery returns 2 rows for t.k = 2; statement must fail, got {r:?}"
    );
}

/// Non-equality correlation in WHERE: for t.k = 3 the subquery sees s.k in {1,2,2}.
#[tokio::test]
async fn correlated_scalar_more_than_one_row_where_non_equi() {
    let r = run("SELECT t.k FROM t WHERE t.v < (SELECT s.v FROM s WHERE s.k < t.k)").await;
    eprintln!("where non-equi -> {r:?}");
    assert!(r.is_err(), "statement must fail, got {r:?}");
}

/// Equality correlation under OR (not decorrelatable into a plain join).
#[tokio::test]
async fn correlated_scalar_more_than_one_row_where_or() {
    let r =
        run("SELECT t.k FROM t WHERE t.k = 1 OR t.v < (SELECT s.v FROM s WHERE s.k = t.k)").await;
    eprintln!("where or -> {r:?}");
    assert!(r.is_err(), "statement must fail, got {r:?}");
}

/// Correlated EXISTS whose body fails at run time (nested uncorrelated scalar
/// subquery over u returns 2 rows).
#[tokio::test]
async fn correlated_exists_failing_body() {
    let r = run(
        "SELECT t.k FROM t WHERE t.k = 99 OR EXISTS \
         (SELECT 1 FROM s WHERE s.k < t.k AND s.v > (SELECT u.v FROM u))",
    )
    .await;
    eprintln!("exists -> {r:?}");
    assert!(r.is_err(), "statement must fail, got {r:?}");
}

#[tokio::test]
async fn correlated_not_exists_failing_body() {
    let r = run(
        "SELECT t.k FROM t WHERE t.k = 99 OR NOT EXISTS \
         (SELECT 1 FROM s WHERE s.k < t.k AND s.v > (SELECT u.v FROM u))",
    )
    .await;
    eprintln!("not exists -> {r:?}");
    assert!(r.is_err(), "statement must fail, got {r:?}");
}

/// Sanity: well-behaved correlated subqueries keep working.
#[tokio::test]
async fn correlated_subqueries_that_succeed_still_work() {
    let r = run("SELECT t.k, (SELECT COUNT(*) FROM s WHERE s.k = t.k) AS c FROM t").await;
    assert_eq!(
        r,
        Ok(vec!["1,1".to_string(), "2,2".to_string(), "3,0".to_string()])
    );
    let r = run("SELECT t.k, (SELECT s.v FROM s WHERE s.k = t.k AND s.v <> 201) AS sv FROM t").await;
    assert_eq!(
        r,
        Ok(vec!["1,100".to_string(), "2,200".to_string(), "3,NULL".to_string()])
    );
    let r = run(
        "SELECT t.k FROM t WHERE t.k = 99 OR EXISTS (SELECT 1 FROM s WHERE s.k < t.k)",
    )
    .await;
    assert_eq!(r, Ok(vec!["2".to_string(), "3".to_string()]));
}
