//! Triage repro for `Kl-decimal-stat-scale`. Goes in `tests/triage_kl_decimal_stat_scale.rs`.
//!
//! `src/storage/row_group_pruning.rs` compares Parquet footer statistics with
//! predicate literals by PHYSICAL type only. A DECIMAL(p,s) column with
//! p <= 18 is stored as INT32/INT64 and its footer min/max are the UNSCALED
//! integers (12.34 at scale 2 -> 1234). The binder leaves `d < 10` as a bare
//! `Column(d) < Literal(Int64(10))`, so the pruner compares 10 with unscaled
//! 100..5000 and
//!   * prunes row groups that DO contain matches (rows lost), and
//!   * "proves" row groups fully matching that do NOT match, dropping the
//!     decoder row filter (rows wrongly kept).
//! The same queries on an in-memory table give the right answers.
//!
//! Run: `cargo test --offline --test triage_kl_decimal_stat_scale`

use arrow::array::{ArrayRef, Decimal128Array, Int64Array};
use arrow::datatypes::{DataType, Field, Schema};
use arrow::record_batch::RecordBatch;
use parquet::arrow::ArrowWriter;
use query_engine::execution::ExecutionContext;
use std::fs::File;
use std::sync::Arc;

async fn run(ctx: &ExecutionContext, q: &str) -> String {
    match ctx.sql(q).await {
        Ok(r) => {
            let mut out = vec![];
            for b in &r.batches {
                for i in 0..b.num_rows() {
                    let mut row = vec![];
                    for c in b.columns() {
                        row.push(if c.is_null(i) {
                            "NULL".to_string()
                        } else {
                            arrow::util::display::array_value_to_string(c, i).unwrap()
                        });
                    }
                    out.push(row.join("|"));
                }
            }
            out.sort();
            format!("{:?}", out)
        }
        Err(e) => format!("ERR {e}"),
    }
}

/// Table t(id BIGINT, d DECIMAL(precision,2)) with d = 1.00, 2.00, ... 50.00
/// (unscaled 100 ..= 5000), no NULLs, one row group, default writer
/// properties (chunk statistics on). Returns (parquet ctx, in-memory ctx).
fn contexts(precision: u8, dir: &std::path::Path) -> (ExecutionContext, ExecutionContext) {
    let schema = Arc::new(Schema::new(vec![
        Field::new("id", DataType::Int64, false),
        Field::new("d", DataType::Decimal128(precision, 2), false),
    ]));
    let unscaled: Vec<i128> = (1..=50).map(|i| i * 100).collect();
    let batch = RecordBatch::try_new(
        schema.clone(),
        vec![
            Arc::new(Int64Array::from((1..=50).collect::<Vec<i64>>())) as ArrayRef,
            Arc::new(
                Decimal128Array::from(unscaled)
                    .with_precision_and_scale(precision, 2)
                    .unwrap(),
            ) as ArrayRef,
        ],
    )
    .unwrap();
    let path = dir.join(format!("t{precision}.parquet"));
    let mut w = ArrowWriter::try_new(File::create(&path).unwrap(), schema.clone(), None).unwrap();
    w.write(&batch).unwrap();
    w.close().unwrap();
    let md = query_engine::storage::metadata_cache::cached_metadata(&path).unwrap();
    println!(
        "DECIMAL({precision},2) footer stats: {:?}",
        md.metadata().row_group(0).column(1).statistics()
    );
    let mut pq = ExecutionContext::new();
    pq.register_parquet("t", &path).unwrap();
    let mut mem = ExecutionContext::new();
    mem.register_table("t", schema, vec![batch]);
    (pq, mem)
}

const CASES: &[(&str, &str)] = &[
    // Rows LOST: pruner compares 10 with unscaled min 100 and drops the row group.
    ("SELECT COUNT(*) FROM t WHERE d < 10", r#"["9"]"#),
    ("SELECT COUNT(*) FROM t WHERE d <= 10", r#"["10"]"#),
    ("SELECT id FROM t WHERE d = 5", r#"["5"]"#),
    ("SELECT COUNT(*) FROM t WHERE d BETWEEN 1 AND 10", r#"["10"]"#),
    ("SELECT COUNT(*) FROM t WHERE d IN (3, 4)", r#"["2"]"#),
    ("SELECT COUNT(*) FROM t WHERE 10 > d", r#"["9"]"#),
    // Rows WRONGLY KEPT: unscaled min 100 > 60 "proves" every row matches and
    // the decoder RowFilter is dropped for the row group.
    ("SELECT COUNT(*) FROM t WHERE d > 60", r#"["0"]"#),
    ("SELECT COUNT(*) FROM t WHERE d >= 51", r#"["0"]"#),
    ("SELECT COUNT(*) FROM t WHERE d > 60.5", r#"["0"]"#),
    ("SELECT COUNT(*) FROM t WHERE d <> 7", r#"["49"]"#),
    ("SELECT COUNT(*) FROM t WHERE d > 10", r#"["40"]"#),
    // Controls that are right either way.
    ("SELECT COUNT(*) FROM t WHERE d < 1000", r#"["50"]"#),
    ("SELECT COUNT(*) FROM t", r#"["50"]"#),
];

async fn check(precision: u8) {
    let tmp = tempfile::tempdir().unwrap();
    let (pq, mem) = contexts(precision, tmp.path());
    let mut bad = vec![];
    for (q, expected) in CASES {
        let m = run(&mem, q).await;
        let p = run(&pq, q).await;
        println!("Q {q}\n   parquet: {p}\n   memory : {m}\n   expect : {expected}");
        assert_eq!(&m, expected, "in-memory table answer for {q}");
        if &p != expected {
            bad.push(format!("{q}: parquet returned {p}, expected {expected}"));
        }
    }
    assert!(
        bad.is_empty(),
        "DECIMAL({precision},2) parquet-backed answers differ:\n  {}",
        bad.join("\n  ")
    );
}

/// DECIMAL(10,2): arrow writes physical INT64.
#[tokio::test]
async fn decimal_int64_physical() {
    check(10).await;
}

/// DECIMAL(9,2): arrow writes physical INT32.
#[tokio::test]
async fn decimal_int32_physical() {
    check(9).await;
}
