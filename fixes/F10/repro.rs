//! Triage F10-in-subquery-two-valued: `x [NOT] IN (SELECT ...)` must follow SQL
//! three-valued logic. Goes in `tests/triage_f10_in_subquery.rs`.
//! (The decorrelated NOT IN -> Anti join site is in `triage_f10_decorrelated.rs`.)
//!
//! These tests reach `physical/operators/subquery.rs::evaluate_in_subquery`
//! (shapes the optimizer does not decorrelate: under OR, in the SELECT list, in CASE).

use arrow::array::{Array, ArrayRef, BooleanArray, Int64Array};
use arrow::datatypes::{DataType, Field, Schema};
use arrow::record_batch::RecordBatch;
use query_engine::ExecutionContext;
use std::sync::Arc;

fn one_col(name: &str, v: Vec<Option<i64>>) -> (Arc<Schema>, RecordBatch) {
    let schema = Arc::new(Schema::new(vec![Field::new(name, DataType::Int64, true)]));
    let b = RecordBatch::try_new(
        schema.clone(),
        vec![Arc::new(Int64Array::from(v)) as ArrayRef],
    )
    .unwrap();
    (schema, b)
}

/// t(id, x): (1,1) (2,2) (3,NULL) (4,5)
/// s(y):  1, NULL, 3      -- contains a NULL
/// s2(y): 1, 3            -- no NULL
/// s0(y): (empty)
fn ctx() -> ExecutionContext {
    let schema = Arc::new(Schema::new(vec![
        Field::new("id", DataType::Int64, false),
        Field::new("x", DataType::Int64, true),
    ]));
    let t = RecordBatch::try_new(
        schema.clone(),
        vec![
            Arc::new(Int64Array::from(vec![1, 2, 3, 4])) as ArrayRef,
            Arc::new(Int64Array::from(vec![Some(1), Some(2), None, Some(5)])) as ArrayRef,
        ],
    )
    .unwrap();
    let mut ctx = ExecutionContext::new();
    ctx.register_table("t", schema, vec![t]);
    let (sc, b) = one_col("y", vec![Some(1), None, Some(3)]);
    ctx.register_table("s", sc, vec![b]);
    let (sc, b) = one_col("y", vec![Some(1), Some(3)]);
    ctx.register_table("s2", sc, vec![b]);
    let (sc, b) = one_col("y", vec![]);
    ctx.register_table("s0", sc, vec![b]);
    ctx
}

async fn ids(sql: &str) -> Vec<i64> {
    let res = ctx().sql(sql).await.unwrap_or_else(|e| panic!("{sql}: {e}"));
    let mut out = vec![];
    for b in &res.batches {
        let c = b.column(0).as_any().downcast_ref::<Int64Array>().unwrap();
        out.extend((0..c.len()).map(|i| c.value(i)));
    }
    out.sort();
    out
}

async fn bools(sql: &str) -> Vec<Option<bool>> {
    let res = ctx().sql(sql).await.unwrap_or_else(|e| panic!("{sql}: {e}"));
    let mut out = vec![];
    for b in &res.batches {
        let c = b
            .column(1)
            .as_any()
            .downcast_ref::<BooleanArray>()
            .unwrap_or_else(|| panic!("{sql}: column 1 is {:?}", b.column(1).data_type()));
        out.extend((0..c.len()).map(|i| c.is_valid(i).then(|| c.value(i))));
    }
    out
}

// ---------------------------------------------------------------- evaluator

#[tokio::test]
async fn evaluator_select_list_in() {
    // x IN (1, NULL, 3): 1 -> TRUE; 2 -> NULL; NULL -> NULL; 5 -> NULL
    assert_eq!(
        bools("SELECT id, x IN (SELECT y FROM s) AS r FROM t ORDER BY id").await,
        vec![Some(true), None, None, None]
    );
    // x IN (1, 3): 1 -> TRUE; 2 -> FALSE; NULL -> NULL; 5 -> FALSE
    assert_eq!(
        bools("SELECT id, x IN (SELECT y FROM s2) AS r FROM t ORDER BY id").await,
        vec![Some(true), Some(false), None, Some(false)]
    );
    // x IN (empty) is FALSE even for a NULL x
    assert_eq!(
        bools("SELECT id, x IN (SELECT y FROM s0) AS r FROM t ORDER BY id").await,
        vec![Some(false), Some(false), Some(false), Some(false)]
    );
}

#[tokio::test]
async fn evaluator_select_list_not_in() {
    assert_eq!(
        bools("SELECT id, x NOT IN (SELECT y FROM s) AS r FROM t ORDER BY id").await,
        vec![Some(false), None, None, None]
    );
    assert_eq!(
        bools("SELECT id, x NOT IN (SELECT y FROM s2) AS r FROM t ORDER BY id").await,
        vec![Some(false), Some(true), None, Some(true)]
    );
    assert_eq!(
        bools("SELECT id, x NOT IN (SELECT y FROM s0) AS r FROM t ORDER BY id").await,
        vec![Some(true), Some(true), Some(true), Some(true)]
    );
}

#[tokio::test]
async fn evaluator_not_in_under_or_with_null_in_subquery() {
    // x NOT IN (1, NULL, 3) is never TRUE; id = 100 matches nothing.
    assert_eq!(
        ids("SELECT id FROM t WHERE x NOT IN (SELECT y FROM s) OR id = 100").await,
        Vec::<i64>::new()
    );
}

#[tokio::test]
async fn evaluator_not_of_in_with_null_probe() {
    // NOT (NULL IN (1,3)) is NULL -> CASE takes ELSE for id 3.
    assert_eq!(
        ids("SELECT id FROM t WHERE CASE WHEN NOT (x IN (SELECT y FROM s2)) THEN 1 ELSE 0 END = 1")
            .await,
        vec![2, 4]
    );
    assert_eq!(
        ids("SELECT id FROM t WHERE NOT (x IN (SELECT y FROM s2)) OR id = 100").await,
        vec![2, 4]
    );
}

