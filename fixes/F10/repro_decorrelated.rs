//! Triage F10-in-subquery-two-valued: `x [NOT] IN (SELECT ...)` must follow SQL
//! three-valued logic. Goes in `tests/triage_f10_decorrelated.rs`.
//! (The row-wise evaluator site is in `triage_f10_in_subquery.rs`.)
//!
//! These tests reach `optimizer/rules/subquery_decorrelation.rs::
//! decorrelate_in_subquery` (a top-level conjunct of WHERE -> Semi/Anti join on x = y,
//! `filter: None`). No fix is proposed for this site: they fail on the unmodified
//! tree and keep failing with the evaluator fix applied.

use arrow::array::{ArrayRef, Int64Array};
use arrow::datatypes::{DataType, Field, Schema};
use arrow::record_batch::RecordBatch;
use query_engine::ExecutionContext;
use std::sync::Arc;

fn one_col(name: &str, v: Vec<Option<i64>>) -> (Arc<Schema>, RecordBatch) {
    let schema = Arc::new(Schema::new(vec![Field::new(name, DataType::Int64, true)]));
    let b = RecordBatch::try_new(
        schema.clone(),
        vec![Arc::new(Int64Array::from(v)) as ArrayRef],
    )
    .unwrap();
    (schema, b)
}

/// t(id, x): (1,1) (2,2) (3,NULL) (4,5)
/// s(y):  1, NULL, 3      -- contains a NULL
/// s2(y): 1, 3            -- no NULL
/// s0(y): (empty)
fn ctx() -> ExecutionContext {
    let schema = Arc::new(Schema::new(vec![
        Field::new("id", DataType::Int64, false),
        Field::new("x", DataType::Int64, true),
    ]));
    let t = RecordBatch::try_new(
        schema.clone(),
        vec![
            Arc::new(Int64Array::from(vec![1, 2, 3, 4])) as ArrayRef,
            Arc::new(Int64Array::from(vec![Some(1), Some(2), None, Some(5)])) as ArrayRef,
        ],
    )
    .unwrap();
    let mut ctx = ExecutionContext::new();
    ctx.register_table("t", schema, vec![t]);
    let (sc, b) = one_col("y", vec![Some(1), None, Some(3)]);
    ctx.register_table("s", sc, vec![b]);
    let (sc, b) = one_col("y", vec![Some(1), Some(3)]);
    ctx.register_table("s2", sc, vec![b]);
    let (sc, b) = one_col("y", vec![]);
    ctx.register_table("s0", sc, vec![b]);
    ctx
}

async fn ids(sql: &str) -> Vec<i64> {
    let res = ctx().sql(sql).await.unwrap_or_else(|e| panic!("{sql}: {e}"));
    let mut out = vec![];
    for b in &res.batches {
        let c = b.column(0).as_any().downcast_ref::<Int64Array>().unwrap();
        out.extend((0..c.len()).map(|i| c.value(i)));
    }
    out.sort();
    out
}

// ------------------------------------------------------------- decorrelated

#[tokio::test]
async fn decorrelated_not_in_with_null_in_subquery_keeps_no_row() {
    let res = ctx()
        .sql("SELECT count(*) FROM t WHERE x NOT IN (SELECT y FROM s)")
        .await
        .unwrap();
    let c = res.batches[0]
        .column(0)
        .as_any()
        .downcast_ref::<Int64Array>()
        .unwrap()
        .value(0);
    assert_eq!(c, 0, "x NOT IN (1, NULL, 3) is never TRUE");
}

#[tokio::test]
async fn decorrelated_not_in_drops_null_probe() {
    // NULL NOT IN (1, 3) is NULL: id 3 must not be kept.
    assert_eq!(
        ids("SELECT id FROM t WHERE x NOT IN (SELECT y FROM s2)").await,
        vec![2, 4]
    );
}

#[tokio::test]
async fn decorrelated_in_is_fine() {
    assert_eq!(ids("SELECT id FROM t WHERE x IN (SELECT y FROM s)").await, vec![1]);
    // NOT IN over an empty subquery keeps every row, the NULL one included.
    assert_eq!(
        ids("SELECT id FROM t WHERE x NOT IN (SELECT y FROM s0)").await,
        vec![1, 2, 3, 4]
    );
}
