//! Goes in tests/triage_kq.rs. MIN/MAX over no non-NULL input must be NULL (SQL), not a sentinel.
use arrow::array::{Array, Date32Array, Float64Array, Int64Array};
use arrow::datatypes::{DataType, Field, Schema};
use arrow::record_batch::RecordBatch;
use query_engine::execution::ExecutionContext;
use std::sync::Arc;

fn ctx() -> ExecutionContext {
    let schema = Arc::new(Schema::new(vec![
        Field::new("k", DataType::Int64, false),
        Field::new("v", DataType::Int64, true),
        Field::new("f", DataType::Float64, true),
        Field::new("d", DataType::Date32, true),
    ]));
    let batch = RecordBatch::try_new(
        schema.clone(),
        vec![
            Arc::new(Int64Array::from(vec![1, 2, 2])),
            Arc::new(Int64Array::from(vec![Some(10), None, None])),
            Arc::new(Float64Array::from(vec![Some(1.5), None, None])),
            Arc::new(Date32Array::from(vec![Some(100), None, None])),
        ],
    )
    .unwrap();
    let mut ctx = ExecutionContext::new();
    ctx.register_table("t", schema, vec![batch]);
    ctx
}

async fn single_is_null(ctx: &ExecutionContext, sql: &str) -> bool {
    let r = ctx.sql(sql).await.unwrap();
    let rows: usize = r.batches.iter().map(|b| b.num_rows()).sum();
    assert_eq!(rows, 1, "{sql}: a global aggregate returns exactly one row");
    let b = r.batches.iter().find(|b| b.num_rows() == 1).unwrap();
    b.column(0).is_null(0)
}

#[tokio::test]
async fn min_max_over_no_rows_is_null() {
    let ctx = ctx();
    for col in ["v", "f", "d"] {
        for f in ["MIN", "MAX"] {
            // no row matches
            let sql = format!("SELECT {f}({col}) FROM t WHERE k = 3");
            assert!(single_is_null(&ctx, &sql).await, "{sql} must be NULL");
            // rows match but every input is NULL
            let sql = format!("SELECT {f}({col}) FROM t WHERE k = 2");
            assert!(single_is_null(&ctx, &sql).await, "{sql} must be NULL");
        }
    }
    // control: a real value is still returned
    let r = ctx.sql("SELECT MAX(v) FROM t WHERE k = 1").await.unwrap();
    let b = r.batches.iter().find(|b| b.num_rows() == 1).unwrap();
    assert_eq!(b.column(0).as_any().downcast_ref::<Int64Array>().unwrap().value(0), 10);
}
