//! Triage repro for `Kf-dense-agg-null-keys`. Goes in `tests/triage_kf_dense_agg_null_keys.rs`.
//!
//! `MorselAggregateExec::try_execute_dense_direct` is an optional fast path
//! (single Int64/Int32/Date32 group key with footer min/max spanning <= 64M
//! values, COUNT/SUM/AVG aggregates). It must DECLINE (`Ok(None)`) for inputs
//! it cannot handle; instead it fails the whole query when the key column
//! contains a NULL. The same query on an in-memory table answers with a NULL
//! group, which is the SQL-standard behaviour.
//!
//! Run: `cargo test --offline --test triage_kf_dense_agg_null_keys`

use arrow::array::{ArrayRef, Date32Array, Float64Array, Int32Array, Int64Array};
use arrow::datatypes::{DataType, Field, Schema};
use arrow::record_batch::RecordBatch;
use parquet::arrow::ArrowWriter;
use query_engine::execution::ExecutionContext;
use std::fs::File;
use std::sync::Arc;

/// Rows rendered as sorted "a|b|c" strings, or "ERR ..." on failure.
async fn run(ctx: &ExecutionContext, q: &str) -> String {
    match ctx.sql(q).await {
        Ok(r) => {
            let mut out = vec![];
            for b in &r.batches {
                for i in 0..b.num_rows() {
                    let mut row = vec![];
                    for c in b.columns() {
                        row.push(if c.is_null(i) {
                            "NULL".to_string()
                        } else {
                            arrow::util::display::array_value_to_string(c, i).unwrap()
                        });
                    }
                    out.push(row.join("|"));
                }
            }
            out.sort();
            format!("{:?}", out)
        }
        Err(e) => format!("ERR {e}"),
    }
}

fn contexts(
    schema: Arc<Schema>,
    batch: RecordBatch,
    dir: &std::path::Path,
) -> (ExecutionContext, ExecutionContext) {
    let path = dir.join("t.parquet");
    // Default writer properties: chunk-level statistics (min/max/null_count) on.
    let mut w = ArrowWriter::try_new(File::create(&path).unwrap(), schema.clone(), None).unwrap();
    w.write(&batch).unwrap();
    w.close().unwrap();
    let mut pq = ExecutionContext::new();
    pq.register_parquet("t", &path).unwrap();
    let mut mem = ExecutionContext::new();
    mem.register_table("t", schema, vec![batch]);
    (pq, mem)
}

#[tokio::test]
async fn int64_key_with_null_group() {
    let tmp = tempfile::tempdir().unwrap();
    let schema = Arc::new(Schema::new(vec![
        Field::new("k", DataType::Int64, true),
        Field::new("v", DataType::Int64, false),
        Field::new("f", DataType::Float64, false),
    ]));
    let batch = RecordBatch::try_new(
        schema.clone(),
        vec![
            Arc::new(Int64Array::from(vec![Some(1), Some(2), None, Some(1), None, Some(3)]))
                as ArrayRef,
            Arc::new(Int64Array::from(vec![10, 20, 30, 40, 50, 60])) as ArrayRef,
            Arc::new(Float64Array::from(vec![1.0, 2.0, 3.0, 4.0, 5.0, 6.0])) as ArrayRef,
        ],
    )
    .unwrap();
    let (pq, mem) = contexts(schema, batch, tmp.path());

    for (q, expected) in [
        (
            "SELECT k, SUM(v) FROM t GROUP BY k",
            r#"["1|50", "2|20", "3|60", "NULL|80"]"#,
        ),
        (
            "SELECT k, COUNT(*) FROM t GROUP BY k",
            r#"["1|2", "2|1", "3|1", "NULL|2"]"#,
        ),
        (
            "SELECT k, SUM(f), AVG(f) FROM t GROUP BY k",
            r#"["1|5.0|2.5", "2|2.0|2.0", "3|6.0|6.0", "NULL|8.0|4.0"]"#,
        ),
    ] {
        let m = run(&mem, q).await;
        let p = run(&pq, q).await;
        println!("Q {q}\n   parquet: {p}\n   memory : {m}");
        assert_eq!(m, expected, "in-memory table answer for {q}");
        assert_eq!(p, expected, "parquet-backed table answer for {q}");
    }
}

#[tokio::test]
async fn int32_and_date32_keys_with_null_group() {
    let tmp = tempfile::tempdir().unwrap();
    let schema = Arc::new(Schema::new(vec![
        Field::new("k", DataType::Int32, true),
        Field::new("d", DataType::Date32, true),
        Field::new("v", DataType::Int64, false),
    ]));
    let batch = RecordBatch::try_new(
        schema.clone(),
        vec![
            Arc::new(Int32Array::from(vec![Some(7), None, Some(7), Some(8)])) as ArrayRef,
            Arc::new(Date32Array::from(vec![Some(100), Some(100), None, Some(101)])) as ArrayRef,
            Arc::new(Int64Array::from(vec![1, 2, 3, 4])) as ArrayRef,
        ],
    )
    .unwrap();
    let (pq, mem) = contexts(schema, batch, tmp.path());

    for (q, expected) in [
        (
            "SELECT k, SUM(v) FROM t GROUP BY k",
            r#"["7|4", "8|4", "NULL|2"]"#,
        ),
        (
            "SELECT d, COUNT(*) FROM t GROUP BY d",
            r#"["1970-04-11|2", "1970-04-12|1", "NULL|1"]"#,
        ),
    ] {
        let m = run(&mem, q).await;
        let p = run(&pq, q).await;
        println!("Q {q}\n   parquet: {p}\n   memory : {m}");
        assert_eq!(m, expected, "in-memory table answer for {q}");
        assert_eq!(p, expected, "parquet-backed table answer for {q}");
    }
}

/// Control: without NULL keys the fast path is taken and is correct. Guards
/// the fix against simply disabling the fast path (AGG_TIMING=1 prints a
/// `dense-direct` line on stderr when the path runs).
#[tokio::test]
async fn non_null_keys_still_answered() {
    let tmp = tempfile::tempdir().unwrap();
    let schema = Arc::new(Schema::new(vec![
        Field::new("k", DataType::Int64, true),
        Field::new("v", DataType::Int64, false),
    ]));
    let batch = RecordBatch::try_new(
        schema.clone(),
        vec![
            Arc::new(Int64Array::from(vec![Some(1), Some(2), Some(1)])) as ArrayRef,
            Arc::new(Int64Array::from(vec![10, 20, 30])) as ArrayRef,
        ],
    )
    .unwrap();
    let (pq, mem) = contexts(schema, batch, tmp.path());
    let q = "SELECT k, SUM(v) FROM t GROUP BY k";
    assert_eq!(run(&mem, q).await, r#"["1|40", "2|20"]"#);
    assert_eq!(run(&pq, q).await, r#"["1|40", "2|20"]"#);
}
