//! Triage repro F14-values-zero-rows.
//! Goes in: tests/triage_f14.rs (new integration test target).
//!
//! A VALUES list must produce its rows (or be rejected), never zero rows.

use arrow::array::{Array, Int64Array, StringArray};
use query_engine::ExecutionContext;

fn nrows(r: &query_engine::QueryResult) -> usize {
    r.batches.iter().map(|b| b.num_rows()).sum()
}

#[tokio::test]
async fn bare_values_returns_its_rows() {
    let ctx = ExecutionContext::new();
    let r = ctx.sql("VALUES (1), (2), (3)").await.unwrap();
    assert_eq!(nrows(&r), 3, "VALUES (1),(2),(3) returned {} rows", nrows(&r));
    let mut got = Vec::new();
    for b in &r.batches {
        let a = b.column(0).as_any().downcast_ref::<Int64Array>().unwrap();
        for i in 0..b.num_rows() {
            got.push(a.value(i));
        }
    }
    assert_eq!(got, vec![1, 2, 3]);
}

#[tokio::test]
async fn values_in_from_returns_its_rows() {
    let ctx = ExecutionContext::new();
    let r = ctx
        .sql("SELECT * FROM (VALUES (1, 'a'), (2, 'b')) AS v")
        .await
        .unwrap();
    assert_eq!(nrows(&r), 2, "derived VALUES returned {} rows", nrows(&r));
    let b = arrow::compute::concat_batches(&r.batches[0].schema(), &r.batches).unwrap();
    let c0 = b.column(0).as_any().downcast_ref::<Int64Array>().unwrap();
    let c1 = b.column(1).as_any().downcast_ref::<StringArray>().unwrap();
    assert_eq!((c0.value(0), c1.value(0)), (1, "a"));
    assert_eq!((c0.value(1), c1.value(1)), (2, "b"));
}

#[tokio::test]
async fn values_count_and_null() {
    let ctx = ExecutionContext::new();
    let r = ctx
        .sql("SELECT COUNT(*) FROM (VALUES (1), (NULL), (3)) AS v")
        .await
        .unwrap();
    let a = r.batches[0].column(0).as_any().downcast_ref::<Int64Array>().unwrap();
    assert_eq!(a.value(0), 3);

    let r = ctx.sql("VALUES (1), (NULL), (3)").await.unwrap();
    let b = arrow::compute::concat_batches(&r.batches[0].schema(), &r.batches).unwrap();
    assert_eq!(b.num_rows(), 3);
    assert!(b.column(0).is_null(1));
}

#[tokio::test]
async fn values_filter_expression_and_mixed_types() {
    let ctx = ExecutionContext::new();
    let r = ctx
        .sql("SELECT column0 FROM (VALUES (1), (2), (1 + 2)) AS v WHERE column0 > 1 ORDER BY column0")
        .await
        .unwrap();
    let b = arrow::compute::concat_batches(&r.batches[0].schema(), &r.batches).unwrap();
    let a = b.column(0).as_any().downcast_ref::<Int64Array>().unwrap();
    assert_eq!((b.num_rows(), a.value(0), a.value(1)), (2, 2, 3));

    // Rows of different widths / types must not silently vanish either.
    match ctx.sql("VALUES (1), ('a')").await {
        Ok(r) => assert_eq!(nrows(&r), 2),
        Err(_) => {}
    }
    match ctx.sql("VALUES (1, 2), (3)").await {
        Ok(r) => assert_eq!(nrows(&r), 2),
        Err(_) => {}
    }
}
