//! NOT part of the F7 repro. Exploratory probe for an ADJACENT defect found while
//! triaging (decimal statistics compared unscaled); drop into tests/ to run with
//! `cargo test --offline --test extra_decimal_scale_probe -- --nocapture`. It only prints.

use arrow::array::*;
use arrow::datatypes::{DataType, Field, Schema};
use arrow::record_batch::RecordBatch;
use parquet::arrow::ArrowWriter;
use query_engine::execution::ExecutionContext;
use std::fs::File;
use std::sync::Arc;
async fn run(ctx: &ExecutionContext, q: &str) -> String {
    match ctx.sql(q).await {
        Ok(r) => { let mut out = vec![];
            for b in &r.batches { for i in 0..b.num_rows() { let mut row = vec![];
                for c in b.columns() { row.push(arrow::util::display::array_value_to_string(c, i).unwrap()); }
                out.push(row.join("|")); }}
            out.sort(); format!("{:?}", out) }
        Err(e) => format!("ERR {e}"),
    }
}
#[tokio::test]
async fn explore() {
    let tmp = tempfile::tempdir().unwrap();
    let schema = Arc::new(Schema::new(vec![Field::new("p", DataType::Decimal128(12, 2), false)]));
    let b = RecordBatch::try_new(schema.clone(), vec![Arc::new(Decimal128Array::from(vec![50i128, 99]).with_precision_and_scale(12, 2).unwrap()) as ArrayRef]).unwrap();
    let path = tmp.path().join("t.parquet");
    let mut w = ArrowWriter::try_new(File::create(&path).unwrap(), schema.clone(), None).unwrap();
    w.write(&b).unwrap(); w.close().unwrap();
    let md = query_engine::storage::metadata_cache::cached_metadata(&path).unwrap();
    println!("stats: {:?}", md.metadata().row_group(0).column(0).statistics());
    let mut pq = ExecutionContext::new(); pq.register_parquet("t", &path).unwrap();
    let mut mem = ExecutionContext::new(); mem.register_table("t", schema.clone(), vec![b]);
    for q in ["SELECT COUNT(*) FROM t WHERE p < 1", "SELECT p FROM t WHERE p < 1", "SELECT COUNT(*) FROM t WHERE p >= 50", "SELECT COUNT(*) FROM t WHERE p < 1.0"] {
        println!("Q {q}\n   parquet: {}\n   memory : {}", run(&pq, q).await, run(&mem, q).await);
    }
}
