//! Triage repro for F7-stats-lossy-casts. Goes in `tests/triage_f7.rs`.
//!
//! `storage::row_group_pruning` compares parquet min/max statistics with
//! lossy casts:
//!
//! (b) `definite_comparison` converts i64 bounds and i64 literals with
//!     `as f64`. Above 2^53 that rounds, so the zone-map proof "every row of
//!     this row group passes" succeeds when one row does not; the morsel
//!     aggregate path then drops the filter for that row group and counts
//!     rows that fail the predicate.
//! (a) `check_i32_stats` narrows Int64 statistics with `as i32`. Statistics
//!     outside the i32 range wrap, so a row group that CAN match is pruned.
//!     From SQL only a DATE literal reaches it (integer literals bind as
//!     Int64); through the public `Expr` API any Int32 literal does.

use arrow::array::{ArrayRef, Int64Array};
use arrow::datatypes::{DataType, Field, Schema};
use arrow::record_batch::RecordBatch;
use parquet::arrow::ArrowWriter;
use query_engine::execution::ExecutionContext;
use query_engine::planner::{BinaryOp, Expr, ScalarValue};
use query_engine::storage::metadata_cache::cached_metadata;
use query_engine::storage::row_group_pruning::{prune_row_groups, row_group_definitely_matches};
use std::fs::File;
use std::path::Path;
use std::sync::Arc;

const P53: i64 = 1 << 53; // 9007199254740992

fn schema() -> Arc<Schema> {
    Arc::new(Schema::new(vec![Field::new("x", DataType::Int64, false)]))
}

fn batch(vals: &[i64]) -> RecordBatch {
    RecordBatch::try_new(
        schema(),
        vec![Arc::new(Int64Array::from(vals.to_vec())) as ArrayRef],
    )
    .unwrap()
}

/// One row group per batch.
fn write_parquet(path: &Path, batches: &[RecordBatch]) {
    let mut w = ArrowWriter::try_new(File::create(path).unwrap(), schema(), None).unwrap();
    for b in batches {
        w.write(b).unwrap();
        w.flush().unwrap();
    }
    w.close().unwrap();
}

async fn scalar(ctx: &ExecutionContext, q: &str) -> i64 {
    let r = ctx.sql(q).await.unwrap();
    let b = r.batches.iter().find(|b| b.num_rows() > 0).unwrap();
    b.column(0)
        .as_any()
        .downcast_ref::<Int64Array>()
        .unwrap()
        .value(0)
}

fn both(path: &Path, batches: Vec<RecordBatch>) -> (ExecutionContext, ExecutionContext) {
    let mut pq = ExecutionContext::new();
    pq.register_parquet("t", path).unwrap();
    let mut mem = ExecutionContext::new();
    mem.register_table("t", schema(), batches);
    (pq, mem)
}

fn cmp(op: BinaryOp, lit: ScalarValue) -> Expr {
    Expr::BinaryExpr {
        left: Box::new(Expr::column("x")),
        op,
        right: Box::new(Expr::literal(lit)),
    }
}

// ---------------------------------------------------------------- (b) ----

#[tokio::test]
async fn definite_match_is_exact_above_2_pow_53() {
    let tmp = tempfile::tempdir().unwrap();
    let path = tmp.path().join("t.parquet");
    // row group 0: {2^53, 2^53+1}; row group 1: {5, 6}
    let batches = vec![batch(&[P53, P53 + 1]), batch(&[5, 6])];
    write_parquet(&path, &batches);
    let (pq, mem) = both(&path, batches);

    for (q, want) in [
        // 2^53+1 is NOT <= 2^53, but (2^53+1) as f64 == 2^53 as f64.
        ("SELECT COUNT(*) FROM t WHERE x <= 9007199254740992", 3),
        // 2^53 is NOT >= 2^53+1.
        ("SELECT COUNT(*) FROM t WHERE x >= 9007199254740993", 1),
        // min = 2^53 and max = 2^53+1 both round to the literal's f64.
        ("SELECT COUNT(*) FROM t WHERE x = 9007199254740993", 1),
    ] {
        assert_eq!(scalar(&mem, q).await, want, "in-memory reference: {q}");
        assert_eq!(scalar(&pq, q).await, want, "parquet (zone-map proof): {q}");
    }
}

#[test]
fn definite_match_function_level() {
    let tmp = tempfile::tempdir().unwrap();
    let path = tmp.path().join("t.parquet");
    write_parquet(&path, &[batch(&[P53, P53 + 1])]);
    let md = cached_metadata(&path).unwrap();
    let rg = md.metadata().row_group(0);
    for pred in [
        cmp(BinaryOp::LtEq, ScalarValue::Int64(P53)),
        cmp(BinaryOp::GtEq, ScalarValue::Int64(P53 + 1)),
        cmp(BinaryOp::Eq, ScalarValue::Int64(P53 + 1)),
    ] {
        assert!(
            !row_group_definitely_matches(&pred, rg, &schema()),
            "{pred} does not hold for every row of {{2^53, 2^53+1}}"
        );
    }
    // Still proves what is true.
    assert!(row_group_definitely_matches(
        &cmp(BinaryOp::LtEq, ScalarValue::Int64(P53 + 1)),
        rg,
        &schema()
    ));
    assert!(row_group_definitely_matches(
        &cmp(BinaryOp::GtEq, ScalarValue::Int64(P53)),
        rg,
        &schema()
    ));
}

// ---------------------------------------------------------------- (a) ----

#[test]
fn int32_literal_against_int64_statistics_does_not_wrap() {
    let tmp = tempfile::tempdir().unwrap();
    let path = tmp.path().join("t.parquet");
    // 2^32+1 and 2^32+2 narrow to 1 and 2 with `as i32`.
    write_parquet(&path, &[batch(&[4294967297, 4294967298])]);
    let md = cached_metadata(&path).unwrap();

    // x > 5: both rows match.
    let keep = prune_row_groups(
        md.metadata(),
        &schema(),
        Some(&cmp(BinaryOp::Gt, ScalarValue::Int32(5))),
    );
    assert_eq!(keep, vec![0], "x > 5 pruned a row group holding 2^32+1");

    // x = 1: no row matches, and the wrapped statistics must not say it might
    // (harmless, but shows the comparison is done on the wrong numbers).
    let keep = prune_row_groups(
        md.metadata(),
        &schema(),
        Some(&cmp(BinaryOp::Eq, ScalarValue::Int32(1))),
    );
    assert_eq!(keep, Vec::<usize>::new());
}

/// The SQL-reachable form: integer literals bind as Int64, but a DATE literal
/// is Date32 and goes through the i32 path. The engine evaluates
/// `int64_col > DATE '...'` on the day number (the in-memory copy is the
/// reference); the pruner drops the only matching row group.
#[tokio::test]
async fn date_literal_against_int64_column_keeps_matching_rows() {
    let tmp = tempfile::tempdir().unwrap();
    let path = tmp.path().join("t.parquet");
    let batches = vec![batch(&[P53, P53 + 1]), batch(&[5, 6])];
    write_parquet(&path, &batches);
    let (pq, mem) = both(&path, batches);

    let q = "SELECT COUNT(*) FROM t WHERE x > DATE '2024-01-01'";
    let want = scalar(&mem, q).await;
    assert_eq!(want, 2, "in-memory reference");
    assert_eq!(scalar(&pq, q).await, want, "parquet with row-group pruning");
}
