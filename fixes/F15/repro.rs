//! Triage F15-gather-skips-subquery-tables. Goes in `tests/triage_f15.rs`.
//!
//! Needs `data/tpch-1mb`:
//! `./target/debug/query_engine generate-parquet --sf 0.001 --output ./data/tpch-1mb`
//!
//! `plan_gather` lists the tables to ship to the initiator by walking
//! `LogicalPlan::children()`. Plans embedded in expressions (scalar / IN /
//! EXISTS subqueries that were not decorrelated into joins) are not children,
//! so their tables (or the extra columns they read) are never gathered, and
//! `execute_gathered` - which re-runs the ORIGINAL statement in a fresh context
//! holding only the gathered tables - fails to bind a statement the
//! single-node engine answers.

use query_engine::distributed::{
    execute_any_distributed, execute_fragment, execute_gathered, plan_gather, FragmentRequest,
    FragmentTransport, Participant,
};
use query_engine::{ExecutionContext, QueryResult, Result};
use std::sync::Arc;

fn ctx() -> ExecutionContext {
    let mut c = ExecutionContext::new();
    let dir = concat!(env!("CARGO_MANIFEST_DIR"), "/data/tpch-1mb");
    for t in ["nation", "region", "supplier"] {
        c.register_parquet(t, format!("{dir}/{t}.parquet"))
            .unwrap_or_else(|e| panic!("cannot load {t}: {e}"));
    }
    c
}

struct InProcess {
    peer: Arc<ExecutionContext>,
}

#[async_trait::async_trait]
impl FragmentTransport for InProcess {
    async fn send(&self, _address: &str, req: &FragmentRequest) -> Result<(Vec<u8>, usize, f64)> {
        let (r, _) = execute_fragment(&self.peer, req).await?;
        let bytes = query_engine::distributed::coordinator::encode_ipc(&r.schema, &r.batches)?;
        Ok((bytes, r.row_count, 0.0))
    }
}

fn participants(n: usize) -> Vec<Participant> {
    (0..n)
        .map(|i| Participant {
            node_id: i as u64,
            address: format!("127.0.0.1:{}", 17700 + i),
            is_self: i == 0,
        })
        .collect()
}

fn csv(r: &QueryResult) -> Vec<String> {
    let mut buf = Vec::new();
    {
        let mut w = arrow::csv::WriterBuilder::new()
            .with_header(false)
            .build(&mut buf);
        for b in &r.batches {
            w.write(b).unwrap();
        }
    }
    let mut lines: Vec<String> = String::from_utf8(buf)
        .unwrap()
        .lines()
        .map(|s| s.to_string())
        .collect();
    lines.sort();
    lines
}

/// (sql, table that only the subquery reads, column only the subquery reads)
const CASES: [(&str, &str, &str); 4] = [
    // uncorrelated scalar subquery under OR: stays an Expr::ScalarSubquery
    (
        "SELECT n_name FROM nation \
         WHERE n_regionkey = (SELECT max(r_regionkey) FROM region) OR n_nationkey < 0",
        "region",
        "r_regionkey",
    ),
    // uncorrelated IN subquery under OR
    (
        "SELECT n_name FROM nation \
         WHERE n_regionkey IN (SELECT r_regionkey FROM region WHERE r_name = 'ASIA') \
            OR n_nationkey < 0",
        "region",
        "r_name",
    ),
    // scalar subquery in the SELECT list
    (
        "SELECT n_name, (SELECT count(*) FROM region) AS regions FROM nation",
        "region",
        "r_regionkey",
    ),
    // same table outside and inside; the subquery reads a column the outer
    // query does not (n_regionkey)
    (
        "SELECT n_name FROM nation \
         WHERE n_nationkey = (SELECT max(n_regionkey) FROM nation) OR n_nationkey < 0",
        "nation",
        "n_regionkey",
    ),
];

#[test]
fn gather_plan_lists_tables_and_columns_read_by_expression_subqueries() {
    let ctx = ctx();
    let mut bad = Vec::new();
    for (sql, table, column) in CASES {
        let plan = match plan_gather(&ctx, sql) {
            Ok(p) => p,
            Err(e) => {
                bad.push(format!("{sql}\n   plan_gather failed: {e}"));
                continue;
            }
        };
        let listed: Vec<String> = plan
            .tables
            .iter()
            .map(|t| format!("{}{:?}", t.name, t.columns))
            .collect();
        match plan.tables.iter().find(|t| t.name == table) {
            None => bad.push(format!("{sql}\n   `{table}` is not gathered: {listed:?}")),
            Some(t) => {
                if let Some(cols) = &t.columns {
                    if !cols.iter().any(|c| c == column) {
                        bad.push(format!(
                            "{sql}\n   `{table}.{column}` is not gathered: {listed:?}"
                        ));
                    }
                }
            }
        }
    }
    for b in &bad {
        eprintln!("PLAN FAIL {b}");
    }
    assert!(bad.is_empty(), "{}", bad.join("\n"));
}

/// The gather path itself (`plan_gather` + `execute_gathered`), which is what
/// `distributed=1` uses for every shape the exact scatter planner refuses.
#[tokio::test]
async fn gathered_execution_answers_what_single_node_answers() {
    let mut bad = Vec::new();
    for (sql, _, _) in CASES {
        let expected = csv(&ctx().sql(sql).await.expect("single node answers it"));
        let base = ctx();
        let peer = Arc::new(ctx());
        let plan = plan_gather(&base, sql).expect("plan_gather");
        match execute_gathered(&base, &plan, &participants(3), &InProcess { peer }).await {
            Err(e) => bad.push(format!(
                "{sql}\n   gathered: {e}\n   single node: {} rows",
                expected.len()
            )),
            Ok(d) => {
                let got = csv(&d.result);
                if got != expected {
                    bad.push(format!("{sql}\n   gathered {got:?}\n   single {expected:?}"));
                } else {
                    eprintln!("EXEC ok   {sql} -> {} rows", got.len());
                }
            }
        }
    }
    for b in &bad {
        eprintln!("EXEC FAIL {b}");
    }
    assert!(bad.is_empty(), "{}", bad.join("\n"));
}

/// End to end through the public entry point. DISTINCT makes the exact
/// scatter planner refuse the statement, so it takes the gather path.
#[tokio::test]
async fn distributed_entry_point_answers_distinct_with_expression_subquery() {
    let mut bad = Vec::new();
    for (sql, _, _) in CASES {
        let sql = sql.replacen("SELECT ", "SELECT DISTINCT ", 1);
        let expected = csv(&ctx().sql(&sql).await.expect("single node answers it"));
        let base = ctx();
        let peer = Arc::new(ctx());
        match execute_any_distributed(&base, &sql, &participants(3), &InProcess { peer }).await {
            Err(e) => bad.push(format!(
                "{sql}\n   distributed=1: {e}\n   single node: {} rows",
                expected.len()
            )),
            Ok(d) => {
                if csv(&d.result) != expected {
                    bad.push(format!("{sql}\n   distributed result differs"));
                } else {
                    eprintln!("E2E ok   {sql} ({:?})", d.distribution.shape);
                }
            }
        }
    }
    for b in &bad {
        eprintln!("E2E FAIL {b}");
    }
    assert!(bad.is_empty(), "{}", bad.join("\n"));
}
