//! Triage repro F5-merge-comparator-nulls.
//! Goes in: tests/triage_f5.rs (new integration test target).
//!
//! The spilled k-way merge of ExternalSortExec must produce the same row order
//! as the in-memory SortExec. Each run is sorted with arrow's lexsort honouring
//! `SortExpr::nulls`, but the merge comparator ignores `nulls` (hard-coded
//! "NULL is greatest", then reversed for DESC).

use arrow::array::{Array, ArrayRef, Int64Array};
use arrow::datatypes::{DataType, Field, Schema};
use arrow::record_batch::RecordBatch;
use query_engine::{ExecutionConfig, ExecutionContext};
use std::path::PathBuf;
use std::sync::Arc;

const ROWS: i64 = 4000;
const BATCH: i64 = 1000;

fn register(ctx: &mut ExecutionContext) {
    let schema = Arc::new(Schema::new(vec![
        Field::new("id", DataType::Int64, false),
        Field::new("x", DataType::Int64, true),
    ]));
    let mut batches = Vec::new();
    let mut start = 0;
    while start < ROWS {
        let ids: Vec<i64> = (start..start + BATCH).collect();
        // every 10th row is NULL, in every batch (hence in every sorted run)
        let xs: Vec<Option<i64>> = ids
            .iter()
            .map(|i| if i % 10 == 0 { None } else { Some((i * 7919) % ROWS) })
            .collect();
        batches.push(
            RecordBatch::try_new(
                schema.clone(),
                vec![
                    Arc::new(Int64Array::from(ids)) as ArrayRef,
                    Arc::new(Int64Array::from(xs)) as ArrayRef,
                ],
            )
            .unwrap(),
        );
        start += BATCH;
    }
    ctx.register_table("t", schema, batches);
}

fn spilling_ctx(name: &str) -> ExecutionContext {
    let spill_path = PathBuf::from(format!(
        "{}/target/test_spill/{name}",
        env!("CARGO_MANIFEST_DIR")
    ));
    // 4 batches x ~16 KB; threshold = 32 KB * 0.8 -> 4 runs -> k-way merge.
    let config = ExecutionConfig::new()
        .with_memory_limit(32 * 1024)
        .with_spill_path(spill_path);
    let mut ctx = ExecutionContext::with_config(config);
    register(&mut ctx);
    ctx
}

fn xs(result: &query_engine::QueryResult) -> Vec<Option<i64>> {
    let mut out = Vec::new();
    for b in &result.batches {
        let a = b.column(0).as_any().downcast_ref::<Int64Array>().unwrap();
        for i in 0..b.num_rows() {
            out.push(if a.is_null(i) { None } else { Some(a.value(i)) });
        }
    }
    out
}

/// Describe where the NULLs sit so a failure message stays short.
fn null_shape(v: &[Option<i64>]) -> String {
    let n = v.iter().filter(|x| x.is_none()).count();
    let lead = v.iter().take_while(|x| x.is_none()).count();
    let trail = v.iter().rev().take_while(|x| x.is_none()).count();
    format!("rows={} nulls={} leading_nulls={} trailing_nulls={}", v.len(), n, lead, trail)
}

async fn check(order_by: &str, name: &str, nulls_first: bool) {
    let sql = format!("SELECT x FROM t ORDER BY {order_by}");
    let mut base = ExecutionContext::new();
    register(&mut base);
    let baseline = xs(&base.sql(&sql).await.unwrap());

    let ctx = spilling_ctx(name);
    let spilled = ctx.sql(&sql).await.unwrap();
    assert!(
        spilled.metrics.spill_metrics.is_some(),
        "test setup: the sort was expected to spill"
    );
    let got = xs(&spilled);

    // sanity of the in-memory reference itself
    let n_null = (ROWS / 10) as usize;
    if nulls_first {
        assert!(baseline[..n_null].iter().all(|v| v.is_none()), "baseline: {}", null_shape(&baseline));
    } else {
        assert!(baseline[baseline.len() - n_null..].iter().all(|v| v.is_none()), "baseline: {}", null_shape(&baseline));
    }

    assert!(
        got == baseline,
        "ORDER BY {order_by}: spilled order differs from in-memory order; in-memory: {} ; spilled: {}",
        null_shape(&baseline),
        null_shape(&got)
    );
}

#[tokio::test]
async fn spilled_desc_default_nulls_last() {
    check("x DESC", "triage_f5_desc", false).await;
}

#[tokio::test]
async fn spilled_asc_nulls_first() {
    check("x ASC NULLS FIRST", "triage_f5_asc_nf", true).await;
}

#[tokio::test]
async fn spilled_desc_nulls_first() {
    check("x DESC NULLS FIRST", "triage_f5_desc_nf", true).await;
}

#[tokio::test]
async fn spilled_asc_default_nulls_last() {
    check("x ASC", "triage_f5_asc", false).await;
}
