// Append inside `mod tests` of src/cli/output.rs
    #[test]
    fn triage_f12_csv_quotes_cr_and_header_cells() {
        use arrow::array::StringArray;
        use arrow::datatypes::{DataType, Field, Schema};
        let schema = Arc::new(Schema::new(vec![Field::new("a,b", DataType::Utf8, true)]));
        let batch = RecordBatch::try_new(schema, vec![Arc::new(StringArray::from(vec!["x\ry"]))]).unwrap();
        let out = OutputFormatter::new(OutputFormat::Csv).format_to_string(&[batch]);
        assert_eq!(out, "\"a,b\"\n\"x\ry\"\n", "got {out:?}");
    }
    #[test]
    fn triage_f12_json_is_valid_json_for_any_string_and_non_finite_floats() {
        use arrow::array::{Float64Array, StringArray};
        use arrow::datatypes::{DataType, Field, Schema};
        let schema = Arc::new(Schema::new(vec![
            Field::new("k\"ey", DataType::Utf8, true),
            Field::new("f", DataType::Float64, true),
        ]));
        let batch = RecordBatch::try_new(
            schema,
            vec![
                Arc::new(StringArray::from(vec!["line1\nline2\t\u{1}\\ \"q\""])),
                Arc::new(Float64Array::from(vec![f64::NAN])),
            ],
        )
        .unwrap();
        let out = OutputFormatter::new(OutputFormat::Json).format_to_string(&[batch]);
        let v: serde_json::Value = serde_json::from_str(&out).unwrap_or_else(|e| panic!("invalid JSON ({e}): {out}"));
        assert_eq!(v[0]["k\"ey"], serde_json::Value::String("line1\nline2\t\u{1}\\ \"q\"".into()));
        assert!(v[0]["f"].is_null());
    }
