//! Reproduction for F6 (C16/C10): a peer that declares Content-Length: 10 and closes after 3 body bytes.
use std::time::Duration;
use tokio::io::{AsyncReadExt, AsyncWriteExt};

#[tokio::test]
async fn a_body_shorter_than_content_length_is_an_error() {
    let listener = tokio::net::TcpListener::bind("127.0.0.1:0").await.unwrap();
    let addr = listener.local_addr().unwrap().to_string();
    tokio::spawn(async move {
        let (mut s, _) = listener.accept().await.unwrap();
        let mut buf = [0u8; 1024];
        let _ = s.read(&mut buf).await;
        s.write_all(b"HTTP/1.1 200 OK\r\nContent-Length: 10\r\n\r\nabc").await.unwrap();
        s.shutdown().await.ok();
    });
    let r = query_engine::distributed::http_client::get(&addr, "/x", Duration::from_secs(5)).await;
    match r {
        Err(_) => {}
        Ok(resp) => panic!("truncated body accepted as complete: status {} body {:?} (declared 10 bytes)", resp.status, resp.body),
    }
}
