//! Triage F2-compiled-float-compare: the closure-compiled predicate path must
//! produce the interpreter's mask for Float64 comparisons, including NaN and
//! signed zeros (the interpreter's arrow `cmp` kernels use the IEEE-754
//! totalOrder predicate). Goes in `tests/triage_f2_float_compare.rs`.
//!
//! Run with the default and with `QE_COMPILE=0` (the direct comparison test is
//! a no-op there; the SQL test is the interpreter reference).

use arrow::array::{Array, ArrayRef, BooleanArray, Float64Array, Int64Array};
use arrow::datatypes::{DataType, Field, Schema};
use arrow::record_batch::RecordBatch;
use query_engine::physical::compiled_expr::CompiledPredicate;
use query_engine::physical::operators::evaluate_expr;
use query_engine::planner::{BinaryOp, Column, Expr, ScalarValue};
use query_engine::ExecutionContext;
use std::sync::Arc;

fn batch() -> RecordBatch {
    let schema = Arc::new(Schema::new(vec![
        Field::new("id", DataType::Int64, false),
        Field::new("f", DataType::Float64, true),
        Field::new("g", DataType::Float64, true),
    ]));
    let f = vec![
        Some(f64::NAN),
        Some(-0.0),
        Some(0.0),
        Some(f64::INFINITY),
        Some(f64::NEG_INFINITY),
        Some(1.0),
        None,
        Some(-f64::NAN),
    ];
    let g = vec![
        Some(1.0),
        Some(0.0),
        Some(-0.0),
        Some(f64::NAN),
        Some(f64::NAN),
        Some(1.0),
        Some(2.0),
        Some(f64::NAN),
    ];
    RecordBatch::try_new(
        schema,
        vec![
            Arc::new(Int64Array::from((1..=8).collect::<Vec<i64>>())) as ArrayRef,
            Arc::new(Float64Array::from(f)) as ArrayRef,
            Arc::new(Float64Array::from(g)) as ArrayRef,
        ],
    )
    .unwrap()
}

fn col(n: &str) -> Expr {
    Expr::Column(Column::new(n))
}
fn litf(v: f64) -> Expr {
    Expr::Literal(ScalarValue::Float64(v.into()))
}
fn bin(l: Expr, op: BinaryOp, r: Expr) -> Expr {
    Expr::BinaryExpr {
        left: Box::new(l),
        op,
        right: Box::new(r),
    }
}

#[test]
fn compiled_float_masks_equal_interpreter_masks() {
    if std::env::var("QE_COMPILE").as_deref() == Ok("0") {
        return; // compile() declines by design; nothing to compare
    }
    let b = batch();
    let ops = [
        BinaryOp::Eq,
        BinaryOp::NotEq,
        BinaryOp::Lt,
        BinaryOp::LtEq,
        BinaryOp::Gt,
        BinaryOp::GtEq,
    ];
    let mut mismatches = vec![];
    for op in ops {
        let preds = vec![
            bin(col("f"), op, litf(0.5)),
            bin(col("f"), op, litf(0.0)),
            bin(col("f"), op, litf(-0.0)),
            bin(col("f"), op, litf(f64::NAN)),
            bin(litf(0.0), op, col("f")),
            bin(col("f"), op, col("g")),
            // computed side (F-register): 0.0 * -1.0 = -0.0, inf - inf = NaN
            bin(bin(col("f"), BinaryOp::Multiply, litf(-1.0)), op, litf(0.0)),
            bin(bin(col("f"), BinaryOp::Subtract, col("f")), op, litf(0.0)),
        ];
        for p in preds {
            let compiled = CompiledPredicate::compile(&p, &b.schema())
                .unwrap_or_else(|| panic!("must compile: {p}"));
            let got = compiled.evaluate(&b).expect("types match");
            let want = evaluate_expr(&b, &p).unwrap();
            let want = want.as_any().downcast_ref::<BooleanArray>().unwrap();
            if &got != want {
                mismatches.push(format!("{p}\n  compiled:    {got:?}\n  interpreter: {want:?}"));
            }
        }
    }
    assert!(
        mismatches.is_empty(),
        "{} predicate(s) differ:\n{}",
        mismatches.len(),
        mismatches.join("\n")
    );
}

async fn ids(sql: &str) -> Vec<i64> {
    let b = batch();
    let mut ctx = ExecutionContext::new();
    ctx.register_table("t", b.schema(), vec![b]);
    let res = ctx.sql(sql).await.unwrap_or_else(|e| panic!("{sql}: {e}"));
    let mut out = vec![];
    for b in &res.batches {
        let c = b.column(0).as_any().downcast_ref::<Int64Array>().unwrap();
        out.extend((0..c.len()).map(|i| c.value(i)));
    }
    out.sort();
    out
}

/// End to end: a plain Float64 filter. The engine's comparison kernels (and its
/// ORDER BY / min / max) treat NaN as the greatest value, equal to itself (the
/// PostgreSQL/DuckDB convention, arrow's total order). Run this file twice:
/// default (compiled predicates) and `QE_COMPILE=0` (interpreter): both must
/// give these answers. On the unmodified tree only `QE_COMPILE=0` does.
#[tokio::test]
async fn sql_filter_keeps_nan_as_greatest() {
    // f: 1=NaN 2=-0.0 3=0.0 4=inf 5=-inf 6=1.0 7=NULL 8=-NaN
    // f > 0.5 : +NaN(1), +inf(4), 1.0(6). (-NaN sorts below -inf.)
    assert_eq!(ids("SELECT id FROM t WHERE f > 0.5").await, vec![1, 4, 6]);
    // f > g : 1 (NaN > 1.0), 3 (0.0 > -0.0 in the total order)
    assert_eq!(ids("SELECT id FROM t WHERE f > g").await, vec![1, 3]);
    // g = g is TRUE for every non-null g, NaN included (ids 4, 5, 8).
    assert_eq!(
        ids("SELECT id FROM t WHERE g = g").await,
        vec![1, 2, 3, 4, 5, 6, 7, 8]
    );
    // f <= 1.0 must NOT keep the NaN row (id 1).
    assert_eq!(
        ids("SELECT id FROM t WHERE f <= 1.0").await,
        vec![2, 3, 5, 6, 8]
    );
}
