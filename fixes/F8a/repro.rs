//! Triage repro for F8a-footer-cache-len. Goes in `tests/triage_f8a.rs`.
//!
//! The parquet footer cache (`storage::metadata_cache`) validates an entry by
//! `mtime` equality only. A file replaced at the same path by DIFFERENT
//! content whose mtime equals the cached one (`cp -p`, `rsync -t`,
//! `File::set_modified`, a rewrite inside the timestamp granularity) is served
//! the OLD footer.

use arrow::array::{ArrayRef, Int64Array};
use arrow::datatypes::{DataType, Field, Schema};
use arrow::record_batch::RecordBatch;
use parquet::arrow::ArrowWriter;
use query_engine::execution::ExecutionContext;
use query_engine::storage::metadata_cache::{cached_metadata, cached_reader_builder_with_schema};
use std::fs::File;
use std::path::Path;
use std::sync::Arc;

fn schema() -> Arc<Schema> {
    Arc::new(Schema::new(vec![Field::new("id", DataType::Int64, false)]))
}

fn write_parquet(path: &Path, rows: i64) {
    let batch = RecordBatch::try_new(
        schema(),
        vec![Arc::new(Int64Array::from((0..rows).collect::<Vec<_>>())) as ArrayRef],
    )
    .unwrap();
    let mut w = ArrowWriter::try_new(File::create(path).unwrap(), schema(), None).unwrap();
    w.write(&batch).unwrap();
    w.close().unwrap();
}

/// Replace `path` with a `rows`-row file carrying exactly the mtime the
/// previous file had (what `cp -p` / `rsync -t` do).
fn replace_preserving_mtime(path: &Path, rows: i64) {
    let old = std::fs::metadata(path).unwrap();
    let (old_mtime, old_len) = (old.modified().unwrap(), old.len());
    write_parquet(path, rows);
    File::options()
        .write(true)
        .open(path)
        .unwrap()
        .set_modified(old_mtime)
        .unwrap();
    let new = std::fs::metadata(path).unwrap();
    assert_eq!(new.modified().unwrap(), old_mtime, "mtime must be preserved");
    assert_ne!(new.len(), old_len, "the two files must differ in length");
}

#[test]
fn footer_cache_notices_same_mtime_replacement() {
    let dir = tempfile::tempdir().unwrap();
    let path = dir.path().join("t.parquet");

    write_parquet(&path, 1000);
    let a = cached_metadata(&path).unwrap();
    assert_eq!(a.metadata().file_metadata().num_rows(), 1000);

    replace_preserving_mtime(&path, 250);

    let b = cached_metadata(&path).unwrap();
    assert_eq!(
        b.metadata().file_metadata().num_rows(),
        250,
        "cached_metadata served the footer of the file that is no longer there"
    );
}

#[test]
fn schema_footer_cache_notices_same_mtime_replacement() {
    let dir = tempfile::tempdir().unwrap();
    let path = dir.path().join("t.parquet");
    let s = schema();

    write_parquet(&path, 1000);
    let a = cached_reader_builder_with_schema(&path, s.clone()).unwrap();
    assert_eq!(a.metadata().file_metadata().num_rows(), 1000);

    replace_preserving_mtime(&path, 250);

    // Same path, same schema Arc => same cache key.
    let b = cached_reader_builder_with_schema(&path, s.clone()).unwrap();
    assert_eq!(
        b.metadata().file_metadata().num_rows(),
        250,
        "cached_reader_builder_with_schema served the stale footer"
    );
}

/// End to end: the stale footer drives a real query over the new bytes.
#[tokio::test]
async fn query_after_same_mtime_replacement_sees_new_file() {
    let dir = tempfile::tempdir().unwrap();
    let path = dir.path().join("t.parquet");

    write_parquet(&path, 1000);
    let mut ctx = ExecutionContext::new();
    ctx.register_parquet("t", &path).unwrap();
    let r = ctx.sql("SELECT COUNT(*) FROM t WHERE id >= 0").await.unwrap();
    assert_eq!(count(&r.batches), 1000);

    replace_preserving_mtime(&path, 250);

    let mut ctx = ExecutionContext::new();
    ctx.register_parquet("t", &path).unwrap();
    let r = ctx.sql("SELECT COUNT(*) FROM t WHERE id >= 0").await;
    match r {
        Ok(r) => assert_eq!(count(&r.batches), 250, "query used the stale footer"),
        Err(e) => panic!("query over the replaced file failed on the stale footer: {e}"),
    }
}

fn count(batches: &[RecordBatch]) -> i64 {
    batches
        .iter()
        .filter(|b| b.num_rows() > 0)
        .map(|b| {
            b.column(0)
                .as_any()
                .downcast_ref::<Int64Array>()
                .unwrap()
                .value(0)
        })
        .sum()
}
