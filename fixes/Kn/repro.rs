//! Triage Kn-null-group-keys-split: all rows whose grouping key is NULL must
//! form ONE group (GROUP BY / DISTINCT / UNION de-duplication).
//!
//! Goes in `tests/triage_kn.rs`. Run with
//! `cargo test --offline --test triage_kn`.

use arrow::array::*;
use arrow::datatypes::{DataType, Field, Schema};
use arrow::record_batch::RecordBatch;
use query_engine::{ExecutionConfig, ExecutionContext, QueryResult};
use std::path::PathBuf;
use std::sync::Arc;

fn cell(col: &ArrayRef, row: usize) -> String {
    if col.is_null(row) {
        return "NULL".to_string();
    }
    match col.data_type() {
        DataType::Int64 => col
            .as_any()
            .downcast_ref::<Int64Array>()
            .unwrap()
            .value(row)
            .to_string(),
        DataType::Utf8 => col
            .as_any()
            .downcast_ref::<StringArray>()
            .unwrap()
            .value(row)
            .to_string(),
        DataType::Float64 => format!(
            "{:.3}",
            col.as_any()
                .downcast_ref::<Float64Array>()
                .unwrap()
                .value(row)
        ),
        other => panic!("unhandled type {other:?}"),
    }
}

fn rows_sorted(result: &QueryResult) -> Vec<Vec<String>> {
    let mut rows = Vec::new();
    for batch in &result.batches {
        for row in 0..batch.num_rows() {
            rows.push(batch.columns().iter().map(|c| cell(c, row)).collect());
        }
    }
    rows.sort();
    rows
}

fn s(v: &[&[&str]]) -> Vec<Vec<String>> {
    let mut out: Vec<Vec<String>> = v
        .iter()
        .map(|r| r.iter().map(|x| x.to_string()).collect())
        .collect();
    out.sort();
    out
}

/// t(k BIGINT, s VARCHAR, v BIGINT):
///  k = {1, NULL, NULL, 2, NULL}, s = {a, NULL, NULL, b, x}, v = {10,20,30,40,50}
fn small_batch() -> RecordBatch {
    let schema = Arc::new(Schema::new(vec![
        Field::new("k", DataType::Int64, true),
        Field::new("s", DataType::Utf8, true),
        Field::new("v", DataType::Int64, false),
    ]));
    RecordBatch::try_new(
        schema,
        vec![
            Arc::new(Int64Array::from(vec![Some(1), None, None, Some(2), None])),
            Arc::new(StringArray::from(vec![
                Some("a"),
                None,
                None,
                Some("b"),
                Some("x"),
            ])),
            Arc::new(Int64Array::from(vec![10, 20, 30, 40, 50])),
        ],
    )
    .unwrap()
}

fn small_ctx() -> ExecutionContext {
    let mut ctx = ExecutionContext::new();
    ctx.register_batch("t", small_batch());
    ctx.register_batch("u", small_batch());
    ctx
}

#[tokio::test]
async fn group_by_null_key_in_memory() {
    let r = small_ctx()
        .sql("SELECT k, COUNT(*) AS c, SUM(v) AS sv FROM t GROUP BY k")
        .await
        .unwrap();
    assert_eq!(
        rows_sorted(&r),
        s(&[&["1", "1", "10"], &["2", "1", "40"], &["NULL", "3", "100"]])
    );
}

#[tokio::test]
async fn distinct_null_key_in_memory() {
    let r = small_ctx().sql("SELECT DISTINCT k FROM t").await.unwrap();
    assert_eq!(rows_sorted(&r), s(&[&["1"], &["2"], &["NULL"]]));
}

#[tokio::test]
async fn distinct_string_null_key_in_memory() {
    let r = small_ctx().sql("SELECT DISTINCT s FROM t").await.unwrap();
    assert_eq!(rows_sorted(&r), s(&[&["a"], &["b"], &["x"], &["NULL"]]));
}

#[tokio::test]
async fn distinct_multi_column_null_component() {
    let r = small_ctx().sql("SELECT DISTINCT k, s FROM t").await.unwrap();
    assert_eq!(
        rows_sorted(&r),
        s(&[&["1", "a"], &["2", "b"], &["NULL", "NULL"], &["NULL", "x"]])
    );
}

#[tokio::test]
async fn union_dedups_null_rows() {
    let r = small_ctx()
        .sql("SELECT k FROM t UNION SELECT k FROM u")
        .await
        .unwrap();
    assert_eq!(rows_sorted(&r), s(&[&["1"], &["2"], &["NULL"]]));
}

/// Parquet-backed table (the morsel aggregation path).
#[tokio::test]
async fn group_by_null_key_parquet() {
    let dir = tempfile::tempdir().unwrap();
    let path = dir.path().join("t.parquet");
    let batch = small_batch();
    let file = std::fs::File::create(&path).unwrap();
    let mut w = parquet::arrow::ArrowWriter::try_new(file, batch.schema(), None).unwrap();
    w.write(&batch).unwrap();
    w.close().unwrap();

    let mut ctx = ExecutionContext::new();
    ctx.register_parquet("t", path.to_str().unwrap()).unwrap();
    let r = ctx
        .sql("SELECT k, COUNT(*) AS c, SUM(v) AS sv FROM t GROUP BY k")
        .await
        .unwrap();
    assert_eq!(
        rows_sorted(&r),
        s(&[&["1", "1", "10"], &["2", "1", "40"], &["NULL", "3", "100"]])
    );
    let r = ctx.sql("SELECT DISTINCT k FROM t").await.unwrap();
    assert_eq!(rows_sorted(&r), s(&[&["1"], &["2"], &["NULL"]]));
}

/// 24_000 rows in 8 batches; k = i % 3000 except every 21st row, which is NULL
/// -> 3000 non-NULL groups + ONE NULL group = 3001 groups.
fn big_batches() -> (Arc<Schema>, Vec<RecordBatch>, usize) {
    let schema = Arc::new(Schema::new(vec![
        Field::new("k", DataType::Int64, true),
        Field::new("v", DataType::Int64, false),
    ]));
    let mut batches = Vec::new();
    let mut nulls = 0usize;
    for b in 0..8i64 {
        let mut k = Vec::with_capacity(3000);
        let mut v = Vec::with_capacity(3000);
        for i in 0..3000i64 {
            let g = b * 3000 + i;
            if g % 21 == 0 {
                k.push(None);
                nulls += 1;
            } else {
                k.push(Some(g % 3000));
            }
            v.push(1i64);
        }
        batches.push(
            RecordBatch::try_new(
                schema.clone(),
                vec![
                    Arc::new(Int64Array::from(k)),
                    Arc::new(Int64Array::from(v)),
                ],
            )
            .unwrap(),
        );
    }
    (schema, batches, nulls)
}

fn big_ctx(limit: Option<usize>, name: &str) -> ExecutionContext {
    let mut ctx = match limit {
        None => ExecutionContext::new(),
        Some(bytes) => {
            let spill_path = PathBuf::from(format!(
                "{}/target/test_spill/{name}",
                env!("CARGO_MANIFEST_DIR")
            ));
            ExecutionContext::with_config(
                ExecutionConfig::new()
                    .with_memory_limit(bytes)
                    .with_spill_path(spill_path),
            )
        }
    };
    let (schema, batches, _) = big_batches();
    ctx.register_table("big", schema, batches);
    ctx
}

fn null_groups(r: &QueryResult) -> Vec<Vec<String>> {
    rows_sorted(r)
        .into_iter()
        .filter(|row| row[0] == "NULL")
        .collect()
}

#[tokio::test]
async fn group_by_null_key_many_groups_unlimited() {
    let (_, _, nulls) = big_batches();
    let r = big_ctx(None, "kn_unl")
        .sql("SELECT k, COUNT(*) AS c, SUM(v) AS sv FROM big GROUP BY k")
        .await
        .unwrap();
    let ng = null_groups(&r);
    assert_eq!(
        (r.row_count, ng),
        (
            3001,
            vec![vec!["NULL".to_string(), nulls.to_string(), nulls.to_string()]]
        )
    );
}

#[tokio::test]
async fn group_by_null_key_spilled() {
    let (_, _, nulls) = big_batches();
    let r = big_ctx(Some(64 * 1024), "kn_agg_spill")
        .sql("SELECT k, COUNT(*) AS c, SUM(v) AS sv FROM big GROUP BY k")
        .await
        .unwrap();
    assert!(
        r.metrics.spill_metrics.is_some(),
        "expected the aggregation to spill"
    );
    let ng = null_groups(&r);
    assert_eq!(
        (r.row_count, ng.len(), ng.first().cloned()),
        (
            3001,
            1,
            Some(vec!["NULL".to_string(), nulls.to_string(), nulls.to_string()])
        )
    );
}

#[tokio::test]
async fn distinct_null_key_many_groups_unlimited() {
    let r = big_ctx(None, "kn_dist_unl")
        .sql("SELECT DISTINCT k FROM big")
        .await
        .unwrap();
    assert_eq!((r.row_count, null_groups(&r).len()), (3001, 1));
}

#[tokio::test]
async fn distinct_null_key_spilled() {
    let r = big_ctx(Some(64 * 1024), "kn_dist_spill")
        .sql("SELECT DISTINCT k FROM big")
        .await
        .unwrap();
    assert!(
        r.metrics.spill_metrics.is_some(),
        "expected the DISTINCT to spill"
    );
    assert_eq!((r.row_count, null_groups(&r).len()), (3001, 1));
}

/// > 100_000 rows: HashAggregateExec takes aggregate_batches_morsel_parallel.
#[tokio::test]
async fn distinct_null_key_over_100k_rows() {
    let schema = Arc::new(Schema::new(vec![Field::new("k", DataType::Int64, true)]));
    let mut batches = Vec::new();
    for b in 0..15i64 {
        let k: Vec<Option<i64>> = (0..8000i64)
            .map(|i| {
                let g = b * 8000 + i;
                if g % 21 == 0 {
                    None
                } else {
                    Some(g % 3000)
                }
            })
            .collect();
        batches.push(
            RecordBatch::try_new(schema.clone(), vec![Arc::new(Int64Array::from(k))]).unwrap(),
        );
    }
    let mut ctx = ExecutionContext::new();
    ctx.register_table("big2", schema, batches);
    let r = ctx.sql("SELECT DISTINCT k FROM big2").await.unwrap();
    assert_eq!((r.row_count, null_groups(&r).len()), (3001, 1));
    let r = ctx
        .sql("SELECT k, COUNT(*) AS c FROM big2 GROUP BY k")
        .await
        .unwrap();
    assert_eq!((r.row_count, null_groups(&r).len()), (3001, 1));
}

/// GROUP BY with no aggregate at all.
#[tokio::test]
async fn group_by_without_aggregates_in_memory() {
    let r = small_ctx().sql("SELECT k FROM t GROUP BY k").await.unwrap();
    assert_eq!(rows_sorted(&r), s(&[&["1"], &["2"], &["NULL"]]));
}
