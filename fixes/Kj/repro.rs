//! Triage repro for `Kj-simd-helpers-ignore-validity`.
//! Place at `tests/triage_kj_simd_validity.rs`; run with
//! `cargo test --offline --test triage_kj_simd_validity`.
//!
//! The `*_simd` helpers in `src/arrow_ffi/codec.rs` are compared against the
//! Arrow kernels they stand in for, on inputs that contain NULLs.

use arrow::array::{Array, ArrayRef, BooleanArray, Float64Array, Int64Array};
use arrow::compute::kernels::cmp;
use arrow::compute::kernels::numeric;
use query_engine::arrow_ffi::{add_simd, compare_simd, filter_simd, multiply_simd, CompareOp};
use std::panic::{catch_unwind, AssertUnwindSafe};
use std::sync::Arc;

fn l_i64() -> Int64Array {
    Int64Array::from(vec![Some(1), None, Some(3), None, Some(5)])
}
fn r_i64() -> Int64Array {
    Int64Array::from(vec![Some(10), Some(20), None, None, Some(5)])
}
fn l_f64() -> Float64Array {
    Float64Array::from(vec![Some(1.0), None, Some(3.0), None, Some(5.0)])
}
fn r_f64() -> Float64Array {
    Float64Array::from(vec![Some(10.0), Some(20.0), None, None, Some(5.0)])
}

#[test]
fn add_simd_propagates_nulls_like_arrow_add() {
    let got = add_simd(&l_i64(), &r_i64()).unwrap();
    let want = numeric::add(&l_i64(), &r_i64()).unwrap();
    assert_eq!(&got, &want, "Int64 add: NULL + x must be NULL");

    let got = add_simd(&l_f64(), &r_f64()).unwrap();
    let want = numeric::add(&l_f64(), &r_f64()).unwrap();
    assert_eq!(&got, &want, "Float64 add: NULL + x must be NULL");
}

#[test]
fn multiply_simd_propagates_nulls_like_arrow_mul() {
    let got = multiply_simd(&l_i64(), &r_i64()).unwrap();
    let want = numeric::mul(&l_i64(), &r_i64()).unwrap();
    assert_eq!(&got, &want, "Int64 mul: NULL * x must be NULL");

    let got = multiply_simd(&l_f64(), &r_f64()).unwrap();
    let want = numeric::mul(&l_f64(), &r_f64()).unwrap();
    assert_eq!(&got, &want, "Float64 mul: NULL * x must be NULL");
}

#[test]
fn add_and_multiply_simd_reject_length_mismatch() {
    // Arrow's kernels return an error; the helpers must not panic (right
    // shorter) or silently truncate (right longer).
    let long = Int64Array::from(vec![1, 2, 3]);
    let short = Int64Array::from(vec![1, 2]);
    assert!(numeric::add(&long, &short).is_err());

    for (name, l, r) in [("long,short", &long, &short), ("short,long", &short, &long)] {
        let add = catch_unwind(AssertUnwindSafe(|| add_simd(l, r).map(|a| a.len())));
        assert!(
            matches!(add, Ok(Err(_))),
            "add_simd({name}) must return Err, got {add:?}"
        );
        let mul = catch_unwind(AssertUnwindSafe(|| multiply_simd(l, r).map(|a| a.len())));
        assert!(
            matches!(mul, Ok(Err(_))),
            "multiply_simd({name}) must return Err, got {mul:?}"
        );
    }
}

#[test]
fn compare_simd_propagates_nulls_like_arrow_cmp() {
    type Kernel = fn(
        &dyn arrow::array::Datum,
        &dyn arrow::array::Datum,
    ) -> Result<BooleanArray, arrow::error::ArrowError>;
    let cases: [(&str, CompareOp, Kernel); 6] = [
        ("eq", CompareOp::Eq, cmp::eq),
        ("ne", CompareOp::Ne, cmp::neq),
        ("lt", CompareOp::Lt, cmp::lt),
        ("le", CompareOp::Le, cmp::lt_eq),
        ("gt", CompareOp::Gt, cmp::gt),
        ("ge", CompareOp::Ge, cmp::gt_eq),
    ];
    let mut failures = Vec::new();
    for (name, op, kernel) in cases {
        let got = compare_simd(&l_i64(), &r_i64(), op).unwrap();
        let want = kernel(&l_i64(), &r_i64()).unwrap();
        if got != want {
            failures.push(format!("i64 {name}: got {got:?} want {want:?}"));
        }
        let got = compare_simd(&l_f64(), &r_f64(), op).unwrap();
        let want = kernel(&l_f64(), &r_f64()).unwrap();
        if got != want {
            failures.push(format!("f64 {name}: got {got:?} want {want:?}"));
        }
    }
    assert!(failures.is_empty(), "{}", failures.join("\n"));
}

#[test]
fn filter_simd_keeps_selected_null_rows_like_arrow_filter() {
    let pred = vec![true, true, false, true, false];
    let mask = BooleanArray::from(pred.clone());

    let arrays: Vec<ArrayRef> = vec![
        Arc::new(l_i64()),
        Arc::new(l_f64()),
        Arc::new(BooleanArray::from(vec![
            Some(true),
            None,
            Some(false),
            None,
            Some(true),
        ])),
    ];
    for a in arrays {
        let got = filter_simd(a.as_ref(), &pred).unwrap();
        let want = arrow::compute::filter(a.as_ref(), &mask).unwrap();
        assert_eq!(
            &got,
            &want,
            "{:?}: a selected NULL row must be kept as NULL (3 rows out, not {})",
            a.data_type(),
            got.len()
        );
    }
}
