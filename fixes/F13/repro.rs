// Append inside `mod tests` of src/metastore/gravitino.rs (dechunk is private).
    #[test]
    fn triage_f13_huge_chunk_size_is_rejected_not_a_panic() {
        // usize::MAX as hex: `size + 2` overflows (debug: panic; release: wraps and the slice panics)
        let b = b"ffffffffffffffff\r\nhello\r\n0\r\n\r\n";
        let r = std::panic::catch_unwind(|| dechunk(b));
        assert!(matches!(r, Ok(None)), "huge chunk size must be rejected, got {:?}", r.map(|o| o.map(|v| v.len())));
    }
    #[test]
    fn triage_f13_chunk_extensions_are_accepted() {
        let b = b"5;ext=1\r\nhello\r\n6\r\n world\r\n0\r\n\r\n";
        assert_eq!(dechunk(b).as_deref(), Some(&b"hello world"[..]));
    }
    #[test]
    fn triage_f13_missing_crlf_after_chunk_data_is_malformed() {
        let b = b"5\r\nhelloXX6\r\n world\r\n0\r\n\r\n";
        assert_eq!(dechunk(b), None);
    }
