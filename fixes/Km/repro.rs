//! Triage repro for `Km-group-value-default`. Goes in `tests/triage_km_group_value_default.rs`.
//!
//! `hash_agg.rs::extract_group_value` answers `GroupValue::Null` for every
//! Arrow type outside its downcast ladder (Int64, Int32, Float64, Utf8, Date32,
//! Boolean, Dictionary<Int32,Utf8>). It is also used for the INPUT of the
//! value-keyed aggregates (COUNT(DISTINCT x), SUM(DISTINCT x), grouped
//! APPROX_DISTINCT(x)), whose distinct set then holds the single value Null:
//! `COUNT(DISTINCT ts)` over a Timestamp / Int16 / UInt32 / Float32 /
//! Decimal128 / LargeUtf8 column returns 1 whatever the data, and
//! `SUM(DISTINCT i16)` returns 0. Reached from plain SQL on both an in-memory
//! table and a Parquet-backed table in the default `ExecutionContext` (DISTINCT
//! aggregates are excluded from the morsel and vectorized paths).
//!
//! Run: `cargo test --offline --test triage_km_group_value_default`

use arrow::array::*;
use arrow::datatypes::{DataType, Field, Schema, TimeUnit};
use arrow::record_batch::RecordBatch;
use parquet::arrow::ArrowWriter;
use query_engine::execution::ExecutionContext;
use std::fs::File;
use std::sync::Arc;

async fn run(ctx: &ExecutionContext, q: &str) -> String {
    match ctx.sql(q).await {
        Ok(r) => {
            let mut out = vec![];
            for b in &r.batches {
                for i in 0..b.num_rows() {
                    let mut row = vec![];
                    for c in b.columns() {
                        row.push(if c.is_null(i) {
                            "NULL".to_string()
                        } else {
                            arrow::util::display::array_value_to_string(c, i).unwrap()
                        });
                    }
                    out.push(row.join("|"));
                }
            }
            out.sort();
            format!("{:?}", out)
        }
        Err(e) => format!("ERR {e}"),
    }
}

/// g | every other column: (v1, v1, v2 | v2, v3, NULL) -> 3 distinct non-null
/// values overall, 2 per group.
fn table() -> (Arc<Schema>, RecordBatch) {
    let schema = Arc::new(Schema::new(vec![
        Field::new("g", DataType::Int64, false),
        Field::new("i64", DataType::Int64, true),
        Field::new("ts", DataType::Timestamp(TimeUnit::Microsecond, None), true),
        Field::new("i16", DataType::Int16, true),
        Field::new("u32", DataType::UInt32, true),
        Field::new("f32", DataType::Float32, true),
        Field::new("dec", DataType::Decimal128(10, 2), true),
        Field::new("ls", DataType::LargeUtf8, true),
    ]));
    let batch = RecordBatch::try_new(
        schema.clone(),
        vec![
            Arc::new(Int64Array::from(vec![1, 1, 1, 2, 2, 2])) as ArrayRef,
            Arc::new(Int64Array::from(vec![Some(1), Some(1), Some(2), Some(2), Some(3), None])),
            Arc::new(TimestampMicrosecondArray::from(vec![
                Some(1_000_000),
                Some(1_000_000),
                Some(2_000_000),
                Some(2_000_000),
                Some(3_000_000),
                None,
            ])),
            Arc::new(Int16Array::from(vec![Some(1), Some(1), Some(2), Some(2), Some(3), None])),
            Arc::new(UInt32Array::from(vec![Some(1), Some(1), Some(2), Some(2), Some(3), None])),
            Arc::new(Float32Array::from(vec![
                Some(1.5),
                Some(1.5),
                Some(2.5),
                Some(2.5),
                Some(3.5),
                None,
            ])),
            Arc::new(
                Decimal128Array::from(vec![
                    Some(100),
                    Some(100),
                    Some(200),
                    Some(200),
                    Some(300),
                    None,
                ])
                .with_precision_and_scale(10, 2)
                .unwrap(),
            ),
            Arc::new(LargeStringArray::from(vec![
                Some("a"),
                Some("a"),
                Some("b"),
                Some("b"),
                Some("c"),
                None,
            ])),
        ],
    )
    .unwrap();
    (schema, batch)
}

async fn check(ctx: &ExecutionContext, what: &str) {
    let mut bad = vec![];
    let mut expect = |q: String, got: String, want: &str| {
        println!("[{what}] {q} -> {got}");
        if got != want {
            bad.push(format!("[{what}] {q}: returned {got}, expected {want}"));
        }
    };
    // `i64` is the control: the ladder handles it.
    for c in ["i64", "ts", "i16", "u32", "f32", "dec", "ls"] {
        let q = format!("SELECT COUNT(DISTINCT {c}) FROM t");
        expect(q.clone(), run(ctx, &q).await, r#"["3"]"#);
        let q = format!("SELECT g, COUNT(DISTINCT {c}) FROM t GROUP BY g");
        expect(q.clone(), run(ctx, &q).await, r#"["1|2", "2|2"]"#);
        let q = format!("SELECT COUNT(DISTINCT {c}), COUNT(*) FROM t");
        expect(q.clone(), run(ctx, &q).await, r#"["3|6"]"#);
    }
    for (c, want) in [("i64", r#"["6"]"#), ("i16", r#"["6"]"#), ("f32", r#"["7.5"]"#)] {
        let q = format!("SELECT SUM(DISTINCT {c}) FROM t");
        expect(q.clone(), run(ctx, &q).await, want);
    }
    assert!(bad.is_empty(), "wrong answers:\n  {}", bad.join("\n  "));
}

#[tokio::test]
async fn distinct_aggregates_in_memory_table() {
    let (schema, batch) = table();
    let mut ctx = ExecutionContext::new();
    ctx.register_table("t", schema, vec![batch]);
    check(&ctx, "memory").await;
}

#[tokio::test]
async fn distinct_aggregates_parquet_table() {
    let (schema, batch) = table();
    let tmp = tempfile::tempdir().unwrap();
    let path = tmp.path().join("t.parquet");
    let mut w = ArrowWriter::try_new(File::create(&path).unwrap(), schema, None).unwrap();
    w.write(&batch).unwrap();
    w.close().unwrap();
    let mut ctx = ExecutionContext::new();
    ctx.register_parquet("t", &path).unwrap();
    check(&ctx, "parquet").await;
}

/// Grouped APPROX_DISTINCT on an in-memory table goes through the same
/// accumulator (the exact distinct set).
#[tokio::test]
async fn grouped_approx_distinct_in_memory_table() {
    let (schema, batch) = table();
    let mut ctx = ExecutionContext::new();
    ctx.register_table("t", schema, vec![batch]);
    for c in ["i64", "ts", "i16", "f32", "dec", "ls"] {
        let q = format!("SELECT g, APPROX_DISTINCT({c}) FROM t GROUP BY g");
        let got = run(&ctx, &q).await;
        println!("{q} -> {got}");
        assert_eq!(got, r#"["1|2", "2|2"]"#, "{q}");
    }
}
