//! Repro for `Kv-constant-encoding-ignores-validity` (C37, encode/decode half).
//! Place at `tests/triage_kv_constant_nulls.rs`; run with
//! `cargo test --offline --test triage_kv_constant_nulls`.
//!
//! `encode_optimal(a).decode()` must be an array equal to `a`.  `is_constant` looked only at the
//! value buffer of an Int64Array (and said `true` for every 1-row array), so a NULL-bearing array
//! whose hidden slots happen to equal the first value was rebuilt from ONE scalar, without NULLs.

use arrow::array::{Array, ArrayRef, BooleanArray, Int64Array, StringArray};
use query_engine::arrow_ffi::encode_optimal;
use std::sync::Arc;

fn roundtrip(a: ArrayRef) -> ArrayRef {
    encode_optimal(a).expect("encode").decode()
}

#[test]
fn int64_with_null_between_equal_values() {
    // the slot under the NULL holds 0 in the value buffer
    let a: ArrayRef = Arc::new(Int64Array::from(vec![Some(0), None, Some(0)]));
    let d = roundtrip(a.clone());
    assert_eq!(d.null_count(), 1, "NULL lost: {:?}", d);
    assert_eq!(&d.to_data(), &a.to_data());
}

#[test]
fn all_null_int64() {
    let a: ArrayRef = Arc::new(Int64Array::from(vec![None, None, None]));
    let d = roundtrip(a.clone());
    assert_eq!(d.null_count(), 3, "NULLs became zeros: {:?}", d);
}

#[test]
fn all_null_utf8() {
    let a: ArrayRef = Arc::new(StringArray::from(vec![None::<&str>, None]));
    let d = roundtrip(a.clone());
    assert_eq!(d.null_count(), 2, "NULLs became empty strings: {:?}", d);
}

#[test]
fn single_row_boolean_does_not_panic() {
    let a: ArrayRef = Arc::new(BooleanArray::from(vec![true]));
    let d = roundtrip(a.clone());
    assert_eq!(&d.to_data(), &a.to_data());
}
