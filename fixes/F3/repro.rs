//! Triage repro for F3-subquery-partitions. Place at tests/triage_f3_subquery_partitions.rs
//!
//! `run_subquery_blocking` (uncorrelated subqueries, CTE materialisation) and
//! `DelimJoinExec` drive only partition 0 of a child plan. A `MemoryTableExec`
//! over >= 1000 rows in several batches declares several partitions (on a
//! multi-core host), and Filter/Project forward that count, so rows living in
//! partitions 1.. are silently dropped.

use arrow::array::{Int64Array, RecordBatch};
use arrow::datatypes::{DataType, Field, Schema, SchemaRef};
use futures::TryStreamExt;
use query_engine::physical::{
    DelimGetExec, DelimJoinExec, DelimState, MemoryTableExec, PhysicalOperator,
};
use query_engine::planner::{Expr, JoinType};
use query_engine::ExecutionContext;
use std::sync::Arc;

const BATCHES: i64 = 8;
const ROWS_PER_BATCH: i64 = 1000;
const TOTAL: i64 = BATCHES * ROWS_PER_BATCH;

/// `big(y, g)`: y = 0..8000 ascending, g = y % 10; 8 batches of 1000 rows, so
/// `MemoryTableExec` declares min(rayon threads, 8) partitions.
/// `t(x)`: x = 0..8000 in ONE batch (one batch => one partition).
fn ctx() -> ExecutionContext {
    let mut ctx = ExecutionContext::new();
    let schema = Arc::new(Schema::new(vec![
        Field::new("y", DataType::Int64, false),
        Field::new("g", DataType::Int64, false),
    ]));
    let mut batches = Vec::new();
    for b in 0..BATCHES {
        let ys: Vec<i64> = (b * ROWS_PER_BATCH..(b + 1) * ROWS_PER_BATCH).collect();
        let gs: Vec<i64> = ys.iter().map(|v| v % 10).collect();
        batches.push(
            RecordBatch::try_new(
                schema.clone(),
                vec![Arc::new(Int64Array::from(ys)), Arc::new(Int64Array::from(gs))],
            )
            .unwrap(),
        );
    }
    ctx.register_table("big", schema, batches);

    let tschema = Arc::new(Schema::new(vec![Field::new("x", DataType::Int64, false)]));
    let xs: Vec<i64> = (0..TOTAL).collect();
    let tb = RecordBatch::try_new(tschema.clone(), vec![Arc::new(Int64Array::from(xs))]).unwrap();
    ctx.register_table("t", tschema, vec![tb]);
    ctx
}

async fn scalar_i64(ctx: &ExecutionContext, sql: &str) -> i64 {
    let r = ctx.sql(sql).await.unwrap_or_else(|e| panic!("{sql}: {e}"));
    let total_rows: usize = r.batches.iter().map(|b| b.num_rows()).sum();
    assert_eq!(total_rows, 1, "{sql}: expected exactly one row");
    let b = r.batches.iter().find(|b| b.num_rows() == 1).unwrap();
    b.column(0)
        .as_any()
        .downcast_ref::<Int64Array>()
        .unwrap_or_else(|| panic!("{sql}: column 0 is {:?}", b.column(0).data_type()))
        .value(0)
}

/// The fixture must actually be multi-partition or every test below is vacuous.
#[tokio::test]
async fn fixture_is_multi_partition_and_direct_scan_is_complete() {
    assert!(
        rayon::current_num_threads() >= 2,
        "needs >= 2 rayon threads for MemoryTableExec to declare > 1 partition"
    );
    let ctx = ctx();
    assert_eq!(scalar_i64(&ctx, "SELECT count(*) FROM big").await, TOTAL);
    assert_eq!(scalar_i64(&ctx, "SELECT count(*) FROM t").await, TOTAL);
}

#[tokio::test]
async fn uncorrelated_in_subquery_sees_every_partition() {
    let ctx = ctx();
    assert_eq!(
        scalar_i64(&ctx, "SELECT count(*) FROM t WHERE x IN (SELECT y FROM big)").await,
        TOTAL
    );
}

#[tokio::test]
async fn uncorrelated_not_in_subquery_sees_every_partition() {
    let ctx = ctx();
    assert_eq!(
        scalar_i64(
            &ctx,
            "SELECT count(*) FROM t WHERE x NOT IN (SELECT y FROM big)"
        )
        .await,
        0
    );
}

#[tokio::test]
async fn uncorrelated_in_subquery_with_filter_sees_every_partition() {
    let ctx = ctx();
    // y >= 7000 lives entirely in the LAST batch/partition.
    assert_eq!(
        scalar_i64(
            &ctx,
            "SELECT count(*) FROM t WHERE x IN (SELECT y FROM big WHERE y >= 7000)"
        )
        .await,
        1000
    );
}

#[tokio::test]
async fn uncorrelated_exists_sees_every_partition() {
    let ctx = ctx();
    // The only matching row (y = 7999) is not in partition 0.
    assert_eq!(
        scalar_i64(
            &ctx,
            "SELECT count(*) FROM t WHERE EXISTS (SELECT y FROM big WHERE y = 7999)"
        )
        .await,
        TOTAL
    );
}

#[tokio::test]
async fn uncorrelated_scalar_subquery_sees_every_partition() {
    let ctx = ctx();
    assert_eq!(
        scalar_i64(&ctx, "SELECT (SELECT count(*) FROM big)").await,
        TOTAL
    );
    // A non-aggregated scalar subquery whose single row is not in partition 0.
    assert_eq!(
        scalar_i64(
            &ctx,
            "SELECT count(*) FROM t WHERE x = (SELECT y FROM big WHERE y = 7999)"
        )
        .await,
        1
    );
}

#[tokio::test]
async fn twice_referenced_cte_is_materialised_completely() {
    let ctx = ctx();
    assert_eq!(
        scalar_i64(
            &ctx,
            "WITH c AS (SELECT y FROM big WHERE y >= 0) \
             SELECT count(*) FROM c a JOIN c b ON a.y = b.y"
        )
        .await,
        TOTAL
    );
}

#[tokio::test]
async fn correlated_subqueries_over_multi_partition_outer_see_every_row() {
    let ctx = ctx();
    // Outer side `big` is multi-partition; decorrelation may go through DelimJoin.
    assert_eq!(
        scalar_i64(
            &ctx,
            "SELECT count(*) FROM big b WHERE EXISTS (SELECT 1 FROM t WHERE t.x = b.y)"
        )
        .await,
        TOTAL
    );
    assert_eq!(
        scalar_i64(
            &ctx,
            "SELECT count(*) FROM big b WHERE b.y = (SELECT max(x) FROM t WHERE t.x = b.y)"
        )
        .await,
        TOTAL
    );
    // Inner side multi-partition.
    assert_eq!(
        scalar_i64(
            &ctx,
            "SELECT count(*) FROM t WHERE t.x = (SELECT max(y) FROM big WHERE big.y = t.x)"
        )
        .await,
        TOTAL
    );
    assert_eq!(
        scalar_i64(
            &ctx,
            "SELECT count(*) FROM t WHERE NOT EXISTS (SELECT 1 FROM big WHERE big.y = t.x)"
        )
        .await,
        0
    );
}

// ---------------------------------------------------------------------------
// DelimJoinExec driven directly (the FlattenDependentJoin rule that would
// produce it from SQL is currently switched off, so SQL cannot reach it).
// ---------------------------------------------------------------------------

fn y_schema() -> SchemaRef {
    Arc::new(Schema::new(vec![Field::new("y", DataType::Int64, false)]))
}

/// 8 batches x 1000 rows of `y` = 0..8000: multi-partition MemoryTableExec.
fn multi_partition_scan() -> Arc<dyn PhysicalOperator> {
    let schema = y_schema();
    let batches: Vec<RecordBatch> = (0..BATCHES)
        .map(|b| {
            let ys: Vec<i64> = (b * ROWS_PER_BATCH..(b + 1) * ROWS_PER_BATCH).collect();
            RecordBatch::try_new(schema.clone(), vec![Arc::new(Int64Array::from(ys))]).unwrap()
        })
        .collect();
    let scan = MemoryTableExec::new("big", schema, batches, None);
    assert!(scan.output_partitions() >= 2, "fixture must be multi-partition");
    Arc::new(scan)
}

async fn drain_rows(op: &dyn PhysicalOperator) -> usize {
    let mut rows = 0;
    for p in 0..op.output_partitions().max(1) {
        let batches: Vec<RecordBatch> = op.execute(p).await.unwrap().try_collect().await.unwrap();
        rows += batches.iter().map(|b| b.num_rows()).sum::<usize>();
    }
    rows
}

/// Outer (left) side multi-partition; inner side is the DelimGet itself, so a
/// SEMI join must keep every outer row.
#[tokio::test]
async fn delim_join_drains_every_partition_of_its_outer_side() {
    let state = Arc::new(DelimState::new());
    let right: Arc<dyn PhysicalOperator> = Arc::new(DelimGetExec::new(state.clone(), y_schema()));
    let join = DelimJoinExec::with_delim_state(
        multi_partition_scan(),
        right,
        JoinType::Semi,
        vec![Expr::column("y")],
        vec![(Expr::column("y"), Expr::column("y"))],
        y_schema(),
        state,
    );
    assert_eq!(drain_rows(&join).await, TOTAL as usize);
}

/// Inner (right) side multi-partition; outer side is one 8000-row batch.
#[tokio::test]
async fn delim_join_drains_every_partition_of_its_inner_side() {
    let xschema = Arc::new(Schema::new(vec![Field::new("x", DataType::Int64, false)]));
    let xs: Vec<i64> = (0..TOTAL).collect();
    let tb = RecordBatch::try_new(xschema.clone(), vec![Arc::new(Int64Array::from(xs))]).unwrap();
    let left: Arc<dyn PhysicalOperator> =
        Arc::new(MemoryTableExec::new("t", xschema.clone(), vec![tb], None));
    assert_eq!(left.output_partitions(), 1);

    let semi = DelimJoinExec::new(
        left.clone(),
        multi_partition_scan(),
        JoinType::Semi,
        vec![Expr::column("x")],
        vec![(Expr::column("x"), Expr::column("y"))],
        xschema.clone(),
    );
    assert_eq!(drain_rows(&semi).await, TOTAL as usize);

    let anti = DelimJoinExec::new(
        left,
        multi_partition_scan(),
        JoinType::Anti,
        vec![Expr::column("x")],
        vec![(Expr::column("x"), Expr::column("y"))],
        xschema,
    );
    assert_eq!(drain_rows(&anti).await, 0);
}
