//! Triage repro F11-limit-offset-errors-swallowed.
//! Goes in: tests/triage_f11.rs (new integration test target).
//!
//! A LIMIT / OFFSET operand the binder cannot turn into a row count must be
//! rejected, not silently dropped (which returns every row).

use arrow::array::{ArrayRef, Int64Array};
use arrow::datatypes::{DataType, Field, Schema};
use arrow::record_batch::RecordBatch;
use query_engine::ExecutionContext;
use std::sync::Arc;

fn ctx() -> ExecutionContext {
    let schema = Arc::new(Schema::new(vec![Field::new("x", DataType::Int64, false)]));
    let batch = RecordBatch::try_new(
        schema,
        vec![Arc::new(Int64Array::from((0..10).collect::<Vec<i64>>())) as ArrayRef],
    )
    .unwrap();
    let mut ctx = ExecutionContext::new();
    ctx.register_batch("t", batch);
    ctx
}

async fn rows(sql: &str) -> Result<usize, String> {
    match ctx().sql(sql).await {
        Ok(r) => Ok(r.batches.iter().map(|b| b.num_rows()).sum()),
        Err(e) => Err(e.to_string()),
    }
}

#[tokio::test]
async fn valid_limit_offset_still_work() {
    assert_eq!(rows("SELECT x FROM t LIMIT 3").await, Ok(3));
    assert_eq!(rows("SELECT x FROM t LIMIT 3 OFFSET 8").await, Ok(2));
    assert_eq!(rows("SELECT x FROM t OFFSET 4").await, Ok(6));
    assert_eq!(rows("SELECT x FROM t LIMIT 0").await, Ok(0));
    // "no limit" spellings keep meaning no limit
    assert_eq!(rows("SELECT x FROM t LIMIT ALL").await, Ok(10));
    assert_eq!(rows("SELECT x FROM t LIMIT NULL").await, Ok(10));
    assert_eq!(rows("SELECT x FROM t LIMIT 2 OFFSET NULL").await, Ok(2));
}

#[tokio::test]
async fn unusable_limit_or_offset_is_an_error_not_ignored() {
    let mut wrong = Vec::new();
    for sql in [
        "SELECT x FROM t LIMIT -1",
        "SELECT x FROM t LIMIT 1.5",
        "SELECT x FROM t LIMIT 99999999999999999999",
        "SELECT x FROM t LIMIT 'a'",
        "SELECT x FROM t LIMIT 2 OFFSET 'a'",
        "SELECT x FROM t LIMIT 2 OFFSET -1",
        "SELECT x FROM t OFFSET 1.5",
    ] {
        // None of these has a meaning this binder implements; each must fail.
        if let Ok(n) = rows(sql).await {
            wrong.push(format!("{sql} -> Ok({n} rows)"));
        }
    }
    assert!(wrong.is_empty(), "silently accepted: {wrong:#?}");
}

/// `LIMIT 1+1` is a constant expression: either evaluate it (2 rows) or reject
/// it, but never return all 10 rows.
#[tokio::test]
async fn limit_expression_is_not_ignored() {
    match rows("SELECT x FROM t LIMIT 1+1").await {
        Ok(n) => assert_eq!(n, 2, "LIMIT 1+1 returned {n} rows"),
        Err(_) => {}
    }
}
