//! Triage repro F4-spilled-topk-ignores-fetch.
//! Goes in: tests/triage_f4.rs (new integration test target).
//!
//! `ORDER BY .. LIMIT k` is fused by the physical planner into
//! `ExternalSortExec::with_fetch` whenever a memory pool/config is present.
//! When the sort input exceeds `memory_limit * spill_threshold` the spill
//! branch must still honour the fetch.

use arrow::array::{ArrayRef, Int64Array};
use arrow::datatypes::{DataType, Field, Schema};
use arrow::record_batch::RecordBatch;
use query_engine::{ExecutionConfig, ExecutionContext};
use std::path::PathBuf;
use std::sync::Arc;

const ROWS: i64 = 4000;
const BATCH: i64 = 1000;

fn register(ctx: &mut ExecutionContext) {
    let schema = Arc::new(Schema::new(vec![
        Field::new("id", DataType::Int64, false),
        Field::new("x", DataType::Int64, false),
    ]));
    let mut batches = Vec::new();
    let mut start = 0;
    while start < ROWS {
        let ids: Vec<i64> = (start..start + BATCH).collect();
        // A permutation of 0..ROWS so that every run contributes to the top-k.
        let xs: Vec<i64> = ids.iter().map(|i| (i * 7919) % ROWS).collect();
        batches.push(
            RecordBatch::try_new(
                schema.clone(),
                vec![
                    Arc::new(Int64Array::from(ids)) as ArrayRef,
                    Arc::new(Int64Array::from(xs)) as ArrayRef,
                ],
            )
            .unwrap(),
        );
        start += BATCH;
    }
    ctx.register_table("t", schema, batches);
}

fn spilling_ctx(name: &str) -> ExecutionContext {
    let spill_path = PathBuf::from(format!(
        "{}/target/test_spill/{name}",
        env!("CARGO_MANIFEST_DIR")
    ));
    // 4 batches x ~16 KB each; threshold = 32 KB * 0.8 -> the sort must spill
    // (one run per batch -> 4 runs -> k-way merge).
    let config = ExecutionConfig::new()
        .with_memory_limit(32 * 1024)
        .with_spill_path(spill_path);
    let mut ctx = ExecutionContext::with_config(config);
    register(&mut ctx);
    ctx
}

fn col_i64(result: &query_engine::QueryResult, col: usize) -> Vec<i64> {
    let mut out = Vec::new();
    for b in &result.batches {
        let a = b.column(col).as_any().downcast_ref::<Int64Array>().unwrap();
        for i in 0..b.num_rows() {
            out.push(a.value(i));
        }
    }
    out
}

#[tokio::test]
async fn spilled_order_by_limit_honours_limit() {
    let sql = "SELECT x FROM t ORDER BY x LIMIT 5";

    let mut base = ExecutionContext::new();
    register(&mut base);
    let baseline = col_i64(&base.sql(sql).await.unwrap(), 0);
    assert_eq!(baseline, vec![0, 1, 2, 3, 4]);

    let ctx = spilling_ctx("triage_f4");
    let spilled = ctx.sql(sql).await.unwrap();
    assert!(
        spilled.metrics.spill_metrics.is_some(),
        "test setup: the sort was expected to spill"
    );
    let got = col_i64(&spilled, 0);
    assert_eq!(
        got.len(),
        5,
        "ORDER BY x LIMIT 5 returned {} rows on the spill path",
        got.len()
    );
    assert_eq!(got, baseline);
}

#[tokio::test]
async fn spilled_order_by_desc_limit_honours_limit() {
    let sql = "SELECT id, x FROM t ORDER BY x DESC LIMIT 3";
    let ctx = spilling_ctx("triage_f4_desc");
    let spilled = ctx.sql(sql).await.unwrap();
    assert!(spilled.metrics.spill_metrics.is_some());
    let got = col_i64(&spilled, 1);
    assert_eq!(got.len(), 3, "LIMIT 3 returned {} rows on the spill path", got.len());
    assert_eq!(got, vec![3999, 3998, 3997]);
}
