//! Triage repro for `F17-bounds-not-poisoned`.
//!
//! Goes in `tests/triage_f17.rs` (integration test, public API only).
//!
//! `ParquetTable::compute_statistics` folds integer min/max over every column
//! chunk of every file, but a chunk WITHOUT statistics only poisons
//! `null_count`; the `min_i64`/`max_i64` accumulated from the other chunks are
//! still reported. `PackedJoinKeys` trusts them as hard bounds and rewrites
//! `ON l.a1 = r.a2 AND l.b1 = r.b2` into `a1*K + b1 = a2*K + b2` with
//! `K = next_pow2(max(b) + 1)`. A value of `b1` outside the reported bounds
//! then aliases a different `(a, b)` pair and the join returns rows whose keys
//! are NOT equal.

use arrow::array::{Array, Int64Array, RecordBatch};
use arrow::datatypes::{DataType, Field, Schema};
use parquet::arrow::ArrowWriter;
use parquet::file::properties::{EnabledStatistics, WriterProperties};
use query_engine::ExecutionContext;
use std::path::Path;
use std::sync::Arc;

fn batch(names: [&str; 3], rows: &[(i64, i64, i64)]) -> RecordBatch {
    let schema = Arc::new(Schema::new(vec![
        Field::new(names[0], DataType::Int64, false),
        Field::new(names[1], DataType::Int64, false),
        Field::new(names[2], DataType::Int64, false),
    ]));
    RecordBatch::try_new(
        schema,
        vec![
            Arc::new(Int64Array::from_iter_values(rows.iter().map(|r| r.0))),
            Arc::new(Int64Array::from_iter_values(rows.iter().map(|r| r.1))),
            Arc::new(Int64Array::from_iter_values(rows.iter().map(|r| r.2))),
        ],
    )
    .unwrap()
}

fn write_parquet(path: &Path, b: &RecordBatch, with_stats: bool) {
    let props = WriterProperties::builder()
        .set_statistics_enabled(if with_stats {
            EnabledStatistics::Chunk
        } else {
            EnabledStatistics::None
        })
        .build();
    let f = std::fs::File::create(path).unwrap();
    let mut w = ArrowWriter::try_new(f, b.schema(), Some(props)).unwrap();
    w.write(b).unwrap();
    w.close().unwrap();
}

fn rows(res: &query_engine::QueryResult) -> Vec<Vec<i64>> {
    let mut out = Vec::new();
    for b in &res.batches {
        for r in 0..b.num_rows() {
            out.push(
                (0..b.num_columns())
                    .map(|c| {
                        let a = arrow::compute::cast(b.column(c), &DataType::Int64).unwrap();
                        a.as_any().downcast_ref::<Int64Array>().unwrap().value(r)
                    })
                    .collect(),
            );
        }
    }
    out.sort();
    out
}

// l: file 1 (WITH stats) holds a1, b1 in 0..=100; file 2 (stats DISABLED)
// holds the out-of-range row (0, 5000). Footer bounds therefore say
// b1 in [0, 100] => K = 128, and (0, 5000) packs to 5000 = 39*128 + 8, the
// same slot as (39, 8).
fn l_in_range() -> Vec<(i64, i64, i64)> {
    let mut v: Vec<(i64, i64, i64)> = (0..=100).map(|i| (i, 100 - i, i)).collect();
    v.push((39, 8, 1000));
    v
}
const L_OUT_OF_RANGE: &[(i64, i64, i64)] = &[(0, 5000, 2000)];
const R_ROWS: &[(i64, i64, i64)] = &[(39, 8, 7), (100, 100, 8), (0, 0, 9)];

const JOIN_SQL: &str = "SELECT l.a1, l.b1, l.v, r.w FROM l JOIN r ON l.a1 = r.a2 AND l.b1 = r.b2";
const GROUP_SQL: &str = "SELECT a1, b1, COUNT(*) AS c FROM l GROUP BY a1, b1";

fn contexts() -> (tempfile::TempDir, ExecutionContext, ExecutionContext) {
    let dir = tempfile::tempdir().unwrap();
    let ldir = dir.path().join("l");
    let rdir = dir.path().join("r");
    std::fs::create_dir_all(&ldir).unwrap();
    std::fs::create_dir_all(&rdir).unwrap();

    let l1 = batch(["a1", "b1", "v"], &l_in_range());
    let l2 = batch(["a1", "b1", "v"], L_OUT_OF_RANGE);
    let r1 = batch(["a2", "b2", "w"], R_ROWS);
    write_parquet(&ldir.join("part-0.parquet"), &l1, true);
    write_parquet(&ldir.join("part-1.parquet"), &l2, false);
    write_parquet(&rdir.join("part-0.parquet"), &r1, true);

    let mut pq = ExecutionContext::new();
    pq.register_parquet("l", &ldir).unwrap();
    pq.register_parquet("r", &rdir).unwrap();

    let mut mem = ExecutionContext::new();
    mem.register_table("l", l1.schema(), vec![l1.clone(), l2.clone()]);
    mem.register_table("r", r1.schema(), vec![r1.clone()]);
    (dir, pq, mem)
}

#[tokio::test]
async fn f17_two_column_join_over_statless_chunk_matches_in_memory() {
    let (_dir, pq, mem) = contexts();
    let expected = rows(&mem.sql(JOIN_SQL).await.unwrap());
    // Sanity: the only equal key pair is (39, 8).
    assert_eq!(expected, vec![vec![39, 8, 1000, 7]]);
    let got = rows(&pq.sql(JOIN_SQL).await.unwrap());
    assert_eq!(
        got, expected,
        "parquet-backed join returned rows whose keys are not equal \
         (stat-less chunk value packed outside the footer bounds)"
    );
}

// Companion check (passes before and after the fix): PackedGroupKeys demands
// null_count == Some(0), and a stat-less chunk DOES poison null_count, so the
// GROUP BY a, b shape is shielded from this defect.
#[tokio::test]
async fn f17_group_by_over_statless_chunk_matches_in_memory() {
    let (_dir, pq, mem) = contexts();
    let expected = rows(&mem.sql(GROUP_SQL).await.unwrap());
    let got = rows(&pq.sql(GROUP_SQL).await.unwrap());
    assert_eq!(got, expected);
}

// Guard for the repair (passes before and after): when EVERY chunk carries
// statistics the bounds are still reported and PackedJoinKeys still fires,
// now with a K that covers 5000 (K = 8192), and the answer is right.
#[tokio::test]
async fn f17_packing_still_applies_when_every_chunk_has_stats() {
    let dir = tempfile::tempdir().unwrap();
    let ldir = dir.path().join("l");
    let rdir = dir.path().join("r");
    std::fs::create_dir_all(&ldir).unwrap();
    std::fs::create_dir_all(&rdir).unwrap();
    let l1 = batch(["a1", "b1", "v"], &l_in_range());
    let l2 = batch(["a1", "b1", "v"], L_OUT_OF_RANGE);
    let r1 = batch(["a2", "b2", "w"], R_ROWS);
    write_parquet(&ldir.join("part-0.parquet"), &l1, true);
    write_parquet(&ldir.join("part-1.parquet"), &l2, true);
    write_parquet(&rdir.join("part-0.parquet"), &r1, true);
    let mut pq = ExecutionContext::new();
    pq.register_parquet("l", &ldir).unwrap();
    pq.register_parquet("r", &rdir).unwrap();

    let plan = format!("{:?}", pq.optimized_plan(JOIN_SQL).unwrap());
    assert!(plan.contains("Int64(8192)"), "join keys not packed: {plan}");
    let got = rows(&pq.sql(JOIN_SQL).await.unwrap());
    assert_eq!(got, vec![vec![39, 8, 1000, 7]]);
}
