//! Triage Kd-silent-type-defaults: sites (a) spilled sort merge, (b) spilled
//! hash join key extraction, (c) in-memory hash join key extraction.
//! Goes in `tests/triage_kd.rs`.

use arrow::array::*;
use arrow::datatypes::{DataType, Field, Schema, TimeUnit};
use arrow::record_batch::RecordBatch;
use query_engine::{ExecutionConfig, ExecutionContext, QueryResult};
use std::path::PathBuf;
use std::sync::Arc;

const N: usize = 6000;
const BATCH: usize = 1000;

/// Pseudo-random permutation-ish values in 0..N (distinct).
fn shuffled() -> Vec<i64> {
    // 7919 is coprime with 6000
    (0..N as i64).map(|i| (i * 7919 + 13) % N as i64).collect()
}

fn key_array(kind: &str, vals: &[i64]) -> ArrayRef {
    match kind {
        "int64" => Arc::new(Int64Array::from(vals.to_vec())),
        "int16" => Arc::new(Int16Array::from(
            vals.iter().map(|v| *v as i16).collect::<Vec<_>>(),
        )),
        "int8mod" => Arc::new(Int8Array::from(
            vals.iter().map(|v| (*v % 100) as i8).collect::<Vec<_>>(),
        )),
        "uint32" => Arc::new(UInt32Array::from(
            vals.iter().map(|v| *v as u32).collect::<Vec<_>>(),
        )),
        "float32" => Arc::new(Float32Array::from(
            vals.iter().map(|v| *v as f32).collect::<Vec<_>>(),
        )),
        "date32" => Arc::new(Date32Array::from(
            vals.iter().map(|v| *v as i32).collect::<Vec<_>>(),
        )),
        "timestamp_us" => Arc::new(TimestampMicrosecondArray::from(
            vals.iter().map(|v| *v * 1_000_000).collect::<Vec<_>>(),
        )),
        "timestamp_ns" => Arc::new(TimestampNanosecondArray::from(
            vals.iter().map(|v| *v * 1_000_000_000).collect::<Vec<_>>(),
        )),
        "decimal128" => Arc::new(
            Decimal128Array::from(vals.iter().map(|v| *v as i128 * 100).collect::<Vec<_>>())
                .with_precision_and_scale(18, 2)
                .unwrap(),
        ),
        "boolean" => Arc::new(BooleanArray::from(
            vals.iter().map(|v| *v % 2 == 0).collect::<Vec<_>>(),
        )),
        "largeutf8" => Arc::new(LargeStringArray::from(
            vals.iter().map(|v| format!("k{:06}", v)).collect::<Vec<_>>(),
        )),
        "utf8" => Arc::new(StringArray::from(
            vals.iter().map(|v| format!("k{:06}", v)).collect::<Vec<_>>(),
        )),
        other => panic!("unknown kind {other}"),
    }
}

fn dtype(kind: &str) -> DataType {
    key_array(kind, &[0]).data_type().clone()
}

/// Table `name` with columns (k <kind>, id Int64, pad Utf8) split in BATCH-row
/// batches; `id` carries the logical integer behind `k`.
fn register(ctx: &mut ExecutionContext, name: &str, kind: &str, ids: &[i64], prefix: &str) {
    let schema = Arc::new(Schema::new(vec![
        Field::new(format!("{prefix}k"), dtype(kind), false),
        Field::new(format!("{prefix}id"), DataType::Int64, false),
        Field::new(format!("{prefix}pad"), DataType::Utf8, false),
    ]));
    let mut batches = Vec::new();
    for chunk in ids.chunks(BATCH) {
        let pad: Vec<String> = chunk.iter().map(|v| format!("{:0>64}", v)).collect();
        batches.push(
            RecordBatch::try_new(
                schema.clone(),
                vec![
                    key_array(kind, chunk),
                    Arc::new(Int64Array::from(chunk.to_vec())),
                    Arc::new(StringArray::from(pad)),
                ],
            )
            .unwrap(),
        );
    }
    ctx.register_table(name, schema, batches);
}

fn spilling_ctx(tag: &str) -> ExecutionContext {
    let spill_path = PathBuf::from(format!(
        "{}/target/test_spill/triage_kd_{tag}",
        env!("CARGO_MANIFEST_DIR")
    ));
    let config = ExecutionConfig::new()
        .with_memory_limit(64 * 1024)
        .with_spill_path(spill_path);
    ExecutionContext::with_config(config)
}

fn ids_of(result: &QueryResult, col: usize) -> Vec<i64> {
    let mut out = Vec::new();
    for b in &result.batches {
        let a = b
            .column(col)
            .as_any()
            .downcast_ref::<Int64Array>()
            .expect("id column is Int64");
        out.extend(a.iter().map(|v| v.unwrap()));
    }
    out
}

// ---------------------------------------------------------------- site (a)

async fn sort_case(kind: &str) -> std::result::Result<(), String> {
    let ids = shuffled();
    let mut ctx = spilling_ctx(&format!("sort_{kind}"));
    register(&mut ctx, "t", kind, &ids, "");
    let r = ctx
        .sql("SELECT k, id FROM t ORDER BY k")
        .await
        .map_err(|e| format!("{kind}: query failed: {e}"))?;
    if r.metrics.spill_metrics.is_none() {
        return Err(format!("{kind}: did not spill - test is not exercising the merge"));
    }
    let got = ids_of(&r, 1);
    if got.len() != N {
        return Err(format!("{kind}: {} rows, expected {N}", got.len()));
    }
    // `id` is the logical integer behind k, all distinct, so ORDER BY k must
    // give 0..N exactly.
    let first_bad = got.iter().enumerate().find(|(i, v)| **v != *i as i64);
    match first_bad {
        None => Ok(()),
        Some((i, v)) => Err(format!(
            "{kind}: ORDER BY k with spill is out of order: position {i} holds id {v} \
             (first 8 ids: {:?})",
            &got[..8]
        )),
    }
}

#[tokio::test]
async fn a_spilled_sort_orders_every_key_type() {
    let mut failures = Vec::new();
    for kind in [
        "int64",
        "date32",
        "utf8",
        "int16",
        "uint32",
        "float32",
        "timestamp_us",
        "timestamp_ns",
        "decimal128",
        "largeutf8",
    ] {
        if let Err(e) = sort_case(kind).await {
            eprintln!("SORT FAIL {e}");
            failures.push(e);
        } else {
            eprintln!("SORT ok   {kind}");
        }
    }
    assert!(failures.is_empty(), "spilled ORDER BY wrong for:\n{}", failures.join("\n"));
}

// ------------------------------------------------------------ sites (b)/(c)

async fn join_case(kind: &str, spill: bool) -> std::result::Result<(), String> {
    let ids = shuffled();
    let mut ctx = if spill {
        spilling_ctx(&format!("join_{kind}"))
    } else {
        ExecutionContext::new()
    };
    register(&mut ctx, "l", kind, &ids, "l_");
    let mut rids = ids.clone();
    rids.reverse();
    register(&mut ctx, "r", kind, &rids, "r_");
    let r = match ctx.sql("SELECT l_id, r_id FROM l JOIN r ON l_k = r_k").await {
        Ok(r) => r,
        // An explicit "this key type is not supported" is a loud, acceptable
        // outcome; a silently empty/partial result is the defect under test.
        Err(e) if e.to_string().contains("Not implemented") => {
            eprintln!("JOIN {kind} (spill={spill}): explicit error: {e}");
            return Ok(());
        }
        Err(e) => return Err(format!("{kind}: query failed: {e}")),
    };
    if spill && r.metrics.spill_metrics.is_none() {
        return Err(format!("{kind}: did not spill"));
    }
    let l = ids_of(&r, 0);
    let rr = ids_of(&r, 1);
    let expected = if kind == "boolean" { N * N / 2 } else { N };
    if l.len() != expected {
        return Err(format!(
            "{kind} (spill={spill}): INNER JOIN ON l_k = r_k returned {} rows, expected {expected}",
            l.len()
        ));
    }
    if kind != "boolean" && l.iter().zip(rr.iter()).any(|(a, b)| a != b) {
        return Err(format!("{kind} (spill={spill}): mismatched pairs joined"));
    }
    Ok(())
}

const JOIN_KINDS: [&str; 11] = [
    "int64",
    "utf8",
    "date32",
    "int16",
    "uint32",
    "float32",
    "timestamp_us",
    "timestamp_ns",
    "decimal128",
    "largeutf8",
    "boolean",
];

#[tokio::test]
async fn b_spilled_hash_join_matches_every_key_type() {
    let mut failures = Vec::new();
    for kind in JOIN_KINDS {
        if kind == "boolean" {
            continue; // 18M-row output; covered in-memory only with a smaller N below
        }
        if let Err(e) = join_case(kind, true).await {
            eprintln!("SPILL JOIN FAIL {e}");
            failures.push(e);
        } else {
            eprintln!("SPILL JOIN ok   {kind}");
        }
    }
    assert!(failures.is_empty(), "spilled JOIN wrong for:\n{}", failures.join("\n"));
}

#[tokio::test]
async fn c_in_memory_hash_join_matches_every_key_type() {
    let mut failures = Vec::new();
    for kind in JOIN_KINDS {
        if kind == "boolean" {
            continue;
        }
        if let Err(e) = join_case(kind, false).await {
            eprintln!("MEM JOIN FAIL {e}");
            failures.push(e);
        } else {
            eprintln!("MEM JOIN ok   {kind}");
        }
    }
    assert!(failures.is_empty(), "in-memory JOIN wrong for:\n{}", failures.join("\n"));
}

#[tokio::test]
async fn c_in_memory_hash_join_boolean_key() {
    let mut ctx = ExecutionContext::new();
    let schema = |p: &str| {
        Arc::new(Schema::new(vec![
            Field::new(format!("{p}k"), DataType::Boolean, false),
            Field::new(format!("{p}id"), DataType::Int64, false),
        ]))
    };
    let mk = |p: &str| {
        RecordBatch::try_new(
            schema(p),
            vec![
                Arc::new(BooleanArray::from(vec![true, false, true])) as ArrayRef,
                Arc::new(Int64Array::from(vec![1, 2, 3])),
            ],
        )
        .unwrap()
    };
    ctx.register_batch("l", mk("l_"));
    ctx.register_batch("r", mk("r_"));
    let r = ctx
        .sql("SELECT l_id, r_id FROM l JOIN r ON l_k = r_k")
        .await
        .unwrap();
    assert_eq!(r.row_count, 5, "boolean join key: true x2*2 + false 1*1 = 5 rows");
}

#[allow(dead_code)]
fn _unused(_: TimeUnit) {}
