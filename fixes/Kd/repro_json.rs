//! Triage Kd-silent-type-defaults: sites (d) filter.rs::get_scalar_value
//! (JSON_ARRAY_CONTAINS search value) and (e) filter.rs::get_json_value
//! (JSON_OBJECT / JSON_ARRAY element values).
//! Goes in `tests/triage_kd_json.rs`.

use arrow::array::*;
use arrow::datatypes::{DataType, Field, Schema};
use arrow::record_batch::RecordBatch;
use query_engine::ExecutionContext;
use std::sync::Arc;

fn ctx() -> ExecutionContext {
    let schema = Arc::new(Schema::new(vec![
        Field::new("js", DataType::Utf8, false),
        Field::new("i16", DataType::Int16, false),
        Field::new("u32", DataType::UInt32, false),
        Field::new("f32", DataType::Float32, false),
        Field::new("dec", DataType::Decimal128(10, 2), false),
        Field::new("d", DataType::Date32, false),
        Field::new("ls", DataType::LargeUtf8, false),
        Field::new("i64", DataType::Int64, false),
    ]));
    let batch = RecordBatch::try_new(
        schema,
        vec![
            Arc::new(StringArray::from(vec!["[null, 2, 2.5, \"x\"]"])) as ArrayRef,
            Arc::new(Int16Array::from(vec![2i16])),
            Arc::new(UInt32Array::from(vec![2u32])),
            Arc::new(Float32Array::from(vec![2.5f32])),
            Arc::new(
                Decimal128Array::from(vec![250i128])
                    .with_precision_and_scale(10, 2)
                    .unwrap(),
            ),
            Arc::new(Date32Array::from(vec![19723])), // 2024-01-01
            Arc::new(LargeStringArray::from(vec!["x"])),
            Arc::new(Int64Array::from(vec![2i64])),
        ],
    )
    .unwrap();
    let mut ctx = ExecutionContext::new();
    ctx.register_batch("t", batch);
    ctx
}

/// Ok(Some(v)) value, Ok(None) SQL NULL, Err(e) the query raised an error.
async fn one_bool(ctx: &ExecutionContext, sql: &str) -> Result<Option<bool>, String> {
    let r = ctx.sql(sql).await.map_err(|e| e.to_string())?;
    let c = r.batches[0].column(0).clone();
    let b = c
        .as_any()
        .downcast_ref::<BooleanArray>()
        .unwrap_or_else(|| panic!("{sql}: not boolean: {:?}", c.data_type()));
    Ok(if b.is_null(0) { None } else { Some(b.value(0)) })
}

async fn one_str(ctx: &ExecutionContext, sql: &str) -> Result<String, String> {
    let r = ctx.sql(sql).await.map_err(|e| e.to_string())?;
    let c = r.batches[0].column(0).clone();
    let s = c
        .as_any()
        .downcast_ref::<StringArray>()
        .unwrap_or_else(|| panic!("{sql}: not utf8: {:?}", c.data_type()));
    Ok(s.value(0).to_string())
}

/// (d) The search value of an unhandled Arrow type must not silently become
/// JSON null: `[null, 2, 2.5, "x"]` contains 2 / 2.5 / "x", and a non-NULL
/// search value must never "find" the JSON null element.
#[tokio::test]
async fn d_json_array_contains_search_value_types() {
    let ctx = ctx();
    let mut bad = Vec::new();
    // sanity: handled type
    assert_eq!(
        one_bool(&ctx, "SELECT JSON_ARRAY_CONTAINS(js, i64) FROM t").await,
        Ok(Some(true))
    );
    for (col, present) in [
        ("i16", "2"),
        ("u32", "2"),
        ("f32", "2.5"),
        ("dec", "2.5"),
        ("ls", "\"x\""),
    ] {
        let sql = format!("SELECT JSON_ARRAY_CONTAINS(js, {col}) FROM t");
        match one_bool(&ctx, &sql).await {
            Ok(Some(true)) => {}
            other => bad.push(format!("{sql} -> {other:?}, expected true ({present} is in the array)")),
        }
        // [null] contains no non-null value at all
        let sql = format!("SELECT JSON_ARRAY_CONTAINS('[null]', {col}) FROM t");
        match one_bool(&ctx, &sql).await {
            Ok(Some(false)) => {}
            other => bad.push(format!("{sql} -> {other:?}, expected false")),
        }
    }
    // SQL-only reachability (no table column needed)
    for sql in [
        "SELECT JSON_ARRAY_CONTAINS('[null]', CAST(2 AS SMALLINT))",
        "SELECT JSON_ARRAY_CONTAINS('[null]', CAST(2.5 AS REAL))",
        "SELECT JSON_ARRAY_CONTAINS('[null]', CAST(2.5 AS DECIMAL(10,2)))",
        "SELECT JSON_ARRAY_CONTAINS('[null]', DATE '2024-01-01')",
    ] {
        match one_bool(&ctx, sql).await {
            Ok(Some(false)) => {}
            other => bad.push(format!("{sql} -> {other:?}, expected false")),
        }
    }
    for b in &bad {
        eprintln!("D FAIL {b}");
    }
    assert!(bad.is_empty(), "{}", bad.join("\n"));
}

/// (e) A non-NULL value of an unhandled Arrow type must not be rendered as
/// JSON `null`.
#[tokio::test]
async fn e_json_array_and_object_value_types() {
    let ctx = ctx();
    let mut bad = Vec::new();
    assert_eq!(
        one_str(&ctx, "SELECT JSON_ARRAY(i64) FROM t").await,
        Ok("[2]".to_string())
    );
    for (expr, expected) in [
        ("i16", "2"),
        ("u32", "2"),
        ("f32", "2.5"),
        ("dec", "2.5"),
        ("d", "\"2024-01-01\""),
        ("ls", "\"x\""),
        ("CAST(2 AS SMALLINT)", "2"),
        ("CAST(2.5 AS REAL)", "2.5"),
        ("CAST(2.5 AS DECIMAL(10,2))", "2.5"),
        ("DATE '2024-01-01'", "\"2024-01-01\""),
    ] {
        let sql = format!("SELECT JSON_ARRAY({expr}) FROM t");
        match one_str(&ctx, &sql).await {
            Ok(s) if s == format!("[{expected}]") => eprintln!("E ok   {sql} -> {s}"),
            other => bad.push(format!("{sql} -> {other:?}, expected [{expected}]")),
        }
        let sql = format!("SELECT JSON_OBJECT('k', {expr}) FROM t");
        match one_str(&ctx, &sql).await {
            Ok(s) if s == format!("{{\"k\":{expected}}}") => eprintln!("E ok   {sql} -> {s}"),
            other => bad.push(format!("{sql} -> {other:?}, expected {{\"k\":{expected}}}")),
        }
    }
    for b in &bad {
        eprintln!("E FAIL {b}");
    }
    assert!(bad.is_empty(), "{}", bad.join("\n"));
}
