//! Goes in tests/triage_ku.rs. A predicate above a LIMIT (derived table) filters the LIMITED rows; it must not be pushed
//! below the LIMIT, where it changes which rows survive.
use arrow::array::{Array, Int64Array};
use arrow::datatypes::{DataType, Field, Schema};
use arrow::record_batch::RecordBatch;
use query_engine::execution::ExecutionContext;
use std::sync::Arc;

fn ctx() -> ExecutionContext {
    let schema = Arc::new(Schema::new(vec![
        Field::new("x", DataType::Int64, false),
        Field::new("y", DataType::Int64, false),
    ]));
    // x = 1..10, y = 10 - x  (so the three smallest x have the three largest y)
    let xs: Vec<i64> = (1..=10).collect();
    let ys: Vec<i64> = xs.iter().map(|x| 10 - x).collect();
    let batch = RecordBatch::try_new(
        schema.clone(),
        vec![Arc::new(Int64Array::from(xs)), Arc::new(Int64Array::from(ys))],
    )
    .unwrap();
    let mut ctx = ExecutionContext::new();
    ctx.register_table("t", schema, vec![batch]);
    ctx
}

async fn xs(ctx: &ExecutionContext, sql: &str) -> Vec<i64> {
    let r = ctx.sql(sql).await.unwrap();
    let mut out = Vec::new();
    for b in &r.batches {
        let a = b.column(0).as_any().downcast_ref::<Int64Array>().unwrap();
        for i in 0..a.len() {
            out.push(a.value(i));
        }
    }
    out.sort();
    out
}

#[tokio::test]
async fn filter_above_limit_is_not_pushed_below_it() {
    let ctx = ctx();
    // the 3 smallest x are 1,2,3 with y = 9,8,7; of those only y < 8 keeps x = 3
    let got = xs(&ctx, "SELECT x FROM (SELECT x, y FROM t ORDER BY x LIMIT 3) s WHERE y < 8").await;
    assert_eq!(got, vec![3], "filter must apply to the limited rows");
    // OFFSET form: rows 4..6 (x = 4,5,6; y = 6,5,4); y > 4 keeps x = 4,5
    let got = xs(&ctx, "SELECT x FROM (SELECT x, y FROM t ORDER BY x LIMIT 3 OFFSET 3) s WHERE y > 4").await;
    assert_eq!(got, vec![4, 5]);
    // control: no limit, the filter alone
    let got = xs(&ctx, "SELECT x FROM (SELECT x, y FROM t) s WHERE y < 8").await;
    assert_eq!(got, (3..=10).collect::<Vec<i64>>());
}
