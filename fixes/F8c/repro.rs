//! Triage repro for F8c-dict-cols-cache. Goes in `tests/triage_f8c.rs`.
//!
//! `ipc_cache::sidecar_dict_cols(dir)` memoizes the set of dictionary-typed
//! columns per sidecar DIRECTORY for the life of the process and never
//! invalidates it. When the parquet file is replaced and its sidecar rebuilt
//! (same directory name, different stored schema) the old answer is served.
//!
//! Runs in build mode (QE_IPC_CACHE=1). `ipc_cache::mode()` latches the env
//! var on first use, so every test calls `build_mode()` first.

use arrow::array::{ArrayRef, Int64Array, StringArray};
use arrow::datatypes::{DataType, Field, Schema};
use arrow::record_batch::RecordBatch;
use parquet::arrow::ArrowWriter;
use parquet::file::properties::WriterProperties;
use query_engine::storage::ipc_cache;
use std::collections::HashSet;
use std::fs::File;
use std::path::Path;
use std::sync::Arc;

fn build_mode() {
    std::env::set_var("QE_IPC_CACHE", "1");
    assert!(ipc_cache::mode() == ipc_cache::Mode::Build);
}

fn schema() -> Arc<Schema> {
    Arc::new(Schema::new(vec![
        Field::new("id", DataType::Int64, false),
        Field::new("s", DataType::Utf8, false),
    ]))
}

/// `dictionary == true`: 4 distinct strings, dictionary-encoded pages, so the
/// sidecar stores `s` as Dictionary(Int32, Utf8). `false`: PLAIN pages, so
/// the sidecar stores `s` as plain Utf8.
fn write_parquet(path: &Path, rows: i64, dictionary: bool) {
    let props = WriterProperties::builder()
        .set_dictionary_enabled(dictionary)
        .build();
    let ids: Vec<i64> = (0..rows).collect();
    let strs: Vec<String> = ids.iter().map(|i| format!("v{}", i % 4)).collect();
    let batch = RecordBatch::try_new(
        schema(),
        vec![
            Arc::new(Int64Array::from(ids)) as ArrayRef,
            Arc::new(StringArray::from(strs)) as ArrayRef,
        ],
    )
    .unwrap();
    let mut w = ArrowWriter::try_new(File::create(path).unwrap(), schema(), Some(props)).unwrap();
    w.write(&batch).unwrap();
    w.close().unwrap();
}

/// What the sidecar on disk REALLY stores dictionary-encoded.
fn stored_dict_cols(dir: &Path) -> HashSet<String> {
    let batches = ipc_cache::read_row_group(dir, 0, None, None).unwrap();
    batches[0]
        .schema()
        .fields()
        .iter()
        .filter(|f| matches!(f.data_type(), DataType::Dictionary(_, _)))
        .map(|f| f.name().to_lowercase())
        .collect()
}

fn set(names: &[&str]) -> HashSet<String> {
    names.iter().map(|s| s.to_string()).collect()
}

#[test]
fn dict_cols_follow_a_rebuilt_sidecar_dict_to_plain() {
    build_mode();
    let tmp = tempfile::tempdir().unwrap();
    let path = tmp.path().join("t.parquet");

    write_parquet(&path, 1000, true);
    let dir = ipc_cache::ensure_sidecar(&path).expect("sidecar");
    assert_eq!(stored_dict_cols(&dir), set(&["s"]));
    assert_eq!(ipc_cache::sidecar_dict_cols(&dir), set(&["s"]));

    // Replace the file (different length => different stamp => rebuild).
    write_parquet(&path, 1500, false);
    let dir2 = ipc_cache::ensure_sidecar(&path).expect("sidecar rebuilt");
    assert_eq!(dir2, dir, "the rebuilt sidecar lives in the same directory");
    assert_eq!(stored_dict_cols(&dir2), set(&[]), "rebuilt sidecar stores s plain");

    assert_eq!(
        ipc_cache::sidecar_dict_cols(&dir2),
        set(&[]),
        "sidecar_dict_cols still reports the dictionary columns of the sidecar that was replaced"
    );
}

#[test]
fn dict_cols_follow_a_rebuilt_sidecar_plain_to_dict() {
    build_mode();
    let tmp = tempfile::tempdir().unwrap();
    let path = tmp.path().join("t.parquet");

    write_parquet(&path, 1000, false);
    let dir = ipc_cache::ensure_sidecar(&path).expect("sidecar");
    assert_eq!(stored_dict_cols(&dir), set(&[]));
    assert_eq!(ipc_cache::sidecar_dict_cols(&dir), set(&[]));

    write_parquet(&path, 1500, true);
    let dir2 = ipc_cache::ensure_sidecar(&path).expect("sidecar rebuilt");
    assert_eq!(stored_dict_cols(&dir2), set(&["s"]), "rebuilt sidecar stores s dict");

    assert_eq!(
        ipc_cache::sidecar_dict_cols(&dir2),
        set(&["s"]),
        "sidecar_dict_cols still reports the (empty) column set of the sidecar that was replaced"
    );
}
