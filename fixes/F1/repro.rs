//! Triage F1-kleene-logic: AND/OR/IN/BETWEEN must use SQL three-valued
//! (Kleene) logic. Goes in `tests/triage_f1_kleene.rs`.
//!
//! Run with the default (compiled predicates) and with `QE_COMPILE=0`
//! (interpreter only): both must return the standard answers.

use arrow::array::{Array, ArrayRef, Int64Array};
use arrow::datatypes::{DataType, Field, Schema};
use arrow::record_batch::RecordBatch;
use query_engine::ExecutionContext;
use std::sync::Arc;

/// id | a    | b
///  1 | 1    | 5
///  2 | NULL | 1
///  3 | NULL | 3
///  4 | 7    | NULL
///  5 | 2    | 2
///  6 | NULL | NULL
fn ctx() -> ExecutionContext {
    let schema = Arc::new(Schema::new(vec![
        Field::new("id", DataType::Int64, false),
        Field::new("a", DataType::Int64, true),
        Field::new("b", DataType::Int64, true),
    ]));
    let batch = RecordBatch::try_new(
        schema.clone(),
        vec![
            Arc::new(Int64Array::from(vec![1, 2, 3, 4, 5, 6])) as ArrayRef,
            Arc::new(Int64Array::from(vec![
                Some(1),
                None,
                None,
                Some(7),
                Some(2),
                None,
            ])) as ArrayRef,
            Arc::new(Int64Array::from(vec![
                Some(5),
                Some(1),
                Some(3),
                None,
                Some(2),
                None,
            ])) as ArrayRef,
        ],
    )
    .unwrap();
    let mut ctx = ExecutionContext::new();
    ctx.register_table("t", schema, vec![batch]);
    ctx
}

async fn ids(sql: &str) -> Vec<i64> {
    let res = ctx().sql(sql).await.unwrap_or_else(|e| panic!("{sql}: {e}"));
    let mut out = vec![];
    for b in &res.batches {
        let col = b.column(0).as_any().downcast_ref::<Int64Array>().unwrap();
        for i in 0..col.len() {
            out.push(col.value(i));
        }
    }
    out.sort();
    out
}

#[tokio::test]
async fn or_null_or_true_is_true() {
    // row 2: NULL = 1 OR 1 = 1  ->  NULL OR TRUE = TRUE
    assert_eq!(ids("SELECT id FROM t WHERE a = 1 OR b = 1").await, vec![1, 2]);
}

#[tokio::test]
async fn not_and_null_and_false_is_false() {
    // NOT (a = 1 AND b = 2):
    //  1: T AND F = F -> keep; 2: N AND F = F -> keep; 3: N AND F = F -> keep
    //  4: F AND N = F -> keep; 5: F AND T = F -> keep; 6: N AND N = N -> drop
    assert_eq!(
        ids("SELECT id FROM t WHERE NOT (a = 1 AND b = 2)").await,
        vec![1, 2, 3, 4, 5]
    );
}

#[tokio::test]
async fn in_list_with_null_element() {
    // a IN (1, NULL, 2): TRUE for a = 1 and a = 2 (TRUE OR NULL = TRUE).
    assert_eq!(
        ids("SELECT id FROM t WHERE a IN (1, NULL, 2)").await,
        vec![1, 5]
    );
    // a IN (b, 1): row 1 is (1 = 5) OR (1 = 1) = T; row 4 is (7 = NULL) OR (7 = 1) = N
    assert_eq!(ids("SELECT id FROM t WHERE a IN (b, 1)").await, vec![1, 5]);
    // b IN (a, 1): row 2 is (1 = NULL) OR (1 = 1) = NULL OR TRUE = TRUE
    assert_eq!(ids("SELECT id FROM t WHERE b IN (a, 1)").await, vec![2, 5]);
}

#[tokio::test]
async fn not_between_with_null_bound() {
    // a NOT BETWEEN b AND 5  ==  NOT (a >= b AND a <= 5)
    //  1: 1>=5 F           -> NOT F = T keep
    //  4: 7>=NULL N, 7<=5 F -> N AND F = F -> NOT F = T keep
    //  5: 2>=2 T, 2<=5 T   -> drop
    assert_eq!(
        ids("SELECT id FROM t WHERE a NOT BETWEEN b AND 5").await,
        vec![1, 4]
    );
}

#[tokio::test]
async fn projection_of_or_and() {
    // The same logic in a SELECT-list expression (interpreter path).
    let res = ctx()
        .sql("SELECT id, (a = 1 OR b = 1) AS o, (a = 1 AND b = 2) AS n FROM t ORDER BY id")
        .await
        .unwrap();
    let mut o = vec![];
    let mut n = vec![];
    for b in &res.batches {
        let oc = b
            .column(1)
            .as_any()
            .downcast_ref::<arrow::array::BooleanArray>()
            .unwrap();
        let nc = b
            .column(2)
            .as_any()
            .downcast_ref::<arrow::array::BooleanArray>()
            .unwrap();
        for i in 0..b.num_rows() {
            o.push(oc.is_valid(i).then(|| oc.value(i)));
            n.push(nc.is_valid(i).then(|| nc.value(i)));
        }
    }
    assert_eq!(
        o,
        vec![Some(true), Some(true), None, None, Some(false), None],
        "a = 1 OR b = 1"
    );
    assert_eq!(
        n,
        vec![
            Some(false),
            Some(false),
            Some(false),
            Some(false),
            Some(false),
            None
        ],
        "a = 1 AND b = 2"
    );
}
