//! Triage repro for `F18-sum-distinct-empty`.
//! Place at `tests/triage_f18_sum_distinct.rs`; run with
//! `cargo test --offline --test triage_f18_sum_distinct`.
//!
//! SUM over no non-NULL input is NULL - with or without DISTINCT.

use arrow::array::{Array, ArrayRef, Float64Array, Int64Array};
use arrow::datatypes::{DataType, Field, Schema};
use arrow::record_batch::RecordBatch;
use query_engine::ExecutionContext;
use std::sync::Arc;

fn ctx() -> ExecutionContext {
    let mut ctx = ExecutionContext::new();
    let schema = Arc::new(Schema::new(vec![
        Field::new("g", DataType::Int64, false),
        Field::new("x", DataType::Int64, true),
        Field::new("f", DataType::Float64, true),
    ]));
    // g = 1: values 5, 5, 7  (distinct sum 12)
    // g = 2: all NULL        (distinct sum NULL)
    let batch = RecordBatch::try_new(
        schema.clone(),
        vec![
            Arc::new(Int64Array::from(vec![1, 1, 1, 2, 2])) as ArrayRef,
            Arc::new(Int64Array::from(vec![Some(5), Some(5), Some(7), None, None])),
            Arc::new(Float64Array::from(vec![
                Some(0.5),
                Some(0.5),
                Some(1.0),
                None,
                None,
            ])),
        ],
    )
    .unwrap();
    ctx.register_table("t", schema.clone(), vec![batch]);

    let nulls = RecordBatch::try_new(
        schema.clone(),
        vec![
            Arc::new(Int64Array::from(vec![1, 2])) as ArrayRef,
            Arc::new(Int64Array::from(vec![None, None])),
            Arc::new(Float64Array::from(vec![None, None])),
        ],
    )
    .unwrap();
    ctx.register_table("all_null", schema.clone(), vec![nulls]);
    ctx.register_table("empty_t", schema.clone(), vec![RecordBatch::new_empty(schema)]);
    ctx
}

/// (g, value) rows sorted by g; value cast to f64 so that Int64 and Float64
/// results share one helper.
async fn grouped(ctx: &ExecutionContext, sql: &str) -> Vec<(i64, Option<f64>)> {
    let res = ctx
        .sql(sql)
        .await
        .unwrap_or_else(|e| panic!("query failed: {e}\nSQL: {sql}"));
    let mut out = Vec::new();
    for b in &res.batches {
        let g = arrow::compute::cast(b.column(0), &DataType::Int64).unwrap();
        let g = g.as_any().downcast_ref::<Int64Array>().unwrap();
        let v = arrow::compute::cast(b.column(1), &DataType::Float64).unwrap();
        let v = v.as_any().downcast_ref::<Float64Array>().unwrap();
        for i in 0..b.num_rows() {
            out.push((g.value(i), if v.is_null(i) { None } else { Some(v.value(i)) }));
        }
    }
    out.sort_by_key(|r| r.0);
    out
}

async fn scalar(ctx: &ExecutionContext, sql: &str) -> Vec<Option<f64>> {
    let res = ctx
        .sql(sql)
        .await
        .unwrap_or_else(|e| panic!("query failed: {e}\nSQL: {sql}"));
    let mut out = Vec::new();
    for b in &res.batches {
        let v = arrow::compute::cast(b.column(0), &DataType::Float64).unwrap();
        let v = v.as_any().downcast_ref::<Float64Array>().unwrap();
        for i in 0..b.num_rows() {
            out.push(if v.is_null(i) { None } else { Some(v.value(i)) });
        }
    }
    out
}

#[tokio::test]
async fn grouped_sum_distinct_int_is_null_for_all_null_group() {
    let ctx = ctx();
    // Control: the non-DISTINCT form already does the right thing.
    let plain = grouped(&ctx, "SELECT g, SUM(x) FROM t GROUP BY g").await;
    assert_eq!(plain, vec![(1, Some(17.0)), (2, None)]);

    let got = grouped(&ctx, "SELECT g, SUM(DISTINCT x) FROM t GROUP BY g").await;
    assert_eq!(got, vec![(1, Some(12.0)), (2, None)]);
}

#[tokio::test]
async fn grouped_sum_distinct_float_is_null_for_all_null_group() {
    let ctx = ctx();
    let got = grouped(&ctx, "SELECT g, SUM(DISTINCT f) FROM t GROUP BY g").await;
    assert_eq!(got, vec![(1, Some(1.5)), (2, None)]);
}

#[tokio::test]
async fn global_sum_distinct_over_all_null_input_is_null() {
    let ctx = ctx();
    assert_eq!(scalar(&ctx, "SELECT SUM(x) FROM all_null").await, vec![None]);
    assert_eq!(
        scalar(&ctx, "SELECT SUM(DISTINCT x) FROM all_null").await,
        vec![None]
    );
    assert_eq!(
        scalar(&ctx, "SELECT SUM(DISTINCT f) FROM all_null").await,
        vec![None]
    );
}

#[tokio::test]
async fn global_sum_distinct_over_empty_input_is_null() {
    let ctx = ctx();
    assert_eq!(scalar(&ctx, "SELECT SUM(x) FROM empty_t").await, vec![None]);
    assert_eq!(
        scalar(&ctx, "SELECT SUM(DISTINCT x) FROM empty_t").await,
        vec![None]
    );
    assert_eq!(
        scalar(&ctx, "SELECT SUM(DISTINCT x) FROM t WHERE g > 100").await,
        vec![None]
    );
}
