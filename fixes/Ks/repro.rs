//! Repro for `Ks-correlation-cache-key-default`.
//!
//! Placement: copy to `tests/triage_ks_correlation_cache_key.rs` (it is a
//! self-contained integration test), or include it from another test target
//! with `#[path = "../triage/Ks-correlation-cache-key-default/repro.rs"] mod ks;`.
//! Run: `cargo test --offline --test triage_ks_correlation_cache_key`.
//!
//! `SubqueryExecutor::extract_correlation_values`
//! (src/physical/operators/subquery.rs) keys the per-row result cache of a
//! correlated subquery on every outer column, but maps every type other than
//! Int64/Int32/Float64/Utf8/Boolean/Date32 to `CorrelationValue::Null`.
//! `array_ref_to_scalar` (same file), which `substitute_correlated_columns`
//! uses to turn the row into literals, additionally accepts Int8, Int16 and
//! Float32 - so for those three types the statement runs, every outer row
//! gets the SAME key, and rows 2..n are answered with row 1's cached result.
//! (UInt*, Timestamp, Decimal128, LargeUtf8 ... fail in `array_ref_to_scalar`
//! before the cache is consulted, so the default is unreachable for them.)

use arrow::array::{
    Array, ArrayRef, Float32Array, Int16Array, Int64Array, Int8Array, TimestampMicrosecondArray,
};
use arrow::datatypes::{DataType, Field, Schema};
use arrow::record_batch::RecordBatch;
use query_engine::execution::ExecutionContext;
use std::sync::Arc;

/// Outer table `t(a <type of arr>)` plus inner table `s(k BIGINT, v BIGINT)`
/// = (0,10), (1,20), (2,30).
fn ctx_with_outer(arr: ArrayRef) -> ExecutionContext {
    let mut ctx = ExecutionContext::new();
    let t_schema = Arc::new(Schema::new(vec![Field::new(
        "a",
        arr.data_type().clone(),
        true,
    )]));
    ctx.register_batch("t", RecordBatch::try_new(t_schema, vec![arr]).unwrap());
    let s_schema = Arc::new(Schema::new(vec![
        Field::new("k", DataType::Int64, false),
        Field::new("v", DataType::Int64, false),
    ]));
    ctx.register_batch(
        "s",
        RecordBatch::try_new(
            s_schema,
            vec![
                Arc::new(Int64Array::from(vec![0i64, 1, 2])),
                Arc::new(Int64Array::from(vec![10i64, 20, 30])),
            ],
        )
        .unwrap(),
    );
    ctx
}

/// Column `col` of the whole result, cast to BIGINT.
async fn int_column(ctx: &ExecutionContext, sql: &str, col: usize) -> Vec<Option<i64>> {
    let result = ctx
        .sql(sql)
        .await
        .unwrap_or_else(|e| panic!("{sql} failed: {e}"));
    let mut out = Vec::new();
    for batch in &result.batches {
        let arr = arrow::compute::cast(batch.column(col), &DataType::Int64).unwrap();
        let arr = arr.as_any().downcast_ref::<Int64Array>().unwrap();
        for i in 0..arr.len() {
            out.push(if arr.is_null(i) {
                None
            } else {
                Some(arr.value(i))
            });
        }
    }
    out
}

const SCALAR_IN_SELECT: &str =
    "SELECT a, (SELECT max(s.v) FROM s WHERE s.k < t.a) AS m FROM t ORDER BY a";

#[tokio::test]
async fn correlated_scalar_subquery_over_smallint_outer_column() {
    let ctx = ctx_with_outer(Arc::new(Int16Array::from(vec![1i16, 2, 3])));
    // a=1 -> k in {0} -> 10; a=2 -> {0,1} -> 20; a=3 -> {0,1,2} -> 30.
    // Unfixed tree: [10, 10, 10].
    assert_eq!(
        int_column(&ctx, SCALAR_IN_SELECT, 1).await,
        vec![Some(10), Some(20), Some(30)]
    );
}

#[tokio::test]
async fn correlated_scalar_subquery_over_tinyint_outer_column() {
    let ctx = ctx_with_outer(Arc::new(Int8Array::from(vec![1i8, 2, 3])));
    assert_eq!(
        int_column(&ctx, SCALAR_IN_SELECT, 1).await,
        vec![Some(10), Some(20), Some(30)]
    );
}

#[tokio::test]
async fn correlated_scalar_subquery_over_real_outer_column() {
    let ctx = ctx_with_outer(Arc::new(Float32Array::from(vec![1f32, 2.0, 3.0])));
    assert_eq!(
        int_column(&ctx, SCALAR_IN_SELECT, 1).await,
        vec![Some(10), Some(20), Some(30)]
    );
}

#[tokio::test]
async fn correlated_exists_over_smallint_outer_column() {
    let ctx = ctx_with_outer(Arc::new(Int16Array::from(vec![1i16, 2, 3])));
    // Only a=1 has an s.k (=2) above it. Unfixed tree: EXISTS keeps all three
    // rows (row 1's TRUE is replayed), NOT EXISTS keeps none.
    assert_eq!(
        int_column(
            &ctx,
            "SELECT a FROM t WHERE EXISTS (SELECT 1 FROM s WHERE s.k > t.a) ORDER BY a",
            0
        )
        .await,
        vec![Some(1)]
    );
    assert_eq!(
        int_column(
            &ctx,
            "SELECT a FROM t WHERE NOT EXISTS (SELECT 1 FROM s WHERE s.k > t.a) ORDER BY a",
            0
        )
        .await,
        vec![Some(2), Some(3)]
    );
}

#[tokio::test]
async fn correlated_scalar_subquery_in_where_over_smallint_outer_column() {
    let ctx = ctx_with_outer(Arc::new(Int16Array::from(vec![1i16, 2, 3])));
    // count(k < a) is 1, 2, 3. Unfixed tree: no row (row 1's count of 1 replayed).
    assert_eq!(
        int_column(
            &ctx,
            "SELECT a FROM t WHERE (SELECT count(*) FROM s WHERE s.k < t.a) >= 2 ORDER BY a",
            0
        )
        .await,
        vec![Some(2), Some(3)]
    );
}

/// Documents the upstream guard: a type `array_ref_to_scalar` has no arm for
/// fails the statement on the FIRST outer row (always a cache miss), so the
/// `_ => Null` key is never used for it. Passes before and after the fix -
/// it only insists such a type is never answered wrongly.
#[tokio::test]
async fn timestamp_outer_column_is_refused_or_correct() {
    let ctx = ctx_with_outer(Arc::new(TimestampMicrosecondArray::from(vec![1i64, 2, 3])));
    match ctx.sql(SCALAR_IN_SELECT).await {
        Err(e) => assert!(
            e.to_string().contains("Unsupported type for scalar subquery"),
            "unexpected error: {e}"
        ),
        Ok(r) => assert_eq!(r.row_count, 3),
    }
}
