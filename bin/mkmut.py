"""helper: from mkmut import mut; mut(name, what, [expect...], file, old, new [, file2, old2, new2 ...])
writes /verif/mutants/<name>.patch as a unified diff against /repo's current file contents."""
import difflib, os, sys
V = os.path.dirname(os.path.dirname(os.path.abspath(__file__)))
def mut(name, what, expect, *edits, outdir=None):
    out = [f"# what: {what}\n"] + [f"# expect: {e}\n" for e in expect]
    assert len(edits) % 3 == 0
    cur = {}
    order = []
    for i in range(0, len(edits), 3):
        file, old, new = edits[i:i+3]
        if file not in cur:
            cur[file] = open(os.path.join("/repo", file)).read()
            order.append(file)
        assert cur[file].count(old) == 1, f"{name}: old text occurs {cur[file].count(old)} times in {file}"
        cur[file] = cur[file].replace(old, new)
    for file in order:
        src = open(os.path.join("/repo", file)).read()
        out += list(difflib.unified_diff(src.splitlines(True), cur[file].splitlines(True), "a/" + file, "b/" + file))
    p = os.path.join(outdir or os.path.join(V, "mutants"), name + ".patch")
    open(p, "w").write("".join(out))
    return p


def revert_mut(name, what, expect, fixdiff, outdir=None):
    """mutant = the reverse of a committed fix (the original defect comes back)"""
    import subprocess, tempfile, shutil, re
    d = tempfile.mkdtemp()
    try:
        files = sorted(set(re.findall(r"^\+\+\+ b/(\S+)", open(fixdiff).read(), re.M)))
        for f in files:
            os.makedirs(os.path.dirname(os.path.join(d, f)), exist_ok=True)
            shutil.copy(os.path.join("/repo", f), os.path.join(d, f))
        r = subprocess.run(["patch", "-R", "-p1", "-s", "--no-backup-if-mismatch", "-i", fixdiff], cwd=d, capture_output=True, text=True)
        assert r.returncode == 0, r.stdout + r.stderr
        out = [f"# what: {what}\n"] + [f"# expect: {e}\n" for e in expect]
        for f in files:
            src = open(os.path.join("/repo", f)).read()
            dst = open(os.path.join(d, f)).read()
            out += list(difflib.unified_diff(src.splitlines(True), dst.splitlines(True), "a/" + f, "b/" + f))
        p = os.path.join(outdir or os.path.join(V, "mutants"), name + ".patch")
        open(p, "w").write("".join(out))
        return p
    finally:
        shutil.rmtree(d)
