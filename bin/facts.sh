#!/bin/bash
# Extract facts from /repo's current working tree (or $QE_REPO) into $1 (directory).
# Usage: facts.sh <outdir> [repo-dir] [target-dir]
set -euo pipefail
VERIF="$(cd "$(dirname "$0")/.." && pwd)"
OUT="$1"; REPO="${2:-${QE_REPO:-/repo}}"; TGT="${3:-$VERIF/.cache/target}"
DRV="$VERIF/engines/qe-facts/target/release/qe-facts"
[ -x "$DRV" ] || { echo "BROKEN: driver not built (run setup_cmd)" >&2; exit 2; }
mkdir -p "$OUT" "$TGT"
rm -f "$OUT"/*.jsonl
# cargo must not replay a cached result for the workspace member
rm -rf "$TGT"/debug/.fingerprint/query_engine-* 2>/dev/null || true
NONCE="$(date +%s%N)-$$"
SYSROOT="$(rustc +nightly --print sysroot)"
cd "$REPO"
if ! env CARGO_NET_OFFLINE=true LD_LIBRARY_PATH="$SYSROOT/lib" RUSTFLAGS="-Zmir-opt-level=0 -Awarnings" \
    RUSTC_WORKSPACE_WRAPPER="$DRV" CARGO_TARGET_DIR="$TGT" QE_FACTS_OUT="$OUT" QE_FACTS_NONCE="$NONCE" \
    cargo +nightly check --offline --lib --bins >"$OUT/cargo.log" 2>&1; then
  echo "BROKEN: cargo check failed; see $OUT/cargo.log" >&2
  tail -30 "$OUT/cargo.log" >&2
  exit 2
fi
n=$(ls "$OUT"/query_engine-lib-*.jsonl 2>/dev/null | wc -l)
m=$(ls "$OUT"/query_engine-bin-*.jsonl 2>/dev/null | wc -l)
if [ "$n" -ne 1 ] || [ "$m" -lt 1 ]; then echo "BROKEN: expected lib+bin fact files, got lib=$n bin=$m" >&2; exit 2; fi
grep -q "\"nonce\":\"$NONCE\"" "$OUT"/query_engine-lib-*.jsonl || { echo "BROKEN: stale fact file (nonce mismatch)" >&2; exit 2; }
echo "$NONCE" > "$OUT/nonce"
